"""C11 - a tag accepts its arguments exactly when the equivalent Python call would.

Model: coq/Bind/Model.v   Theorems: coq/Props/C11.v
Correspondence (every case is evaluated inside Coq by vm_compute):
  (i)   py_bind (S-model: Python's binding rule)      vs  a REAL Python call of a function built with exec
  (ii)  impl_bind (M-model of wrapper_render + validators + final call)
                                                        vs  the REAL tag: a probe returning locals(), built as a BaseNode subclass, with
                                                            @template_tag (both: fast path) or with a callable object as render()
                                                            (no __code__: the real tag takes the inspect.Signature fallback)
  (iii) validate_code / validate_sig                    vs  _validate_params_with_code / validate_params(func=None) called directly,
                                                            also on the render() functions of the built-in tags
Direct property oracle (independent of the model): tag result == result of the equivalent Python call on the same function.
"""
import collections
import collections.abc
import functools
import glob
import inspect
import itertools
import json
import keyword
import multiprocessing
import os
import time
import types

import common as C

IMPORTS = "From DJC Require Import Lib.Base Bind.Model Bind.Flags."
CHECK_BOTH = "check_both"
CHECK_VALIDATE = "check_validate"
SV, CV = 1000, 1001          # how `self` / `context` are printed
WEIRD = 999999               # any other non-int value

# trigger classes (decided on the input).  All four were defects, all four are fixed: a failure in them is a VIOLATION again.
T_POSONLY_DEFAULT = "c11-posonly-default"            # fixed in 3c868d2
T_POSONLY_KW = "c11-posonly-name-as-kwarg"           # fixed in 81cf028
T_DUP_SPECIAL = "c11-duplicate-special-key"          # fixed in 8478320
T_NONSTR = "c11-nonstring-spread-key"                # fixed in 87d326f: a spread mapping has a key that is not a str (None, an int, a tuple)
T_SPREAD_KIND = "c11-spread-container-kind"          # a spread value that is a Mapping but no dict / an iterable but no list
T_WRAPPED_CALLABLE = "c11-wrapped-callable-signature"   # render() = callable object without __code__ carrying __wrapped__ (class-based decorator)
T_DECORATED = "c11-decorated-render"                    # render() = function decorated with functools.wraps
T_FLAGS = "c11-flag-extraction"                         # the tag declares flags and an attribute is written with a bare / filtered / spread / quoted word
T_OTHER = "c11-other"


# ----------------------------------------------------------------------------------------------
# signatures:  {"lead": 0|1|2, "po": [[name, default|None]..], "pk": [...], "va": name|None, "ko": [...], "vk": name|None,
#               "names": ["self", "context"]}
# lead = how many of (self, context) are positional-only; po non-empty requires lead == 2.
# ----------------------------------------------------------------------------------------------
def mk_sig(po=(), pk=(), va=None, ko=(), vk=None, lead=None, names=("self", "context")):
    po, pk, ko = [list(p) for p in po], [list(p) for p in pk], [list(p) for p in ko]
    if lead is None:
        lead = 2 if po else 0
    assert lead == 2 or not po
    return {"lead": lead, "po": po, "pk": pk, "va": va, "ko": ko, "vk": vk, "names": list(names)}


OBJ = "_c11_obj"      # own first parameter of the callable-object variant (positional-only, never used as a key)


def lead_params(sig):
    """self / context; `def render(self=1, context=2, a=3)` is legal Python (then every positional parameter has a default)."""
    return [[n, d] for n, d in zip(sig["names"], sig.get("lead_defaults") or [None, None])]


def sig_src(sig, fname="render", obj=False):
    lead = lead_params(sig)
    pos = lead + sig["po"] + sig["pk"]
    npo = sig["lead"] + len(sig["po"]) if sig["lead"] == 2 else sig["lead"]
    if obj:
        pos = [[OBJ, None]] + pos
        npo += 1
    parts = []
    for i, (n, d) in enumerate(pos):
        parts.append(n if d is None else "%s=%d" % (n, d))
        if i + 1 == npo:
            parts.append("/")
    if sig["va"]:
        parts.append("*" + sig["va"])
    elif sig["ko"]:
        parts.append("*")
    for n, d in sig["ko"]:
        parts.append(n if d is None else "%s=%d" % (n, d))
    if sig["vk"]:
        parts.append("**" + sig["vk"])
    return "def %s(%s):\n    OUT.append(dict(locals()))\n    return ''\n" % (fname, ", ".join(parts))


def make_fn(sig, out, fname="render"):
    ns = {"OUT": out}
    exec(sig_src(sig, fname), ns)
    return decorate(ns[fname], sig)


def decorate(f, sig):
    """sig["inner"] = signature of a function that f pretends to wrap (functools.wraps / update_wrapper: __wrapped__, __name__, ...).
    The tag CALLS f, so f's own signature is what the arguments must fit; __code__/__defaults__/__kwdefaults__ are not copied by wraps."""
    if sig.get("inner"):
        ns = {"OUT": []}
        exec(sig_src(sig["inner"], "render"), ns)
        functools.update_wrapper(f, ns["render"])
        assert f.__wrapped__ is ns["render"]
    return f


def render_line(sig):
    l = sig_src(sig).split("\n")[0]
    if sig.get("inner"):
        l += "   # decorated: functools.wraps of " + sig_src(sig["inner"]).split("\n")[0]
    return l


def make_callable_obj(sig, out):
    """An object without __code__ whose __call__ has the signature of render(): inspect.signature(obj) == signature of
    make_fn(sig), validate_params() takes the fallback path, orig_render(self, context, *a, **kw) binds through __call__."""
    ns = {"OUT": out}
    src = "class RenderObj:\n" + "".join("    " + l + "\n" for l in sig_src(sig, "__call__", obj=True).split("\n") if l)
    exec(src, ns)
    o = decorate(ns["RenderObj"](), sig)
    assert not hasattr(o, "__code__")
    return o


def full_parts(sig):
    """(s_po, s_pk) of the FULL signature as in the Coq model."""
    lead = lead_params(sig)
    L = sig["lead"]
    return lead[:L] + sig["po"], lead[L:] + sig["pk"]


def param_names(sig):
    return [n for n, _ in sig["po"] + sig["pk"] + sig["ko"]]


class Lit:
    """Compact Coq literals: strings and signatures are named once in a header (parsing dominates coqc time)."""
    HDR = ("Local Open Scope N_scope.\n"
           "Definition P := mkP.\nDefinition K (k : str) (v : N) : str * N := (k, v).\n"
           "Definition D (k : dkey) (v : N) : dkey * N := (k, v).\n"
           "Definition KO (k : option str) (v : N) : option str * N := (k, v).\n"
           "Definition B a b c : res binding := Ok (mkB a b c).\n"
           "Definition Bo (F : sig) a b c : res binding :=\n"
           "  Ok (mkB (match pos_params F with p :: q :: _ => [(pname p, SV); (pname q, CV)] | _ => [] end ++ a) b c).\n"
           "Definition ET {A} : res A := Err TypeError.\nDefinition ES {A} : res A := Err SyntaxError.\n"
           "Definition EI {A} : res A := Err IndexError.\nDefinition EO {A} : res A := Err OtherError.\n"
           "Definition Cs (u : bool) (F : sig) (c : list targ) (p t : res binding) : both_case := (u, F, c, p, t).\n"
           "Definition Cd (u : bool) (F : sig) (c : list targ) (p : res binding) : both_case := (u, F, c, p, p).\n"
           "Definition Fa := mkA.\n"
           "Definition Cf (u : bool) (F : sig) (al : list str) (at_ : list tattr) (p t : res binding) (fl : option (list str)) : flag_case "
           ":= (u, F, al, at_, p, t, fl).\n"
           "Definition Cp (F : sig) (c : list targ) (p : res binding) : pybind_case := (F, c, p).\n"
           "Definition Cv (u : bool) (F : sig) (ps : list (option str * N)) (ex : list (str * N)) (r : res binding) "
           ": validate_case := (u, F, ps, ex, r).\n")

    def __init__(self):
        self.strs, self.sigs = {}, {}

    def s(self, x):
        if x not in self.strs:
            self.strs[x] = "s%d" % len(self.strs)
        return self.strs[x]

    def n(self, v):
        return "%d" % v

    def lst(self, items):
        return "[" + "; ".join(items) + "]"

    def opt(self, x, f):
        return "None" if x is None else "(Some %s)" % f(x)

    def param(self, p):
        return "P %s %s" % (self.s(p[0]), self.opt(p[1], self.n))

    def sig(self, sig):
        key = sig_src(sig)
        if key not in self.sigs:
            po, pk = full_parts(sig)
            self.sigs[key] = ("g%d" % len(self.sigs), "mkSig %s %s %s %s %s" % (
                self.lst([self.param(p) for p in po]), self.lst([self.param(p) for p in pk]), self.opt(sig["va"], self.s),
                self.lst([self.param(p) for p in sig["ko"]]), self.opt(sig["vk"], self.s)))
        return self.sigs[key][0]

    def kvs(self, l):
        return self.lst(["K %s %d" % (self.s(k), v) for k, v in l])

    def dkvs(self, l):
        """items of a spread mapping: keys are str | None | any other hashable (written as a JSON list = a tuple)"""
        return self.lst(["D %s %d" % ("(DStr %s)" % self.s(k) if isinstance(k, str) else "DNone" if k is None else "DOther", v)
                         for k, v in l])

    def call(self, call):
        out = []
        for a in call:
            if a[0] == "pos":
                out.append("TPos %d" % a[1])
            elif a[0] == "kw":
                out.append("TKw %s %d" % (self.s(a[1]), a[2]))
            elif a[0] == "sl":
                out.append("TSpreadL %s" % self.lst(["%d" % v for v in a[1]]))
            else:
                out.append("TSpreadD %s" % self.dkvs(a[1]))
        return self.lst(out)

    def obs(self, o, sig=None):
        if o[0] == "err":
            return ERRT.get(o[1], "EO")
        _, vals, va, kw = o
        vals = [tuple(x) for x in vals]
        tail = "%s %s" % (self.opt(va, lambda l: self.lst(["%d" % v for v in l])), self.opt(kw, self.kvs))
        if sig is not None and vals[:2] == [(sig["names"][0], SV), (sig["names"][1], CV)]:
            # short form (parsing the literals dominates coqc time): self and context were bound to the node and the Context
            return "(Bo %s %s %s)" % (self.sig(sig), self.kvs(vals[2:]), tail)
        return "(B %s %s)" % (self.kvs(vals), tail)

    def attrs(self, call):
        """the call as the attribute list of Bind/Flags.v: how each attribute is written + the argument it resolves to"""
        out = []
        for i, a in enumerate(call):
            if a[0] == "pos":
                out.append("Fa (VOther %s) (TPos %d)" % (self.s("%d" % a[1]), a[1]))
            elif a[0] == "kw":
                out.append("Fa (VOther %s) (TKw %s %d)" % (self.s("%d" % a[2]), self.s(a[1]), a[2]))
            elif a[0] == "sl":
                out.append("Fa (VBare %s) (TSpreadL %s)" % (self.s(spread_var(a, i)), self.lst(["%d" % v for v in a[1]])))
            elif a[0] == "sd":
                out.append("Fa (VBare %s) (TSpreadD %s)" % (self.s(spread_var(a, i)), self.dkvs(a[1])))
            elif a[0] == "flag":
                out.append("Fa (VBare %s) (TPos 0)" % self.s(a[1]))
            elif a[0] == "var":
                out.append("Fa (VBare %s) (TPos %d)" % (self.s(a[1]), a[2]))
            elif a[0] == "varf":
                out.append("Fa (VFiltered %s %s) (TPos %d)" % (self.s(a[1]), self.s(a[2]), a[3]))
            elif a[0] == "posq":
                out.append("Fa (VQuoted %s) (TPos %d)" % (self.s(a[1]), WEIRD))
            elif a[0] == "kwv":
                out.append("Fa (VBare %s) (TKw %s %d)" % (self.s(a[2]), self.s(a[1]), a[3]))
            else:
                raise ValueError(a)
        return self.lst(out)

    def flagged(self, use_code, sig, call, py, tag, flags_obs):
        return "Cf %s %s %s %s %s %s %s" % (C.cbool(use_code), self.sig(sig), self.lst([self.s(f) for f in sig["flags"]]), self.attrs(call),
                                           self.obs(py, sig), self.obs(tag, sig), self.opt(flags_obs, lambda l: self.lst([self.s(f) for f in l])))

    def both(self, use_code, sig, call, py, tag):
        if py == tag:
            o = self.obs(py, sig)
            return "Cd %s %s %s %s" % (C.cbool(use_code), self.sig(sig), self.call(call), o)
        return "Cs %s %s %s %s %s" % (C.cbool(use_code), self.sig(sig), self.call(call), self.obs(py, sig), self.obs(tag, sig))

    def header(self):
        h = self.HDR
        h += "".join("Definition %s : str := [%s].\n" % (n, ";".join(str(ord(ch)) for ch in x)) for x, n in self.strs.items())
        h += "".join("Definition %s : sig := %s.\n" % (n, t) for n, t in self.sigs.values())
        return h


ERRT = {"TypeError": "ET", "SyntaxError": "ES", "IndexError": "EI"}
LIT = Lit()


def sig_from_function(fn):
    """Signature dict of an existing render(self, context, ...) function; defaults are renamed 900+i."""
    ps = list(inspect.signature(fn).parameters.values())
    K = inspect.Parameter
    sig = {"lead": 0, "po": [], "pk": [], "va": None, "ko": [], "vk": None, "names": [ps[0].name, ps[1].name]}
    sig["lead"] = sum(1 for p in ps[:2] if p.kind == K.POSITIONAL_ONLY)
    defaults = {}
    for i, p in enumerate(ps[2:]):
        d = None
        if p.default is not K.empty:
            d = 900 + i
            defaults[p.name] = p.default
        if p.kind == K.POSITIONAL_ONLY:
            sig["po"].append([p.name, d])
        elif p.kind == K.POSITIONAL_OR_KEYWORD:
            sig["pk"].append([p.name, d])
        elif p.kind == K.VAR_POSITIONAL:
            sig["va"] = p.name
        elif p.kind == K.KEYWORD_ONLY:
            sig["ko"].append([p.name, d])
        else:
            sig["vk"] = p.name
    return sig, defaults


# ----------------------------------------------------------------------------------------------
# calls: list of ["pos", v] | ["kw", k, v] | ["sl", [v..]] | ["sd", [[k, v]..]]
# ----------------------------------------------------------------------------------------------
class NonStr:
    """A key of a spread mapping that is not a str: None, or (JSON list ->) a tuple."""
    def __init__(self, key):
        self.key = tuple(key) if isinstance(key, list) else key

    def __repr__(self):
        return repr(self.key)

    def __eq__(self, o):
        return isinstance(o, NonStr) and o.key == self.key

    def __hash__(self):
        return hash(("NonStr", self.key))


def real_key(k):
    return k if isinstance(k, str) else NonStr(k).key


# ---- what kind of object a spread value is: `...x` must act as **x for ANY Mapping and as *x for any other iterable ----
class FrozenMap(collections.abc.Mapping):
    """A hand-written Mapping that is not a dict subclass."""
    def __init__(self, items):
        self._keys = [k for k, _ in items]
        self._d = dict(items)

    def __getitem__(self, k):
        return self._d[k]

    def __iter__(self):
        return iter(self._keys)

    def __len__(self):
        return len(self._keys)


class Bag:
    """A hand-written iterable (not a Sequence, not an iterator)."""
    def __init__(self, items):
        self._items = list(items)

    def __iter__(self):
        return iter(self._items)


MAP_KINDS = ["dict", "proxy", "userdict", "chainmap", "frozenmap", "ordereddict"]
SEQ_KINDS = ["list", "tuple", "range", "dict_keys", "bag", "iterator"]


def make_mapping(kvs, kind="dict"):
    d = dict((real_key(k), v) for k, v in kvs)
    if kind == "dict":
        return d
    if kind == "proxy":
        return types.MappingProxyType(d)
    if kind == "userdict":
        return collections.UserDict(d)
    if kind == "chainmap":      # first half of the items in the front map, the rest behind it (iteration order differs; binding does not)
        items = list(d.items())
        h = (len(items) + 1) // 2
        return collections.ChainMap(dict(items[:h]), dict(items[h:]))
    if kind == "frozenmap":
        return FrozenMap(list(d.items()))
    if kind == "ordereddict":
        return collections.OrderedDict(d)
    raise ValueError(kind)


def make_iterable(vs, kind="list"):
    vs = list(vs)
    if kind == "range" and vs and vs == list(range(vs[0], vs[0] + len(vs))):
        return range(vs[0], vs[0] + len(vs))
    if kind == "tuple":
        return tuple(vs)
    if kind == "dict_keys":
        return dict.fromkeys(vs).keys()
    if kind == "bag":
        return Bag(vs)
    if kind == "iterator":
        return iter(vs)
    return vs


def spread_kind(a):
    return a[2] if len(a) > 2 else ("list" if a[0] == "sl" else "dict")


def spread_var(a, i):
    """name of the context variable a spread is written with ( ...name ); a 4th element overrides the default l<i> / d<i>"""
    return a[3] if len(a) > 3 else ("l%d" % i if a[0] == "sl" else "d%d" % i)


def consistent(call):
    """every context variable of the call has ONE value (a flag-named variable may be used several times)"""
    seen = {}
    for i, a in enumerate(call):
        if a[0] == "var":
            item = (a[1], ("scalar", a[2]))
        elif a[0] == "varf":
            item = (a[1], ("scalar", a[3]))
        elif a[0] == "kwv":
            item = (a[2], ("scalar", a[3]))
        elif a[0] in ("sl", "sd"):
            item = (spread_var(a, i), ("spread", i))
        else:
            continue
        if seen.setdefault(item[0], item[1]) != item[1]:
            return False
    return True


def spread_value(a):
    return make_iterable(a[1], spread_kind(a)) if a[0] == "sl" else make_mapping(a[1], spread_kind(a))


def entries_of(call):
    """(None, v) = positional, (str, v) = keyword, (NonStr, v) = item of a spread mapping whose key is not a str"""
    es = []
    for a in call:
        if a[0] == "pos":
            es.append((None, a[1]))
        elif a[0] == "kw":
            es.append((a[1], a[2]))
        elif a[0] == "sl":
            es.extend((None, v) for v in a[1])
        elif a[0] == "sd":
            es.extend((k if isinstance(k, str) else NonStr(k), v) for k, v in a[1])
        elif a[0] == "flag":            # a bare word that the tag declares as flag: not an argument
            pass
        elif a[0] == "var":             # ["var", name, v]: positional argument written as the variable `name`
            es.append((None, a[2]))
        elif a[0] == "varf":            # ["varf", name, filter, v]: positional argument written `name|filter` (value-preserving filter)
            es.append((None, a[3]))
        elif a[0] == "posq":            # ["posq", text]: positional argument written "text" (a str; shown as WEIRD on both sides)
            es.append((None, WEIRD))
        elif a[0] == "kwv":             # ["kwv", key, name, v]: keyword written key=name
            es.append((a[1], a[3]))
        else:
            raise ValueError(a)
    return es


def written_flags(sig, call):
    return [a[1] for a in call if a[0] == "flag"]


def expected_flags(sig, call):
    """the flags the node must report: exactly the declared flags written as bare words (sorted list of those that are on)"""
    return sorted(set(written_flags(sig, call)))


def has_nonstr(call):
    return any(isinstance(k, NonStr) for k, _ in entries_of(call))


def is_special(k):
    return isinstance(k, NonStr) or (not k.isidentifier()) or keyword.iskeyword(k)


def pos_after_kw(es):
    seen = False
    for k, _ in es:
        if k is None and seen:
            return True
        if k is not None:
            seen = True
    return False


# ----------------------------------------------------------------------------------------------
# observation -> canonical python value -> Coq term
# ----------------------------------------------------------------------------------------------
def canon_val(v, selfobj, ctxobj):
    if v is selfobj:
        return SV
    if v is ctxobj:
        return CV
    if isinstance(v, int) and not isinstance(v, bool) and 0 <= v < 900000:
        return v
    return WEIRD


def canon_locals(sig, loc, selfobj, ctxobj):
    """locals() of the probe -> ("ok", [(name, val)..] in signature order, va list|None, kw sorted list|None)"""
    order = sig["names"] + param_names(sig)
    # signature order in the model: s_po ++ s_pk ++ s_ko  (lead parameters first in either case)
    vals = [(n, canon_val(loc[n], selfobj, ctxobj)) for n in order]
    va = None if not sig["va"] else [canon_val(v, selfobj, ctxobj) for v in loc[sig["va"]]]
    kw = None if not sig["vk"] else sorted((k, canon_val(v, selfobj, ctxobj)) for k, v in loc[sig["vk"]].items())
    return ("ok", vals, va, kw)


# ----------------------------------------------------------------------------------------------
# the two real executions
# ----------------------------------------------------------------------------------------------
class _S:      # stand-ins for self / context in the plain Python call
    pass


SELF_OBJ, CTX_OBJ = _S(), _S()
_expr_cache = {}


def run_python(fn, out, sig, call):
    """The equivalent Python call render(self, context, <arguments in order>): a keyword is written **{k: v} (the only spelling
    that exists for non-identifier keys; binding is the same as k=v), a spread is written *A<i> resp. **A<i> with the very kind
    of object the tag receives (Python accepts any iterable after * and any Mapping after **).  When, after flattening, a positional
    argument follows a keyword one, the flattened spelling is used (so that the expected outcome is SyntaxError, see assumptions)."""
    wf = written_flags(sig, call)
    if len(wf) != len(set(wf)):
        return ("err", "TemplateSyntaxError")      # computed expectation: a flag written twice is refused when the template is parsed
    es = entries_of(call)
    env = {"f": fn, "S": SELF_OBJ, "X": CTX_OBJ}
    seen_kw = star_after_kw = False
    for a in call:
        if a[0] in ("kw", "sd", "kwv"):
            seen_kw = True
        elif a[0] == "sl" and seen_kw:
            star_after_kw = True      # `f(**{..}, *xs)` is not even valid syntax; an EMPTY list spread there contributes nothing
    if pos_after_kw(es) or star_after_kw:
        expr = "f(S, X%s)" % "".join(", %d" % v if k is None else ", **{%r: %d}" % (k, v) for k, v in es)
    else:
        parts = []
        for i, a in enumerate(call):
            if a[0] == "pos":
                parts.append(", %d" % a[1])
            elif a[0] == "kw":
                parts.append(", **{%r: %d}" % (a[1], a[2]))
            elif a[0] == "flag":
                pass
            elif a[0] in ("var", "varf", "posq"):
                parts.append(", %d" % entries_of([a])[0][1])
            elif a[0] == "kwv":
                parts.append(", **{%r: %d}" % (a[1], a[3]))
            else:
                env["A%d" % i] = spread_value(a)
                parts.append(", %sA%d" % ("*" if a[0] == "sl" else "**", i))
        expr = "f(S, X%s)" % "".join(parts)
    del out[:]
    try:
        code = _expr_cache.get(expr)
        if code is None:
            code = compile(expr, "<c11>", "eval")
            if len(_expr_cache) < 200000:
                _expr_cache[expr] = code
        eval(code, env)
    except Exception as e:  # noqa
        return ("err", type(e).__name__)
    return canon_locals(sig, out[0], SELF_OBJ, CTX_OBJ)


class Probe:
    """One registered probe tag for one signature."""
    counter = [0]

    VARIANTS = ("class", "decorator", "callable")

    def __init__(self, sig, variant="class"):
        from django_components import BaseNode, template_tag
        import django_components.templatetags.component_tags as ct
        self.sig, self.out, self.variant = sig, [], variant
        self.use_code = variant != "callable"       # which validation path the real tag takes
        Probe.counter[0] += 1
        self.tag = "c11p%d" % Probe.counter[0]
        self.lib = ct.register
        flags = sig.get("flags")
        if variant == "decorator":
            self.fn = make_fn(sig, self.out)
            template_tag(self.lib, tag=self.tag, allowed_flags=list(flags) if flags else None)(self.fn)
            self.cls = self.fn._node
        else:
            self.fn = make_fn(sig, self.out) if variant == "class" else make_callable_obj(sig, self.out)
            attrs = {"tag": self.tag, "render": self.fn}
            if flags:
                attrs["allowed_flags"] = list(flags)
            self.cls = type("C11Probe%d" % Probe.counter[0], (BaseNode,), attrs)
            self.cls.register(self.lib)

    def close(self):
        self.cls.unregister(self.lib)

    def run(self, call):
        from django.template import Context, Template
        parts, ctx = [], {}
        for i, a in enumerate(call):
            if a[0] == "pos":
                parts.append("%d" % a[1])
            elif a[0] == "kw":
                parts.append("%s=%d" % (a[1], a[2]))
            elif a[0] in ("sl", "sd"):
                name = spread_var(a, i)
                ctx[name] = spread_value(a)
                parts.append("..." + name)
            elif a[0] == "flag":
                parts.append(a[1])
            elif a[0] == "var":
                ctx[a[1]] = a[2]
                parts.append(a[1])
            elif a[0] == "varf":
                ctx[a[1]] = a[3]
                parts.append("%s|%s" % (a[1], a[2]))
            elif a[0] == "posq":
                parts.append('"%s"' % a[1])
            elif a[0] == "kwv":
                ctx[a[2]] = a[3]
                parts.append("%s=%s" % (a[1], a[2]))
            else:
                raise ValueError(a)
        src = "{% " + " ".join([self.tag] + parts) + " %}"
        self.last_flags = None
        kinds = [spread_kind(a) for a in call if a[0] in ("sl", "sd") and spread_kind(a) not in ("list", "dict")]
        if kinds:
            src += "   (spread values: %s)" % ", ".join(kinds)
        del self.out[:]
        context = Context(ctx)
        try:
            Template(src).render(context)
        except Exception as e:  # noqa
            return ("err", type(e).__name__), src
        loc = self.out[0]
        n0 = self.sig["names"][0]
        if isinstance(loc[n0], self.cls):
            self.last_flags = sorted(f for f, on in loc[n0].flags.items() if on)      # what the node reports
        return canon_locals(self.sig, loc, loc[n0] if isinstance(loc[n0], self.cls) else None, context), src


# ----------------------------------------------------------------------------------------------
# direct oracle + trigger classes
# ----------------------------------------------------------------------------------------------
def classify(sig, call, variant=None):
    es = entries_of(call)
    if sig.get("inner"):
        return T_WRAPPED_CALLABLE if variant == "callable" else T_DECORATED
    if sig.get("flags") and any(a[0] in ("flag", "var", "varf", "posq", "kwv") or (a[0] in ("sl", "sd") and len(a) > 3) for a in call):
        return T_FLAGS
    if any(isinstance(k, NonStr) for k, _ in es):
        return T_NONSTR
    npos = sum(1 for k, _ in es if k is None)
    keys = [k for k, _ in es if k is not None]
    if sig["vk"] and any(k in [n for n, _ in sig["po"]][:npos] for k in keys):
        return T_POSONLY_KW
    sp = [k for k in keys if is_special(k)]
    if len(sp) != len(set(sp)):
        return T_DUP_SPECIAL
    if any(d is not None for _, d in sig["po"][npos:]):
        return T_POSONLY_DEFAULT
    if any(a[0] in ("sl", "sd") and spread_kind(a) not in ("list", "dict") for a in call):
        return T_SPREAD_KIND
    return T_OTHER


def oracle(sig, call, py, tag):
    """None if the property holds on this case, else a description."""
    if py[0] == "ok":
        if tag[0] != "ok":
            return "Python accepts the call, the tag raises %s" % tag[1]
        if tag != py:
            return "the tag calls render() with other bindings than the Python call"
        return None
    if py[1] == "TemplateSyntaxError":      # computed expectation (a flag written twice)
        return None if tag == py else "a flag is written twice, the tag %s instead of raising TemplateSyntaxError" % (
            "accepts" if tag[0] == "ok" else "raises " + tag[1])
    if tag[0] == "ok":
        return "Python rejects the call (%s), the tag accepts it" % py[1]
    if tag[1] not in ("TypeError", "SyntaxError"):
        return "the tag raises %s instead of TypeError/SyntaxError" % tag[1]
    if tag[1] == "SyntaxError" and not pos_after_kw(entries_of(call)):
        return "the tag raises SyntaxError although no positional argument follows a keyword one"
    return None


def nontrivial(sig, call, py):
    es = entries_of(call)
    keys = [k for k, _ in es if k is not None]
    names = param_names(sig)
    if len(keys) != len(set(keys)) or any(k not in names for k in keys):
        return True
    if py[0] == "ok":
        d = dict(sig["po"] + sig["pk"] + sig["ko"])
        given = dict(py[1])
        return any(d[n] is not None and given[n] == d[n] for n in names)
    return False


# ----------------------------------------------------------------------------------------------
# generators
# ----------------------------------------------------------------------------------------------
PNAMES = ["a", "b", "c", "d", "e"]
# other name pools for the parameters: Python's SOFT keywords (type, match, case, _) are ordinary identifiers - legal parameter
# names and legal `key=value` keys; and `self` / `context` as names of LATER parameters (the first two are then called node, ctx)
SOFT_POOL = ["type", "match", "case", "_", "e"]
SELFCTX_POOL = ["self", "context", "type", "d", "e"]


def rename_sig(sig, pool, lead_names=None):
    m = dict(zip(PNAMES, pool))
    out = dict(sig, po=[[m.get(n, n), d] for n, d in sig["po"]], pk=[[m.get(n, n), d] for n, d in sig["pk"]], ko=[[m.get(n, n), d] for n, d in sig["ko"]])
    if lead_names:
        out["names"] = list(lead_names)
    return out


# ---- tags that declare flags: the arguments may be WRITTEN as words, and a word the tag declares is a flag only when it is bare ----
FLAG_SETS = [["required", "default"], ["only"], ["required"]]
FLAG_POOL = ["required", "only", "default", "d", "e"]      # parameters named like flags (then `required=1` is a keyword, `required` a flag)
VAR_VALUE = {"required": 51, "default": 52, "only": 53, "x": 54}
FILTERS = ["add:0", "default:0"]                            # value-preserving for the numbers used here


def flag_alphabet(sig):
    fl = sig["flags"]
    names = param_names(sig)
    k0 = names[0] if names else "u"
    al = [("pos",), ("kw", k0)] + [("flag", f) for f in fl]
    al += [("varf", f, FILTERS[j % 2]) for j, f in enumerate(fl)]
    al += [("posq", fl[0]), ("kwv", k0, fl[-1]), ("slv", fl[0]), ("sdv", fl[-1]), ("var", "x")]
    return al


def concretise_flagged(sig, syms):
    """like concretise, plus the written forms; returns None when a variable would need two values"""
    call = []
    for i, s in enumerate(syms):
        if s[0] == "flag":
            call.append(["flag", s[1]])
        elif s[0] == "var":
            call.append(["var", s[1], VAR_VALUE[s[1]]])
        elif s[0] == "varf":
            call.append(["varf", s[1], s[2], VAR_VALUE[s[1]]])
        elif s[0] == "posq":
            call.append(["posq", s[1]])
        elif s[0] == "kwv":
            call.append(["kwv", s[1], s[2], VAR_VALUE[s[2]]])
        elif s[0] == "slv":
            call.append(["sl", [100 + 10 * i, 101 + 10 * i], next_kind(SEQ_KINDS), s[1]])
        elif s[0] == "sdv":
            call.append(["sd", [["u", 100 + 10 * i]], next_kind(MAP_KINDS), s[1]])
        else:
            call.append(concretise(sig, [("pos",)] * i + [s])[-1])      # same values as the plain generator gives at position i
    return call if consistent(call) else None


def flagged_calls(sig, maxlen):
    al = flag_alphabet(sig)
    for L in range(1, maxlen + 1):
        for syms in itertools.product(al, repeat=L):
            if any(s[0] not in ("pos", "kw") for s in syms):      # the plain ones are covered on tags without flags
                c = concretise_flagged(sig, syms)
                if c is not None:
                    yield c


def random_flagged_call(rng, sig, maxlen=5):
    al = flag_alphabet(sig) + [s for s in alphabet(sig, rich=True) if s[0] in ("kw", "sl", "sd")]
    for _ in range(20):
        syms = rng.choices(al, k=rng.randint(1, maxlen))
        if rng.random() < 0.6:
            syms.sort(key=lambda s: 0 if s[0] in ("pos", "sl", "slv", "var", "varf", "posq", "flag") else 1)
        c = concretise_flagged(sig, syms)
        if c is not None:
            return c
    return [["flag", sig["flags"][0]]]


INNER_KINDS = ["inject", "rename", "defaults", "generic", "specific"]


def with_inner(sig, kind):
    """sig + the signature of the function it is a functools.wraps-style wrapper of (what a decorator typically changes)"""
    if kind == "inject":        # the wrapper injects a leading positional argument
        inner = dict(sig, po=[["inj", None]] + sig["po"]) if sig["po"] else dict(sig, pk=[["inj", None]] + sig["pk"])
    elif kind == "rename":      # the wrapper translates keyword names (colour -> color)
        inner = dict(sig, po=[[n + "_x", d] for n, d in sig["po"]], pk=[[n + "_x", d] for n, d in sig["pk"]], ko=[[n + "_x", d] for n, d in sig["ko"]])
    elif kind == "defaults":    # the wrapper supplies the defaults itself / the inner function has other ones
        inner = dict(sig, po=[[n, None] for n, _ in sig["po"]], pk=[[n, None] for n, _ in sig["pk"]],
                     ko=[[n, 77 if d is None else None] for n, d in sig["ko"]])
    elif kind == "generic":     # a specific adapter around a generic function
        inner = mk_sig(va="args", vk="kwargs", names=sig["names"])
    else:                       # a generic ( *args, **kwargs pass-through ) or unrelated wrapper around a specific function
        inner = mk_sig(pk=[["name", None], ["greeting", 7]], names=sig["names"])
    inner = {k: v for k, v in inner.items() if k not in ("inner", "lead_defaults")}
    return dict(sig, inner=inner)


def decorated_calls(sig):
    """calls for a decorated probe: everything up to length 1, the structured longer ones, and the inner function's names as keys"""
    inner = sig["inner"]
    for c in exhaustive_calls(sig, 1):
        yield c
    for c in structured_calls(sig):
        yield c
    for n in param_names(inner)[:2] + [x for x in (inner["va"], inner["vk"]) if x]:
        if n not in param_names(sig):
            yield [["kw", n, 11]]
            yield [["pos", 11], ["kw", n, 12]]
    yield [["pos", 11], ["pos", 12]]
    yield [["pos", 11], ["kw", "u", 12]]


def vary_names(sig, idx):
    """deterministic rotation of the name pools over the enumerated shapes"""
    if idx % 3 == 1:
        return rename_sig(sig, SOFT_POOL)
    if idx % 11 == 5:
        return rename_sig(sig, SELFCTX_POOL, ["node", "ctx"])
    if idx % 5 == 0:
        return dict(sig, names=["node", "context"])
    return sig


def all_sigs(n):
    """Every signature shape with exactly n named parameters (beyond self, context)."""
    out = []
    for npo in range(n + 1):
        for npk in range(n - npo + 1):
            nko = n - npo - npk
            names = PNAMES[:n]
            npos = npo + npk
            for ndef in range(npos + 1):
                for komask in range(2 ** nko):
                    for va in (None, "ar"):
                        for vk in (None, "kw"):
                            pos = [[names[i], (901 + i) if i >= npos - ndef else None] for i in range(npos)]
                            ko = [[names[npos + j], (901 + npos + j) if (komask >> j) & 1 else None] for j in range(nko)]
                            leads = [2] if npo else [0, 2]
                            for lead in leads:
                                out.append(mk_sig(po=pos[:npo], pk=pos[npo:], va=va, ko=ko, vk=vk, lead=lead))
    return out


def alphabet(sig, rich=False, nonstr=False):
    names = param_names(sig)
    al = [("pos",)] + [("kw", n) for n in names] + [("kw", "u"), ("kw", "data-x"), ("kw", "class"), ("sl", 2), ("sd", 0)]
    if rich:
        al += [("kw", "self"), ("kw", "context"), ("kw", sig["names"][0]), ("sl", 0), ("sl", 1), ("sd", 1), ("sd", 2), ("kw", "@y"),
               ("kw", "for"), ("kw", "x1"), ("kw", "_"), ("kw", "type"), ("kw", "match"), ("kw", "case"), ("kw", "None"), ("kw", "True")]
        if sig["va"]:
            al.append(("kw", sig["va"]))
        if sig["vk"]:
            al.append(("kw", sig["vk"]))
        if nonstr:
            al += [("sd", 3), ("sd", 4), ("sd", 5)]
    return al


KIND_CTR = [0]      # every generated spread takes the next container kind (reset at the start of run(): deterministic)


def next_kind(kinds):
    KIND_CTR[0] += 1
    return kinds[KIND_CTR[0] % len(kinds)]


def concretise(sig, symbols, kinds=None):
    """kinds: None = rotate through all container kinds; else a dict {"sl": kind, "sd": kind}"""
    names = param_names(sig)
    call = []
    for i, s in enumerate(symbols):
        v = 11 + i
        if s[0] == "pos":
            call.append(["pos", v])
        elif s[0] == "kw":
            call.append(["kw", s[1], v])
        elif s[0] == "sl":
            call.append(["sl", [100 + 10 * i + j for j in range(s[1])], kinds["sl"] if kinds else next_kind(SEQ_KINDS)])
        else:
            k0 = names[0] if names else "u"
            kvs = [[[k0, 100 + 10 * i], ["data-x", 101 + 10 * i]], [[names[-1] if names else "v", 100 + 10 * i]],
                   [["class", 100 + 10 * i], ["u", 101 + 10 * i]],
                   [[None, 100 + 10 * i]], [["u", 100 + 10 * i], [7, 101 + 10 * i]], [[["t"], 100 + 10 * i]]][s[1]]
            call.append(["sd", kvs, kinds["sd"] if kinds else next_kind(MAP_KINDS)])
    return call


def kind_calls(sig):
    """every container kind in every spread position of short calls: [spread], [positional, spread], [spread, keyword], [spread, spread]"""
    names = param_names(sig)
    k0 = ("kw", names[0] if names else "u")
    shapes = [[("sd", 0)], [("sd", 1)], [("sd", 2)], [("sl", 2)], [("sl", 1)], [("pos",), ("sd", 0)], [("pos",), ("sl", 2)],
              [("sl", 1), ("sd", 1)], [("sd", 1), k0], [("sl", 2), k0], [("sd", 2), ("sd", 1)], [("sl", 1), ("sl", 2)]]
    for mk, sk in zip(MAP_KINDS[1:], SEQ_KINDS[1:]):
        for syms in shapes:
            yield concretise(sig, syms, {"sl": sk, "sd": mk})


def exhaustive_calls(sig, maxlen):
    al = alphabet(sig)
    for L in range(maxlen + 1):
        for syms in itertools.product(al, repeat=L):
            yield concretise(sig, syms)


def random_sig(rng, maxn=5):
    n = rng.randint(0, maxn)
    cand = all_sigs(n) if n <= 3 else None
    if cand:
        s = rng.choice(cand)
    else:
        npo = rng.randint(0, n)
        npk = rng.randint(0, n - npo)
        nko = n - npo - npk
        npos = npo + npk
        ndef = rng.randint(0, npos)
        names = PNAMES[:n]
        pos = [[names[i], (901 + i) if i >= npos - ndef else None] for i in range(npos)]
        ko = [[names[npos + j], (901 + npos + j) if rng.random() < 0.5 else None] for j in range(nko)]
        s = mk_sig(po=pos[:npo], pk=pos[npo:], va=rng.choice([None, "ar"]), ko=ko, vk=rng.choice([None, "kw"]),
                   lead=2 if npo else rng.choice([0, 1, 2]))
    r = rng.random()
    if r < 0.3:
        s = dict(s, names=["node", "context"])
    elif r < 0.5:
        s = rename_sig(s, SOFT_POOL)
    elif r < 0.6:
        s = rename_sig(s, SELFCTX_POOL, ["node", "ctx"])
    if rng.random() < 0.06 and all(d is not None for _, d in s["po"] + s["pk"]):
        s = dict(s, lead_defaults=rng.choice([[None, 801], [800, 801]]))     # defaults reaching back into self / context
    if rng.random() < 0.15:
        s = with_inner(s, rng.choice(INNER_KINDS))                            # render() is a functools.wraps-style wrapper
    elif rng.random() < 0.15:
        s = dict(rename_sig(s, FLAG_POOL) if rng.random() < 0.4 else s, flags=rng.choice(FLAG_SETS))   # the tag declares flags
    return s


def nonstr_calls(sig, maxlen):
    """every sequence over {positional, first parameter name, non-identifier key, {None: v}, {"u": v, 7: w}, {("t",): v}}"""
    names = param_names(sig)
    al = [("pos",), ("kw", names[0] if names else "u"), ("kw", "data-x"), ("sd", 3), ("sd", 4), ("sd", 5)]
    for L in range(1, maxlen + 1):
        for syms in itertools.product(al, repeat=L):
            if any(s[0] == "sd" for s in syms):     # all of them are non-str-key spreads here
                yield concretise(sig, syms)


def structured_calls(sig):
    """Mostly valid, longer calls: k positional arguments (0 .. all positional parameters + 2), then keywords for every subset of
    the parameters that can still be given by keyword, then optionally an unknown key (or the name of *args / **kwargs / self)."""
    pos = sig["po"] + sig["pk"]
    for k in range(len(pos) + 3):
        rest = [n for n, _ in sig["pk"][max(0, k - len(sig["po"])):]] + [n for n, _ in sig["ko"]]
        for mask in range(2 ** len(rest)):
            kws = [n for j, n in enumerate(rest) if (mask >> j) & 1]
            extras = [(), ("u",)]
            if mask == 0:                # the names of *args / **kwargs themselves, and of self, used as keys
                extras += [(x,) for x in (sig["va"], sig["vk"], sig["names"][0]) if x]
            for extra in extras:
                call = [["pos", 11 + i] for i in range(k)] + [["kw", n, 31 + i] for i, n in enumerate(kws + list(extra))]
                if len(call) > 2:        # the shorter ones are in the exhaustive part
                    yield call


def random_call(rng, sig, maxlen=5, nonstr=True):
    al = alphabet(sig, rich=True, nonstr=nonstr)
    w = [6 if s[0] == "pos" else 3 if (s[0] == "kw" and s[1] in param_names(sig)) else 1 for s in al]
    L = rng.randint(0, maxlen)
    syms = rng.choices(al, w, k=L)
    if rng.random() < 0.6:       # mostly well-ordered: positional first
        syms.sort(key=lambda s: 0 if s[0] in ("pos", "sl") else 1)
    return concretise(sig, syms)


# ----------------------------------------------------------------------------------------------
CORPUS = [
    # fixed in 3c868d2: default of a positional-only parameter was passed by keyword
    {"name": "posonly-default", "sig": mk_sig(po=[["a", 1]]), "call": []},
    {"name": "posonly-default-varkw", "sig": mk_sig(po=[["a", 1]], vk="kwargs"), "call": []},
    {"name": "posonly-default-second", "sig": mk_sig(po=[["a", None], ["b", 2]], vk="kwargs"), "call": [["pos", 11]]},
]


def load_corpus():
    cases = list(CORPUS)
    for p in sorted(glob.glob(os.path.join(C.VERIF, "corpus", "C11", "*.json"))):
        d = json.load(open(p))
        d.setdefault("name", os.path.basename(p))
        cases.append(d)
    return cases


def exec_job(job):
    """(worker process) one probe tag for one signature: every call through the REAL tag and through the REAL Python call."""
    sig, calls, kind, idx = job
    probe = Probe(sig, Probe.VARIANTS[idx % 3])
    pyout, out = [], []
    pyfn = make_fn(sig, pyout)
    try:
        for call in calls:
            py = run_python(pyfn, pyout, sig, call)
            tag, src = probe.run(call)
            out.append((py, tag, src, probe.last_flags))
    finally:
        probe.close()
    return probe.variant, probe.use_code, out


def account(chk, sig, call, kind, variant, use_code, py, tag, src, terms, meta, flags_obs=None):
    """(parent) direct oracle, counting, and the case as a Coq term."""
    why = oracle(sig, call, py, tag)
    if why is None and tag[0] == "ok" and flags_obs is not None and flags_obs != expected_flags(sig, call):
        why = "node.flags reports %r, written as bare words: %r" % (flags_obs, expected_flags(sig, call))
    nt = nontrivial(sig, call, py)
    chk.count((sig_src(sig), tuple(map(repr, call))), nt, kind=kind,
              sample={"render": render_line(sig), "tag": src, "python": py, "tag_result": tag} if (nt and kind.startswith("random") and py[0] == "ok") else None)
    if why:
        chk.fail(classify(sig, call, variant), why, {"kind": "tag", "sig": sig, "call": call, "template": src, "variant": variant,
                                                     "render": render_line(sig), "python": py, "tag": tag})
    if sig.get("flags") is not None:       # the flag family goes through the model of the parse-time step as well (Bind/Flags.v)
        FTERMS.append(LIT.flagged(use_code, sig, call, py, tag, flags_obs))
        FMETA.append((sig, call, py, tag, src + " [render() built as: %s]" % variant, flags_obs))
        return
    terms.append(LIT.both(use_code, sig, call, py, tag))
    meta.append((sig, call, py, tag, src + " [render() built as: %s]" % variant))


FTERMS, FMETA = [], []


def run_jobs(chk, jobs, terms, meta):
    """jobs: [(sig, [call..], kind, idx)] - executed by a pool of forked workers, accounted in order (deterministic)."""
    ctx = multiprocessing.get_context("fork")
    with ctx.Pool(max(1, min(C.NCPU, 16))) as pool:
        for (sig, calls, kind, idx), (variant, use_code, res) in zip(jobs, pool.imap(exec_job, jobs, chunksize=4)):
            if len(res) != len(calls):
                raise C.HarnessError("worker returned %d results for %d calls" % (len(res), len(calls)))
            for call, (py, tag, src, flags_obs) in zip(calls, res):
                account(chk, sig, call, kind, variant, use_code, py, tag, src, terms, meta, flags_obs)


# ----------------------------------------------------------------------------------------------
# (iii) each validation path called directly, followed by the real call of render() with what it returned
#       (behaviour only: what a private validator returns is compared through the call it leads to)
# ----------------------------------------------------------------------------------------------
def run_validator(use_code, fn, vsig, params, extra, stub, stub_out, sig, defaults=None):
    """fn/vsig: what is validated against.  stub: a probe with the same signature that is really called."""
    from django_components.util.template_tag import TagParam, _validate_params_with_code, validate_params
    tps = [TagParam(key=k, value=v) for k, v in params]
    try:
        if use_code:
            args, kwargs = _validate_params_with_code(fn, tps, dict(extra))
        else:
            args, kwargs = validate_params(None, vsig, "c11", tps, dict(extra))
        if defaults is not None:     # built-in render(): its default objects -> the numbers the stub / model use
            kwargs = {k: (defaults["__code__"][k] if k in defaults and v is defaults[k] else v) for k, v in kwargs.items()}
        del stub_out[:]
        stub(SELF_OBJ, CTX_OBJ, *args, **kwargs)
    except Exception as e:  # noqa
        return ("err", type(e).__name__)
    return canon_locals(sig, stub_out[0], SELF_OBJ, CTX_OBJ)


def validator_cases(chk, sig, fn, vsig, n, rng, terms, meta, kind, stub, stub_out, defaults=None):
    for _ in range(n):
        call = random_call(rng, sig, 5, nonstr=False)     # the validators receive TagParams, keys are str there
        es = entries_of(call)
        if pos_after_kw(es):
            es = [e for e in es if e[0] is None] + [e for e in es if e[0] is not None]
        params = [(k, v) for k, v in es if k is None or not is_special(k)]
        extra = []
        for k, v in es:
            if k is not None and is_special(k) and k not in dict(extra):
                extra.append((k, v))
        equiv_call = [["pos", v] if k is None else ["kw", k, v] for k, v in params] + [["kw", k, v] for k, v in extra]
        py = run_python(stub, stub_out, sig, equiv_call)
        for use_code in (True, False):
            r = run_validator(use_code, fn, vsig, params, extra, stub, stub_out, sig, defaults)
            chk.count(("v", use_code, sig_src(sig), repr(params), repr(extra)), nontrivial(sig, equiv_call, py), kind=kind)
            why = oracle(sig, equiv_call, py, r)
            if why:
                chk.fail(classify(sig, equiv_call), why + " (%s path + call)" % ("fast" if use_code else "fallback"),
                         {"kind": "validator", "use_code": use_code, "sig": sig, "params": params, "extra": extra,
                          "render": sig_src(sig).split("\n")[0], "python": py, "validated_call": r})
            terms.append("Cv %s %s %s %s %s" % (C.cbool(use_code), LIT.sig(sig),
                                                LIT.lst(["KO %s %d" % (LIT.opt(k, LIT.s), v) for k, v in params]),
                                                LIT.kvs(extra), LIT.obs(r, sig)))
            meta.append((use_code, sig, params, extra, r))


def builtin_nodes():
    from django_components.attributes import HtmlAttrsNode
    from django_components.component import ComponentNode
    from django_components.dependencies import ComponentCssDependenciesNode, ComponentJsDependenciesNode
    from django_components.provide import ProvideNode
    from django_components.slots import FillNode, SlotNode
    return [HtmlAttrsNode, ComponentNode, ComponentCssDependenciesNode, ComponentJsDependenciesNode, ProvideNode, FillNode, SlotNode]


# ----------------------------------------------------------------------------------------------
def run(tier, seed):
    import djsetup
    djsetup.setup()
    global LIT
    LIT = Lit()
    chk = C.Check("C11", tier, seed)
    chk.prove()
    thorough = tier == "thorough"
    rng = chk.rng
    terms, meta = [], []
    phases, t_last = {}, [time.time()]

    def lap(name):
        phases[name] = round(time.time() - t_last[0], 1)
        t_last[0] = time.time()
    phases["prove"] = (chk.proof or {}).get("wall_s")

    # ---- 0. corpus: witnesses of fixed / reported defects, direct oracle first ----
    KIND_CTR[0] = 0
    del FTERMS[:], FMETA[:]
    jobs = []
    for i, c in enumerate(load_corpus()):
        for v in range(3):      # BaseNode subclass, @template_tag, callable object (fallback path)
            jobs.append((c["sig"], [c["call"]], "corpus", v))

    # ---- 1. exhaustive: every signature shape x every argument sequence (shortest first) ----
    plan = [(0, 4), (1, 4 if thorough else 3), (2, 3 if thorough else 2), (3, 3 if thorough else 2), (4, 2 if thorough else 1)]
    if thorough:
        plan.append((5, 1))
    idx = 0
    for n, maxlen in plan:
        for sig in all_sigs(n):
            idx += 1
            sig = vary_names(sig, idx)
            jobs.append((sig, list(exhaustive_calls(sig, maxlen)), "exh-n%d-len<=%d" % (n, maxlen), idx))

    # ---- 1b. spread mappings with a key that is not a str (None / a tuple): all shapes n<=2 x sequences<=2 around them ----
    for n in (0, 1, 2):
        for sig in all_sigs(n):
            idx += 1
            jobs.append((sig, list(nonstr_calls(sig, 2)), "exh-nonstr-key-n%d-len<=2" % n, idx))

    # ---- 1b'. every container kind (Mapping that is no dict, iterable that is no list) in every spread position, all shapes n<=2 ----
    for n in (0, 1, 2):
        for sig in all_sigs(n):
            idx += 1
            jobs.append((sig, list(kind_calls(sig)), "exh-spread-kinds-n%d" % n, idx))

    # ---- 1b''. DECORATED render(): functools.wraps-style wrappers whose own signature (what the tag calls) differs from the wrapped
    #          function's; every shape n<=2 as wrapper signature, kinds of inner signature in rotation, all three ways of building the tag ----
    for n in (0, 1, 2):
        for sig in all_sigs(n):
            idx += 1
            dsig = with_inner(vary_names(sig, idx), INNER_KINDS[idx % len(INNER_KINDS)])
            calls = list(decorated_calls(dsig))
            for v in range(3):
                jobs.append((dsig, calls, "decorated-%s-n%d" % (Probe.VARIANTS[v], n), v))

    # ---- 1b+. tags that DECLARE FLAGS: every shape n<=2 x every sequence <= 2 over {number, keyword, each flag as bare word, each flag
    #           name as filtered variable, as quoted string, as keyword value, as spread variable, another variable} ----
    for n in (0, 1, 2):
        for sig in all_sigs(n):
            idx += 1
            fsig = dict(rename_sig(sig, FLAG_POOL) if idx % 4 == 0 else vary_names(sig, idx), flags=FLAG_SETS[idx % len(FLAG_SETS)])
            jobs.append((fsig, list(flagged_calls(fsig, 2)), "flags-n%d-len<=2" % n, idx))

    # ---- 1c. structured, mostly valid longer calls on every shape n<=3 (n<=4 thorough), fast path and fallback ----
    for n in range(1, 5 if thorough else 4):
        for sig in all_sigs(n):
            idx += 1
            sig = vary_names(sig, idx)
            calls = list(structured_calls(sig))
            for v in (0, 2):        # BaseNode subclass (fast path), callable object (fallback)
                jobs.append((sig, calls, "structured-n%d" % n, v))

    # ---- 2. random: up to 5 parameters, up to 5 arguments, richer key alphabet ----
    for _ in range(6000 if thorough else 700):
        sig = random_sig(rng, 5)
        idx += 1
        if sig.get("flags"):
            jobs.append((sig, [random_flagged_call(rng, sig, 5) for _ in range(12)], "random-flags", idx))
        else:
            jobs.append((sig, [random_call(rng, sig, 5) for _ in range(12)], "random", idx))
    lap("generate")
    run_jobs(chk, jobs, terms, meta)

    lap("run-tags+python")
    bad = C.coq_eval_cases("C11", "both", IMPORTS, "both_case", CHECK_BOTH, terms, shard=4000, extra_defs=LIT.header())
    if bad:
        sub = bad[:40]
        bad_py = set(C.coq_eval_cases("C11", "py", IMPORTS, "pybind_case", "check_pybind",
                                      ["Cp %s %s %s" % (LIT.sig(meta[i][0]), LIT.call(meta[i][1]), LIT.obs(meta[i][2])) for i in sub],
                                      extra_defs=LIT.header()))
        for j, i in enumerate(sub):
            sig, call, py, tag, src = meta[i]
            which = "py_bind (S-model) != real Python call" if j in bad_py else "impl_bind (M-model) != tag"
            chk.disagree(which, {"kind": "tag", "sig": sig, "call": call, "template": src, "render": render_line(sig),
                                 "python": py, "tag": tag})

    # the flag family: model of _extract_flags + binding (Bind/Flags.v) against the tag, the computed expectation and node.flags
    for i in C.coq_eval_cases("C11", "flag", IMPORTS, "flag_case", "check_flagged", FTERMS, shard=4000, extra_defs=LIT.header())[:20]:
        sig, call, py, tag, src, fobs = FMETA[i]
        chk.disagree("flag extraction + binding: model (Bind/Flags.v) != tag / expectation",
                     {"kind": "tag", "sig": sig, "call": call, "template": src, "render": render_line(sig), "python": py, "tag": tag, "flags": fobs})
    lap("coq-eval-tags")
    # ---- 3. validators called directly (fast path and fallback), incl. the built-in tags' render() ----
    vterms, vmeta = [], []
    sigs = [s for n in range(0, 4) for s in all_sigs(n)]
    for k, sig in enumerate(sigs):
        out = []
        fn = make_fn(sig, out)
        vsig = inspect.signature(fn)
        vsig = vsig.replace(parameters=list(vsig.parameters.values())[2:])
        validator_cases(chk, sig, fn, vsig, 40 if thorough else 6, rng, vterms, vmeta, "validators", fn, out)
    for cls in builtin_nodes():
        fn = getattr(cls.render, "__wrapped__", None)
        if fn is None:
            raise C.HarnessError("cannot reach the original render() of %s" % cls.__name__)
        sig, dflt = sig_from_function(fn)
        dflt = dict(dflt)
        dflt["__code__"] = {n: d for n, d in sig["po"] + sig["pk"] + sig["ko"] if d is not None}
        out = []
        stub = make_fn(sig, out)
        validator_cases(chk, sig, fn, cls._signature, 400 if thorough else 120, rng, vterms, vmeta, "validators-builtin-" + cls.tag,
                        stub, out, defaults=dflt)
    lap("run-validators")
    bad = C.coq_eval_cases("C11", "val", IMPORTS, "validate_case", CHECK_VALIDATE, vterms, shard=4000, extra_defs=LIT.header())
    for i in bad[:20]:
        use_code, sig, params, extra, r = vmeta[i]
        chk.disagree("model != %s followed by the call of render()" % ("_validate_params_with_code" if use_code else "_validate_params_with_signature"),
                     {"kind": "validator", "use_code": use_code, "sig": sig, "params": params, "extra": extra, "impl": r})

    # ---- 4. the classification of keys the runnable model uses (py_special) against `not isidentifier() or iskeyword()`:
    #         hard keywords only - soft keywords (type, match, case, _) are ordinary identifiers ----
    words = sorted(set(keyword.kwlist) | set(getattr(keyword, "softkwlist", [])) |
                   {"a", "_", "__", "x1", "1x", "data-x", "", "self", "context", "Type", "class_", "_class", "@y", "a b", ":href", "a.b", "none", "true",
                    "print", "exec", "nonlocal_", "A9", "9", "-"})
    wterms = ["(%s, %s)" % (C.cstr(w), C.cbool(is_special(w))) for w in words]
    for w in words:
        chk.count(("special", w), False, kind="special-classification")
    for i in C.coq_eval_cases("C11", "spec", IMPORTS, "str * bool", "(fun x : str * bool => Bool.eqb (py_special (fst x)) (snd x))", wterms):
        chk.disagree("py_special (model) != `not key.isidentifier() or keyword.iskeyword(key)` (Python)", {"kind": "special", "key": words[i],
                                                                                                              "python": is_special(words[i])})
    lap("coq-eval-validators")
    chk.extra["phase_wall_s"] = phases
    chk.assumptions = [
        "spread arguments are compared after flattening (`...list` = its items as positional arguments, `...dict` = its items as keywords): "
        "a list spread placed after a keyword is an error like any positional-after-keyword (Python itself would accept f(a=1, *xs))",
        "keys are ASCII; keys containing ':' (aggregated into dicts by process_aggregate_kwargs before binding) and html_attrs' merging of "
        "repeated keys are outside this property; keys of a spread mapping that are not str (None, int, tuple) are inside: refused by both sides",
        "kwargs are compared as dictionaries (insertion order of **kwargs is not part of the claim)",
        "render() declares self and context explicitly as its first two positional parameters (BaseNode.render contract)",
    ]
    return chk.finish(
        rule="every render() signature shape with n named parameters (positional-only / positional-or-keyword / keyword-only, defaults as a suffix "
             "resp. any subset, with/without *args and **kwargs, self/context positional-only or not) x every argument sequence up to length L over "
             "{positional, each parameter name, unknown key, non-identifier key, reserved word, list spread, dict spread}, (n,L) in %s; all shapes n<=2 x "
             "sequences<=2 around spread mappings with a key None / 7 / ('t',); all shapes n<=3 (thorough 4) x structured longer calls (k positional arguments, "
             "then every subset of the remaining keyword-capable parameters, then optionally an unknown key or the name of *args/**kwargs/self), on the fast path "
             "and on the fallback; plus seeded random signatures up to 5 parameters x sequences up to 5 over a richer key alphabet (self/context/*args/**kwargs "
             "names, empty spreads, more reserved words, non-str mapping keys, defaults on self/context). The real tag is a probe returning locals(), built in turn "
             "as BaseNode subclass, via @template_tag (fast path) and with a callable object as render() (fallback path). "
             "Validators called directly (both paths) on all shapes n<=3 and on the render() of the 7 built-in tags. "
             "Non-trivial = a default is applied, or a duplicate / unknown / non-identifier key is present. Distinct = distinct (signature, call)." % (plan,),
        explanation="theorems of Props/C11.v re-checked by coqc; py_bind and impl_bind evaluated by vm_compute inside Coq on every case and compared with "
                    "a real Python call resp. the real tag; the direct oracle compares tag and Python call without the model.",
        extra_trusted=["modelled, not verified: CPython's argument binding (compared with real calls on every case), "
                       "str.isidentifier/keyword.iskeyword (ASCII model; the theorems hold for any classification), the tag parser (inputs go through it); "
                       "resolve_params is modelled as flattening of spreads + refusal of non-str mapping keys"])


def replay(path):
    import djsetup
    djsetup.setup()
    r = json.load(open(path))
    case = r.get("case", r)
    print(json.dumps(r, indent=1)[:3000])
    if case.get("kind", "tag") == "tag" and "sig" in case:
        sig, call = case["sig"], case["call"]
        out = []
        fn = make_fn(sig, out)
        py = run_python(fn, out, sig, call)
        rc = 0
        for via in Probe.VARIANTS:
            p = Probe(sig, via)
            try:
                tag, src = p.run(call)
            finally:
                p.close()
            why = oracle(sig, call, py, tag)
            print("render:  ", render_line(sig))
            print("template:", src, "(render() built as: %s)" % via)
            print("python:  ", py)
            print("tag:     ", tag)
            print("oracle:  ", why or "holds", "| class:", classify(sig, call, via))
            rc = rc or (1 if why else 0)
        return rc
    if case.get("kind") == "validator" and "sig" in case:
        sig = case["sig"]
        out = []
        fn = make_fn(sig, out)
        vsig = inspect.signature(fn)
        vsig = vsig.replace(parameters=list(vsig.parameters.values())[2:])
        params = [(k, v) for k, v in case["params"]]
        extra = [(k, v) for k, v in case["extra"]]
        equiv_call = [["pos", v] if k is None else ["kw", k, v] for k, v in params] + [["kw", k, v] for k, v in extra]
        py = run_python(fn, out, sig, equiv_call)
        rc = 0
        for use_code in (True, False):
            r = run_validator(use_code, fn, vsig, params, extra, fn, out, sig)
            why = oracle(sig, equiv_call, py, r)
            print("render:   ", sig_src(sig).split("\n")[0])
            print("validator:", "_validate_params_with_code" if use_code else "validate_params(func=None) -> _validate_params_with_signature",
                  "params=%r extra_kwargs=%r, then render(self, context, *args, **kwargs)" % (params, extra))
            print("python:   ", py)
            print("result:   ", r)
            print("oracle:   ", why or "holds", "| class:", classify(sig, equiv_call))
            rc = rc or (1 if why else 0)
        return rc
    return 0
