"""C16 - component assets = own class plus the bases selected by Media.extend.

Model: coq/Media/Model.v (+ Names.v)   Theorems: coq/Props/C16.v   Source anchors: harness/gen_c16.py -> coq/Gen/C16.v,
coq/Media/Anchors.v.
Correspondence: class hierarchies of 1-6 user classes (chains, multiple and diamond inheritance, plain mixins with Media and
with template/js/css members, inconsistent MROs, no / empty Media, every str / bytes / list / tuple / dict form of Media.js /
Media.css INCLUDING the empty ones, duplicate entries, extend True / False / list, Media files that exist beside the
component module, classes whose asset file is missing) x access histories of .media / .template / .js / .css / *_file on
classes and instances.  Every history runs on FRESH class objects (media_cache is keyed by class); the observed results are
compared with the model inside Coq (which receives the Media forms AS WRITTEN and normalises them itself), and independent
Python oracles check the statement directly.
"""
import itertools
import json
import os
import sys
import types
import warnings

import common as C
from common import cN, cnat, clist, copt, cbool

IMPORTS = "From DJC Require Import Lib.Base Media.Model."
CASE_TYPE = "list (cls * option rawmedia) * list access * list N * outcome"
CORPUS = os.path.join(C.VERIF, "corpus", "C16")
COMPS = os.path.join(C.WORK, "C16", "comps")

KEYS = ["js", "all", "print"]            # key 0 = js, key k>0 = css medium (key 1 = "all" = Model.css_all)
NBUILTIN = 3                             # table index 0 = object, 1 = typing.Generic, 2 = Component
REL_FILE = 1                             # file code that exists beside the module of "rel" classes
REL_OFF = 100                            # code of the component-relative form of a file
MISSING = 9                              # asset file code that does not exist (template_file / js_file / css_file)
EMPTY_PATH = 0                           # file member set to the empty string (only generated together with the inlined member)
PAIRS = ["template", "js", "css"]
T_FLATTEN = "c16-per-level-flattening-order"
T_RELPATH = "c16-media-before-resolve-relative-path"
T_EMPTY = "c16-empty-css-list"
T_MIXIN = "c16-plain-mixin-pair-ignored"


# ---------------------------------------------------------------------------------------------
# naming of codes
# ---------------------------------------------------------------------------------------------
def fname(code, key):
    ext = "js" if key == 0 else "css"
    if code >= REL_OFF:
        return "sub/f%d.%s" % (code - REL_OFF, ext)
    return "f%d.%s" % (code, ext)


def fcode(name):
    rel = name.startswith("sub/")
    n = int(name.split("/")[-1].split(".")[0][1:])
    return n + REL_OFF if rel else n


def vstr(code):                       # inline attribute values; code 0 is the empty string (not None!)
    return "" if code == 0 else "v%d" % code


def apath(pair, code):                # path of an asset file (exists in COMPS root unless code == MISSING); code 0 = ""
    if code == EMPTY_PATH:
        return ""
    return "%s%d.%s" % (pair[0], code, {"template": "html", "js": "js", "css": "css"}[pair])


def vcode(s):
    if s is None:
        return None
    if s == "":
        return 0
    if s.startswith("content-"):
        return 50 + PAIRS.index(s.split("-")[1]) * 10 + int(s.split("-")[2])
    if s.startswith("v"):
        return int(s[1:])
    # asset path
    return 80 + int(s.split(".")[0][1:])


def setup_files():
    os.makedirs(os.path.join(COMPS, "sub"), exist_ok=True)
    for ext in ("js", "css"):
        open(os.path.join(COMPS, "sub", "f%d.%s" % (REL_FILE, ext)), "w").close()
    for pair in PAIRS:
        for code in (1, 2):
            with open(os.path.join(COMPS, apath(pair, code)), "w") as f:
                f.write("content-%s-%d" % (pair, code))
    for name, file in (("verif_c16_rel", os.path.join(COMPS, "sub", "mod.py")), ("verif_c16_plain", None)):
        m = types.ModuleType(name)
        m.__file__ = file
        sys.modules[name] = m


# ---------------------------------------------------------------------------------------------
# a table = list of user class specs (index i <-> table index NBUILTIN + i)
#   spec = {"bases": [table indices], "comp": bool, "rel": bool,
#           "media": None | {"extend": True|False|[table indices], "files": {key: [codes]},
#                            optional "raw": {"js": [kind, codes], "css": [kind, payload]}   (the forms as written)
#                            optional "force": {"js": kind, "css": kind}},
#           "pairs": {pair: (inline_code|None, file_code|None)}}
#   raw kinds: "absent" | "none" | "str" | "bytes" | "list" | "tuple" (payload = codes; empty codes with str/bytes = "" / b"")
#              css also "dict" (payload = {key: [vkind, codes]}, vkind in str|bytes|list|tuple)
# ---------------------------------------------------------------------------------------------
def choose_raw(spec, form):
    """The way the Media of this class is WRITTEN for this run (deterministic in (spec, form))."""
    m = spec["media"]
    if "raw" in m:
        return {"js": list(m["raw"]["js"]), "css": list(m["raw"]["css"])}
    files, comp, force = m["files"], spec["comp"], m.get("force", {})
    # js
    if 0 not in files:
        js = ["none" if (comp and form % 5 == 4) else "absent", []]
    else:
        l = list(files[0])
        if "js" in force:
            kind = force["js"]
        elif not comp:
            kind = "list"
        elif len(l) == 1 and form % 2 == 1:
            kind = "str" if form % 4 == 1 else "bytes"
        elif len(l) == 0:
            kind = ["list", "str", "tuple", "bytes", "list"][form % 5]
        else:
            kind = "tuple" if form % 7 == 3 else "list"
        js = [kind, l]
    # css
    ks = sorted(k for k in files if k > 0)
    if not ks:
        css = ["dict", {}] if form % 5 == 1 else ["none" if (comp and form % 5 == 3) else "absent", []]
    else:
        only_all = ks == [1]
        l = list(files[1]) if only_all else None
        if "css" in force:
            kind = force["css"]
        elif not comp:
            kind = "dict"
        elif only_all and form % 3 == 1:
            if len(l) == 1 and form % 2 == 1:
                kind = "str" if form % 4 == 1 else "bytes"
            elif len(l) == 0:
                kind = ["list", "str", "tuple", "bytes"][(form // 3) % 4]        # the EMPTY forms of the quantifier
            else:
                kind = "tuple" if form % 5 == 2 else "list"
        else:
            kind = "dict"
        if kind == "dict":
            d = {}
            for k in ks:
                v = list(files[k])
                if comp and len(v) == 1 and form % 3 == 2:
                    d[k] = ["str" if (form + k) % 2 == 0 else "bytes", v]
                else:
                    d[k] = ["tuple" if (comp and (form + k) % 5 == 4) else "list", v]
            css = ["dict", d]
        else:
            css = [kind, l]
    return {"js": js, "css": css}


def norm_raw(raw):
    """What the raw forms declare, per the statement (independent of the Coq model): key -> list of codes."""
    out = {}
    kind, l = raw["js"]
    if kind not in ("absent", "none"):
        out[0] = list(l)
    kind, p = raw["css"]
    if kind == "dict":
        for k, (vk, l) in p.items():
            out[int(k)] = list(l)
    elif kind not in ("absent", "none"):
        out[1] = list(p)
    return out


def is_empty_css_form(raw):
    kind, p = raw["css"]
    return kind in ("str", "bytes", "list", "tuple") and not p


def mk_val(kind, codes, key):
    names = [fname(c, key) for c in codes]
    if kind == "str":
        return names[0] if names else ""
    if kind == "bytes":
        return names[0].encode() if names else b""
    return list(names) if kind == "list" else tuple(names)


def media_class(spec, classes, raw):
    m = spec["media"]
    attrs = {}
    if m["extend"] is not True:
        attrs["extend"] = m["extend"] if m["extend"] is False else [classes[b] for b in m["extend"]]
    kind, l = raw["js"]
    if kind == "none":
        attrs["js"] = None
    elif kind != "absent":
        attrs["js"] = mk_val(kind, l, 0)
    kind, p = raw["css"]
    if kind == "none":
        attrs["css"] = None
    elif kind == "dict":
        attrs["css"] = {KEYS[int(k)]: mk_val(vk, v, int(k)) for k, (vk, v) in p.items()}
    elif kind != "absent":
        attrs["css"] = mk_val(kind, p, 1)
    return type("Media", (), attrs)


def raws_for(table, form):
    return [choose_raw(s, form + i) if s["media"] is not None else None for i, s in enumerate(table)]


def build(table, raws):
    """Create the classes.  Returns (classes, None) or (classes_so_far, (index, exception class name))."""
    from django_components import Component
    import typing
    classes = [object, typing.Generic, Component]
    for i, spec in enumerate(table):
        attrs = {"__module__": "verif_c16_rel" if spec["rel"] else "verif_c16_plain"}
        if spec["media"] is not None:
            attrs["Media"] = media_class(spec, classes, raws[i])
        for name in spec.get("none", ()):          # members explicitly set to None in the class body (= absent)
            attrs[name] = None
        for pair, (inl, fil) in spec["pairs"].items():
            if inl is not None:
                attrs[pair] = vstr(inl)
            if fil is not None:
                attrs[pair + "_file"] = apath(pair, fil)
        try:
            cls = type("C16_%d" % (NBUILTIN + i), tuple(classes[b] for b in spec["bases"]), attrs)
        except Exception as e:  # noqa
            return classes, (NBUILTIN + i, type(e).__name__)
        classes.append(cls)
    return classes, None


def run_history(table, hist, raws):
    """hist: list of (table index, attr, on_instance).  Fresh classes; returns outcome."""
    with warnings.catch_warnings():
        warnings.simplefilter("ignore")
        classes, err = build(table, raws)
        if err is not None:
            return ("create_error", err[0], err[1])
        outs = []
        for (ci, attr, inst) in hist:
            try:                                      # the implementation
                target = classes[ci]() if inst else classes[ci]
                if attr == "media":
                    m = target.media
                    v = (list(m._js), {medium: list(lst) for medium, lst in m._css.items()})
                else:
                    v = getattr(target, attr)
            except Exception as e:  # noqa
                outs.append(("err", type(e).__name__))
                continue
            try:                                      # our reading of what it returned: never a crash, never an "err"
                if attr == "media":
                    d = {0: [fcode(x) for x in v[0]]}
                    for medium, lst in v[1].items():
                        d[KEYS.index(medium)] = [fcode(x) for x in lst]
                    outs.append(("media", {k: l for k, l in d.items() if l}))
                else:
                    outs.append(("attr", vcode(v)))
            except Exception:  # noqa
                outs.append(("weird", repr(v)[:200]))
    return ("ok", outs)


# ---------------------------------------------------------------------------------------------
# the statement, evaluated directly (independent of the Coq model)
# ---------------------------------------------------------------------------------------------
def full_table(table):
    blt = [{"bases": [], "comp": False}, {"bases": [0], "comp": False}, {"bases": [1], "comp": True}]
    for b in blt:
        b.update(rel=False, media=None, pairs={})
    return blt + table


def selected(spec):
    m = spec["media"]
    if m is None or m["extend"] is True:
        return spec["bases"]
    return [] if m["extend"] is False else m["extend"]


def contributors(ft, c):
    out, todo = [], [c]
    while todo:
        x = todo.pop()
        if x not in out:
            out.append(x)
            todo.extend(selected(ft[x]))
    return out


def declared(ft, c, k):
    m = ft[c]["media"]
    return list(m["files"].get(k, [])) if m else []


def squash(l):
    return [x for i, x in enumerate(l) if i == 0 or l[i - 1] != x]


def consistent(lists):
    """all lists (adjacent repeats squashed) are subsequences of one duplicate-free list
       <=> each squashed list duplicate-free and the union of the chains acyclic"""
    succ, nodes = {}, set()
    for l in lists:
        if len(set(l)) != len(l):
            return False
        nodes.update(l)
        for a, b in zip(l, l[1:]):
            succ.setdefault(a, set()).add(b)
    state = {}

    def dfs(n):
        state[n] = 1
        for s in succ.get(n, ()):
            if state.get(s) == 1 or (s not in state and not dfs(s)):
                return False
        state[n] = 2
        return True
    return all(dfs(n) for n in sorted(nodes) if n not in state)


def is_subseq(l, o):
    it = iter(o)
    return all(x in it for x in l)


_MRO = {}


def py_mro(ft, c):
    """C3 via Python itself on plain replica classes; None = TypeError."""
    key = (tuple(tuple(s["bases"]) for s in ft[:c + 1]), c)
    if key not in _MRO:
        try:
            cl = []
            for i, s in enumerate(ft[:c + 1]):
                cl.append(object if i == 0 else type("R%d" % i, tuple(cl[b] for b in s["bases"]), {}))
            _MRO[key] = [cl.index(x) for x in cl[c].__mro__]
        except TypeError:
            _MRO[key] = None
    return _MRO[key]


def is_broken(s):
    return s["comp"] and any(f == MISSING for (_, f) in s["pairs"].values())


UNRESOLVABLE = "unresolvable"


def expected_attr(ft, c, attr, literal):
    """(value, may_raise).  literal: any class of the MRO may define the pair; else component classes only.
    may_raise: a class with a missing asset file has to be resolved on the way (the access raises ValueError now; a value
    is accepted only if it is the right one: `value` is computed as if nothing raised, UNRESOLVABLE if it would be the
    content of the missing file)."""
    pair, fm = (attr[:-5], True) if attr.endswith("_file") else (attr, False)
    may_raise = False
    for b in py_mro(ft, c):
        s = ft[b]
        may_raise = may_raise or is_broken(s)
        if not s["comp"] and not literal:
            continue
        inl, fil = s["pairs"].get(pair, (None, None))
        if inl is None and fil is None:
            continue
        if fm:
            return (None if fil is None else 80 + fil), may_raise
        if fil == MISSING:
            return UNRESOLVABLE, may_raise
        return ((50 + PAIRS.index(pair) * 10 + fil) if fil is not None else inl), may_raise
    return None, may_raise


def expected_create_error(ft):
    for i, s in enumerate(ft):
        if py_mro(ft, i) is None:
            return (i, "TypeError")
        if s["comp"] and any(a is not None and b is not None for a, b in s["pairs"].values()):
            return (i, "ImproperlyConfigured")
    return None


def has_rel(table):
    return any(s["rel"] and s["media"] and any(REL_FILE in l for l in s["media"]["files"].values()) for s in table)


def decl_lists(ft, contrib, k):
    # a file declared by a component class whose module has that file beside it appears in its component-relative
    # form (the class is resolved before its Media is read, whatever was accessed first)
    return [[x + REL_OFF if (x == REL_FILE and ft[d]["rel"] and ft[d]["comp"]) else x for x in declared(ft, d, k)]
            for d in contrib]


def flatten_sensitive(ft, c, k):
    """INPUT predicate of the fixed defect 488c746: would merging level by level (flattening the result after every
    base, as the code did) break one of the declared lists of this hierarchy?  Pure function of the table."""
    from django.forms.widgets import Media

    def merge(lists):
        with warnings.catch_warnings():
            warnings.simplefilter("ignore")
            return Media.merge(*lists)

    def flat(x):
        lists = [decl_lists(ft, [x], k)[0]]
        for b in selected(ft[x]):
            bl = flat(b)
            if bl and bl not in lists:
                lists.append(bl)
            lists = [merge(lists)]
        return merge(lists)
    got = flat(c)
    return any(not is_subseq(squash(l), got) for l in decl_lists(ft, contributors(ft, c), k))


def oracle(chk, table, raws, hist, outcome, seen):
    """Direct property predicates on one observed history.  `seen`: (class, attr) -> first observed result.
    Returns the list of positions of `hist` that raised where raising is legitimate (missing asset file)."""
    ft = full_table(table)
    rep = {"table": table, "raw": raws, "history": hist, "observed": outcome}
    exp_err = expected_create_error(ft)
    if outcome[0] == "create_error":
        if exp_err != (outcome[1], outcome[2]):
            chk.fail("c16-class-creation", "class creation raised %s for class %d; the statement demands %r" % (outcome[2], outcome[1], exp_err), rep)
        return []
    if exp_err is not None:
        chk.fail("c16-both-members-accepted" if exp_err[1] == "ImproperlyConfigured" else "c16-class-creation",
                 "class %d defines both members of a pair (or has no MRO) but was created" % exp_err[0], rep)
        return []
    empties = [NBUILTIN + i for i, r in enumerate(raws) if r is not None and table[i]["comp"] and is_empty_css_form(r)]
    legit = []
    for pos, ((ci, attr, inst), o) in enumerate(zip(hist, outcome[1])):
        key = (ci, attr)
        contrib = contributors(ft, ci) if attr == "media" else None
        if attr == "media":
            may_raise = any(is_broken(ft[d]) for d in contrib)
        else:
            exp_lit, may_raise = expected_attr(ft, ci, attr, True)
            exp_comp, _ = expected_attr(ft, ci, attr, False)
        canon = json.dumps(o, sort_keys=True)
        if o[0] == "weird":
            chk.fail("c16-unexpected-value", "access %s on class %d returned a value the harness cannot read: %s" % (attr, ci, o[1]), rep)
            continue
        if o[0] == "err":
            if may_raise and o[1] == "ValueError":
                legit.append(pos)        # an asset file of a class that has to be resolved does not exist
            else:
                trig = T_EMPTY if (attr == "media" and any(d in empties for d in contrib)) else "c16-access-raises"
                chk.fail(trig, "access %s on class %d raised %s" % (attr, ci, o[1]), rep)
                continue
        if key in seen and seen[key][0] != canon:
            chk.fail(T_RELPATH if has_rel(table) else "c16-access-order-dependence",
                     "result of %s on class %d depends on the access history: %s vs %s" % (attr, ci, seen[key][0], canon),
                     dict(rep, other_history=seen[key][1], other_raw=seen[key][2]))
        seen.setdefault(key, (canon, hist, raws))
        if o[0] == "err":
            continue
        if attr != "media":
            if o[1] != exp_lit:
                # known finding: INPUT class = a plain (non-component) class of the MRO defines a member of the pair ahead of
                # the first component definer (exp_lit != exp_comp), and the code returns exactly the component definer's
                # value; anything else stays an ordinary failure
                chk.fail(T_MIXIN if (exp_lit != exp_comp and o[1] == exp_comp) else "c16-attr-nearest-pair",
                         "%s of class %d is %r, the nearest class of the MRO defining either member says %r" % (attr, ci, o[1], exp_lit), rep)
            continue
        for k in range(len(KEYS)):
            got = o[1].get(k, o[1].get(str(k), []))
            lists = decl_lists(ft, contrib, k)
            want = set(x for l in lists for x in l)
            if set(got) != want or len(set(got)) != len(got):
                chk.fail("c16-file-set", "files of class %d (%s) are %r, declared by own class + selected bases: %r" % (ci, KEYS[k], got, sorted(want)), rep)
            else:
                sq = [squash(l) for l in lists]
                if consistent(sq):
                    for d, l in zip(contrib, sq):
                        if not is_subseq(l, got):
                            chk.fail(T_FLATTEN if flatten_sensitive(ft, ci, k) else "c16-order",
                                     "declared lists %r are mutually consistent but the result %r of class %d (%s) breaks the order %r declared by class %d"
                                     % ([x for x in lists if x], got, ci, KEYS[k], l, d), rep)
                            break
    return legit


# ---------------------------------------------------------------------------------------------
# Coq terms
# ---------------------------------------------------------------------------------------------
def pair_term(pair, p):
    inl, fil = p
    return "(%s, %s)" % (copt(inl, cN), copt(fil, lambda f: "(%s, %s)" % (cN(80 + f), cN(50 + PAIRS.index(pair) * 10 + f))))


def rawfiles_term(kind, codes):
    if kind in ("absent", "none"):
        return "RAbsent"
    if kind in ("str", "bytes"):
        return "(RStr %s)" % copt(codes[0] if codes else None, cN)
    return "(RList %s)" % clist([cN(c) for c in codes])


def raw_term(spec, raw):
    if raw is None:
        return "None"
    e = spec["media"]["extend"]
    et = "ExtAll" if e is True else "ExtNone" if e is False else "(ExtList %s)" % clist([cnat(b) for b in e])
    kind, p = raw["css"]
    if kind == "dict":
        items = []
        for k, (vk, v) in sorted((int(k), x) for k, x in p.items()):
            items.append("(%s, %s)" % (cN(k), ("DStr %s" % cN(v[0])) if vk in ("str", "bytes") else ("DList %s" % clist([cN(c) for c in v]))))
        css = "(CDict %s)" % clist(items)
    else:
        css = "(CFiles %s)" % rawfiles_term(kind, p)
    return "(Some (RawMedia %s %s %s))" % (et, rawfiles_term(*raw["js"]), css)


def cls_term(s, raw):
    rel = "[(%s, %s)]" % (cN(REL_FILE), cN(REL_FILE + REL_OFF)) if (s["rel"] and s["comp"]) else "[]"
    ps = [pair_term(p, s["pairs"].get(p, (None, None))) for p in PAIRS]
    return "(Cls %s %s None %s %s %s %s, %s)" % (clist([cnat(b) for b in s["bases"]]), cbool(s["comp"]), rel, ps[0], ps[1], ps[2],
                                                 raw_term(s, raw))


def access_term(a):
    ci, attr, _ = a
    if attr == "media":
        return "AMedia %s" % cnat(ci)
    pair, fm = (attr[:-5], True) if attr.endswith("_file") else (attr, False)
    return "AAttr %s %s %s" % (cnat(ci), {"template": "PTpl", "js": "PJs", "css": "PCss"}[pair], cbool(fm))


def outcome_term(outcome, skip=()):
    if outcome[0] == "create_error":
        e = {"TypeError": "ETypeError", "ImproperlyConfigured": "EImproperlyConfigured"}.get(outcome[2])
        if e is None:
            return None
        return "(OCreateError %s %s)" % (cnat(outcome[1]), e)
    obs = []
    for pos, o in enumerate(outcome[1]):
        if pos in skip:
            continue
        if o[0] == "media":
            obs.append("OMedia %s" % clist(["(%s, %s)" % (cN(int(k)), clist([cN(c) for c in l])) for k, l in sorted(o[1].items())]))
        elif o[0] == "attr":
            obs.append("OAttr %s" % copt(o[1], cN))
        else:
            return None
    return "(OOk %s)" % clist(obs)


def case_term(table, raws, hist, outcome, skip=()):
    """`skip`: positions whose access legitimately raised (missing asset file).  They are left out on both sides: by
    access_order_independent the model's other results do not depend on them, the implementation's must not either."""
    ot = outcome_term(outcome, skip)
    if ot is None:
        return None
    ft = full_table(table)
    fr = [None] * NBUILTIN + list(raws)
    return "(%s, %s, %s, %s)" % (clist([cls_term(s, r) for s, r in zip(ft, fr)]),
                                 clist([access_term(a) for pos, a in enumerate(hist) if pos not in skip]),
                                 clist([cN(k) for k in range(len(KEYS))]), ot)


# ---------------------------------------------------------------------------------------------
# generators
# ---------------------------------------------------------------------------------------------
def mk(bases, media=None, comp=True, rel=False, pairs=None, none=None):
    d = {"bases": list(bases), "comp": comp, "rel": rel, "media": media, "pairs": pairs or {}}
    if none:
        d["none"] = list(none)
    return d


def md(extend=True, js=None, **css):
    files = {}
    if js is not None:
        files[0] = list(js)
    for medium, l in css.items():
        files[KEYS.index(medium)] = list(l)
    return {"extend": extend, "files": files}


def md_raw(js, css, extend=True):
    raw = {"js": list(js), "css": list(css)}
    return {"extend": extend, "files": norm_raw(raw), "raw": raw}


# witnesses of the defects (fixed and open) live in corpus/C16/*.json; a few more regression cases here
CORPUS_LITERAL = [
    ("both-members", [mk([2], pairs={"js": (1, 1)})], []),
    # seed C16c: the EMPTY string is a value - "" together with the file member is rejected like any other pair of values
    ("both-members-empty-inline", [mk([2], pairs={"js": (0, 1)})], []),
    ("both-members-empty-template", [mk([2], pairs={"template": (1, None)}), mk([3], pairs={"template": (0, 2)})], []),
    ("both-members-empty-path", [mk([2], pairs={"css": (1, EMPTY_PATH)})], []),
    ("both-members-both-empty", [mk([2], pairs={"template": (0, EMPTY_PATH)})], []),
    # ... while "" alone, or with the other member explicitly None, is a perfectly good definition
    ("empty-inline-alone", [mk([2], pairs={"js": (1, None), "css": (None, 1)}), mk([3], pairs={"js": (0, None), "css": (0, None)}, none=["js_file", "template"])],
     [(4, "js", False), (4, "js_file", False), (4, "css", True), (4, "css_file", False), (4, "template", False), (3, "js", False)]),
    ("pair-nearest", [mk([2], pairs={"js": (1, None), "css": (None, 1)}), mk([3], pairs={"js": (None, 2), "css": (0, None)}), mk([4])],
     [(5, "js", False), (5, "js_file", False), (5, "css", True), (5, "css_file", False), (3, "css", False)]),
    # seed C16b (missed at first): diamond, the NON-defining branch listed first, two definers; an intermediate class is read
    # before the most derived one.  Base tpl/js; Left(Base); Right(Base) tpl/js; Leaf(Left, Right): Leaf's are Right's
    ("diamond-attr-order", [mk([2], pairs={"template": (11, None), "js": (12, None)}), mk([3]),
                            mk([3], pairs={"template": (13, None), "js": (None, 2)}), mk([4, 5])],
     [(4, "template", False), (6, "template", False), (4, "js", True), (6, "js", True), (6, "js_file", False), (5, "template", False)]),
    # duplicates: adjacent repeats keep the order theorem; a distant repeat falls back to first occurrences
    ("dups-adjacent", [mk([2], md(True, [1, 1, 2])), mk([3], md(True, [2, 2, 3]))], [(4, "media", False), (3, "media", False)]),
    ("dups-distant", [mk([2], md(True, [1, 2, 1])), mk([3], md(True, [3, 1]))], [(4, "media", False), (3, "media", True)]),
    # a class whose template file is missing: every access that has to resolve it raises, nothing else is disturbed
    ("missing-file", [mk([2], md(True, [1])), mk([2], md(True, [2]), pairs={"template": (None, MISSING)}), mk([3, 4], md(True, [3])),
                      mk([3], md(True, [4]))],
     [(5, "media", False), (3, "media", False), (5, "media", True), (6, "media", False), (5, "template", False), (3, "template", False),
      (4, "js", False), (5, "media", False)]),
]


def shapes(n):
    """All base-list choices for n user classes: each class takes 1..2 bases among Component + earlier user classes."""
    def rec2(i, acc):
        if i == n:
            yield list(acc)
            return
        cands = [2] + list(range(NBUILTIN, NBUILTIN + i))
        opts = [[b] for b in cands] + [list(p) for p in itertools.permutations(cands, 2) if 2 not in p or p[1] == 2]
        for o in opts:
            yield from rec2(i + 1, acc + [o])
    return rec2(0, [])


JS_LISTS = [[], [1], [2], [1, 2], [2, 1]]


def rand_list(rng, universe, maxlen=3, dup=0.08):
    n = rng.choice([0, 1, 1, 2, 2, 3][:maxlen + 3])
    l = rng.sample(universe, min(n, len(universe)))
    if l and rng.random() < dup:
        i = rng.randrange(len(l))
        # half of the repeats adjacent (harmless), half anywhere
        l.insert(i if rng.random() < 0.5 else rng.randrange(len(l) + 1), l[i])
    return l


def rand_media(rng, idx, universe, p_none=0.25):
    r = rng.random()
    if r < p_none:
        return None
    if r < p_none + 0.07:
        return md(True)
    e = rng.random()
    if e < 0.55:
        ext = True
    elif e < 0.75:
        ext = False
    else:
        cands = list(range(2, idx))
        ext = rng.sample(cands, rng.randint(0, min(2, len(cands))))
        if ext and rng.random() < 0.1:
            ext.append(ext[0])
    files = {}
    if rng.random() < 0.9:
        files[0] = rand_list(rng, universe)
    if rng.random() < 0.5:
        files[1] = rand_list(rng, universe)
    if rng.random() < 0.25:
        files[2] = rand_list(rng, universe)
    return {"extend": ext, "files": files}


def rand_pairs(rng, both=True):
    ps = {}
    for p in PAIRS:
        r = rng.random()
        if r < 0.55:
            continue
        if r < 0.78:
            ps[p] = (rng.choice([0, 1, 2, 3]), None)
        elif r < 0.97 or not both:
            ps[p] = (None, rng.choice([1, 2]))
        else:
            ps[p] = (rng.choice([0, 1]), rng.choice([1, 2]))
    return ps


def rand_table(rng, n, universe, rel_p=0.0, mixin_p=0.1, attrs=True, mixin_pairs=0.0):
    table = []
    for i in range(n):
        idx = NBUILTIN + i
        if rng.random() < mixin_p:
            # plain mixin: Media in Django's own normal form; template/js/css members only in the mixin-pair family
            table.append(mk([0], rand_media(rng, idx, universe, 0.3), comp=False,
                            pairs=rand_pairs(rng, both=False) if rng.random() < mixin_pairs else {}))
            continue
        cands = [2] + list(range(NBUILTIN, idx))
        nb = rng.choice([1, 1, 1, 2, 2, 3])
        bases = rng.sample(cands, min(nb, len(cands)))
        if rng.random() < 0.85:
            bases.sort(reverse=True)          # mostly MRO-consistent orders (derived first)
        if not any(b == 2 or table[b - NBUILTIN]["comp"] for b in bases):
            bases.append(2)
        table.append(mk(bases, rand_media(rng, idx, universe), rel=rng.random() < rel_p,
                        pairs=rand_pairs(rng) if attrs and rng.random() < 0.6 else {}))
    return table


def has_diamond(table):
    ft = full_table(table)

    def anc(c):
        out, todo = set(), list(ft[c]["bases"])
        while todo:
            x = todo.pop()
            if x not in out:
                out.add(x)
                todo.extend(ft[x]["bases"])
        return out
    for c in range(NBUILTIN, len(ft)):
        bs = ft[c]["bases"]
        for a, b in itertools.combinations(bs, 2):
            if (({a} | anc(a)) & ({b} | anc(b))) - {0, 1, 2}:
                return True
    return False


# stacked / nested diamonds of 5 and 6 user classes (table indices; 2 = Component)
DIAMONDS = [
    [[2], [3], [3], [4, 5], [6]],                       # A; B(A); C(A); D(B,C); E(D)
    [[2], [3], [3], [3], [4, 5, 6]],                    # triple diamond
    [[2], [2], [3, 4], [3, 4], [5, 6]],                 # two roots, two joins, join of joins
    [[2], [3], [3], [4, 5], [4, 5], [6, 7]],            # double diamond
    [[2], [3], [3], [4, 5], [6], [6, 7]],               # diamond, then F(D, E) with E(D)
    [[2], [3], [4], [3], [5, 6], [7, 3]],               # long arm / short arm + redundant base
    [[2], [3], [3], [4], [5], [6, 7]],                  # wide diamond with arms of length 2
]

ATTRS = ["template", "template_file", "js", "js_file", "css", "css_file"]
FIRST = ["media", "template", "js", "css"]


def comp_idx(table):
    return [NBUILTIN + i for i in range(len(table)) if table[i]["comp"]] or [2]


def readout(table, inst=False):
    return [(c, a, inst) for c in comp_idx(table) for a in FIRST]


def histories(rng, table, nrand, exhaustive_media=False):
    n = len(table)
    idx = comp_idx(table)
    hs = [[(c, "media", False) for c in idx], [(c, "media", False) for c in reversed(idx)]]
    if exhaustive_media:
        hs = [[(c, "media", False) for c in p] for p in itertools.permutations(idx)]
    for _ in range(nrand):
        h = []
        for _ in range(rng.randint(2, 2 * n + 2)):
            c = rng.choice(idx + [2] if rng.random() < 0.05 else idx)
            a = "media" if rng.random() < 0.5 else rng.choice(ATTRS)
            h.append((c, a, rng.random() < 0.25))
        # end by reading media of everything so that the independence oracle always has something to compare
        h += [(c, "media", rng.random() < 0.25) for c in rng.sample(idx, len(idx))]
        hs.append(h)
    return hs


def order_histories(table):
    """ALL access orders for <= 3 classes: every permutation of the classes x every way of touching each class first
    (.media / .template / .js / .css) x class or instance (full product for n <= 2, alternating patterns for n = 3),
    each followed by reading everything again.  For n = 1 all permutations of the 4 accesses; for n = 2 also every
    sequence of <= 3 accesses over the 8 (class, attribute) pairs."""
    idx = comp_idx(table)
    n = len(idx)
    tail = readout(table)
    hs = []
    cnt = 0
    for perm in itertools.permutations(idx):
        for attrs in itertools.product(FIRST, repeat=n):
            cnt += 1
            flags = list(itertools.product([False, True], repeat=n)) if n <= 2 else [tuple((i + cnt) % 2 == 1 for i in range(n))]
            for fl in flags:
                hs.append([(c, a, f) for c, a, f in zip(perm, attrs, fl)] + tail)
    if n == 1:
        for p in itertools.permutations(FIRST):
            for inst in (False, True):
                hs.append([(idx[0], a, inst) for a in p] + tail)
    if n == 2:
        alpha = [(c, a) for c in idx for a in FIRST]
        for L in (1, 2, 3):
            for seq in itertools.product(alpha, repeat=L):
                hs.append([(c, a, (i + L) % 2 == 1) for i, (c, a) in enumerate(seq)] + tail)
    return hs


def rich_table(rng, sh):
    """Contents for the access-order family: results sensitive to every part of the state (relative files, extend modes,
    pairs at several levels, css in two media)."""
    t = []
    for i, b in enumerate(sh):
        idx = NBUILTIN + i
        e = rng.random()
        ext = True if (e < 0.6 or i == 0) else (False if e < 0.75 else rng.sample(list(range(NBUILTIN, idx)), rng.randint(1, min(2, i))))
        m = {"extend": ext, "files": {0: rand_list(rng, [1, 2, 3], dup=0.0), 1: rand_list(rng, [1, 2, 3], dup=0.0)}}
        if rng.random() < 0.3:
            m["files"][2] = rand_list(rng, [1, 2], dup=0.0)
        if rng.random() < 0.12:
            m = None
        ps = {}
        for p in PAIRS:
            r = rng.random()
            if r < 0.35:
                ps[p] = (rng.choice([0, 1, 2, 3]), None)
            elif r < 0.6:
                ps[p] = (None, rng.choice([1, 2]))
        t.append(mk(b, m, rel=rng.random() < 0.5, pairs=ps))
    return t


def pattern_table(rng, sh, patterns):
    """Classes of shape `sh` (all components); patterns = (template, js, css) bitmasks: bit i set <=> class i defines that
    pair.  Every definer gets its own value (inline code 10+i, now and then the file form), so a value tells who defined it."""
    t = []
    for i, b in enumerate(sh):
        ps = {}
        for p, mask in zip(PAIRS, patterns):
            if mask >> i & 1:
                ps[p] = (None, 1 + i % 2) if rng.random() < 0.2 else (10 + i, None)
        t.append(mk(b, None, pairs=ps))
    return t


def attr_order_histories(rng, table, perms):
    """Orders of the ATTRIBUTE accessors: for every given permutation of the classes, read template, js, css (every 4th
    history the *_file members) of each class in that order, on classes and instances alternately.  The value of every
    access is compared with the order-independent expectation, and with the same access in the other orders."""
    hs = []
    for j, perm in enumerate(perms):
        names = [p + "_file" for p in PAIRS] if j % 4 == 3 else PAIRS
        hs.append([(c, a, (j + k) % 2 == 1) for k, c in enumerate(perm) for a in names])
    return hs


def sampled_perms(rng, idx, k):
    """index order (bases first), reverse (most derived first), every 'one intermediate class first, then the most derived
    one, then the rest', plus random permutations"""
    out = [list(idx), list(reversed(idx))]
    for c in idx[:-1]:
        out.append([c, idx[-1]] + [x for x in idx if x not in (c, idx[-1])])
    while len(out) < k:
        out.append(rng.sample(idx, len(idx)))
    return out


JS_FORMS = [["absent", []], ["none", []], ["str", []], ["bytes", []], ["list", []], ["tuple", []],
            ["str", [1]], ["bytes", [2]], ["list", [1]], ["list", [2, 1]], ["tuple", [1, 2]]]
CSS_FORMS = [["absent", []], ["none", []], ["str", []], ["bytes", []], ["list", []], ["tuple", []],
             ["str", [1]], ["bytes", [2]], ["list", [1]], ["list", [2, 1]], ["tuple", [1, 2]],
             ["dict", {}], ["dict", {1: ["str", [1]]}], ["dict", {1: ["list", [1, 2]], 2: ["bytes", [2]]}],
             ["dict", {1: ["list", []]}], ["dict", {2: ["tuple", [2, 1]], 1: ["list", []]}]]


def gen_tables(chk, thorough):
    """yields (table, kind, history mode)"""
    rng = chk.rng
    # 1. every shape of <= 3 user classes, js lists over two files exhaustively on the three classes, extend=True,
    #    every order of the .media accesses
    for n in (1, 2, 3):
        for sh in shapes(n):
            combos = list(itertools.product(JS_LISTS, repeat=n))
            if n == 3 and not thorough:
                combos = rng.sample(combos, 30)
            for ls in combos:
                yield [mk(b, md(True, l)) for b, l in zip(sh, ls)], "exh-shape%d" % n, "media-perms"
    # 2. ALL access orders on every shape of <= 3 classes
    for n in (1, 2, 3):
        for sh in shapes(n):
            for _ in range((4 if n < 3 else 3) if thorough else (2 if n < 3 else 1)):
                yield rich_table(rng, sh), "orders%d" % n, "all-orders"
    # 3. every shape of 3 classes x extend modes of the last two classes, files random over 3 names
    exts = [True, False, "list"]
    for sh in shapes(3):
        for e1, e2 in itertools.product(exts, repeat=2):
            for _ in range(3 if thorough else 1):
                t = []
                for i, (b, e) in enumerate(zip(sh, [True, e1, e2])):
                    if e == "list":
                        cands = list(range(NBUILTIN, NBUILTIN + i))
                        e = rng.sample(cands, rng.randint(0, len(cands)))
                    m = md(e, rand_list(rng, [1, 2, 3]), all=rand_list(rng, [1, 2, 3]))
                    if rng.random() < 0.15:
                        m = None
                    t.append(mk(b, m))
                yield t, "exh-extend3", "std"
    # 4. every shape of 4 classes, random lists
    for sh in shapes(4):
        for _ in range(3 if thorough else 1):
            yield [mk(b, rand_media(rng, NBUILTIN + i, [1, 2, 3], 0.2)) for i, b in enumerate(sh)], "shape4", "std"
    # 4b. orders of the ATTRIBUTE accessors on 4-class shapes: diamond-like shapes x ALL 16 definer patterns of a pair
    #     (three patterns per table: template / js / css) x ALL 24 orders of the classes; other shapes random patterns
    for sh in shapes(4):
        dia = has_diamond([mk(b) for b in sh])
        if dia:
            pats = rng.sample(range(16), 16) + [rng.randrange(16), rng.randrange(16)]
            groups = [pats[i:i + 3] for i in range(0, 18, 3)]
        else:
            groups = [[rng.randrange(16) for _ in PAIRS] for _ in range(2 if thorough else 1)]
        for g in groups:
            yield pattern_table(rng, sh, g), "attr-orders4" + ("-diamond" if dia else ""), "attr-perms"
    #     and on random / stacked-diamond shapes of 5-6 classes with sampled orders
    for _ in range(600 if thorough else 120):
        if rng.random() < 0.5:
            sh = rng.choice(DIAMONDS)
        else:
            sh = [s["bases"] for s in rand_table(rng, rng.choice([5, 6]), [1], mixin_p=0.0, attrs=False)]
        n = len(sh)
        yield pattern_table(rng, sh, [rng.randrange(1, 2 ** n) & rng.randrange(1, 2 ** n) | 1 << rng.randrange(n) for _ in PAIRS]), \
            "attr-orders%d" % n, "attr-perms-sampled"
    # 4c. both members of a pair in one class: every pair x every kind of inlined value ("" / text) x every kind of file value
    #     (existing / missing / "") x position (direct subclass, subclass of a definer, other pairs defined / explicit None) -
    #     all rejected; and the legal neighbours ("" alone, file alone, explicit None beside a value) - all accepted
    for pair in PAIRS:
        others = [p for p in PAIRS if p != pair]
        for inl in (0, 1, None):
            for fil in (1, 2, MISSING, EMPTY_PATH, None):
                if (inl, fil) == (None, None) or (inl is None and fil in (MISSING, EMPTY_PATH)):
                    continue
                for pos in range(4):
                    d = {pair: (inl, fil)}
                    none = []
                    if inl is None:
                        none.append(pair)
                    if fil is None:
                        none.append(pair + "_file")
                    if pos == 1:
                        d[others[0]] = (2, None)
                    if pos == 3:
                        none += [others[1], others[0] + "_file"]
                    t = [mk([2], pairs={pair: (3, None)} if pos >= 2 else {}), mk([3], pairs=d, none=none if pos != 2 else [])]
                    if pos == 3:
                        t.append(mk([4]))
                    yield t, "both-members", "readout"
    # 5. every written form of Media.js x Media.css (incl. all the empty ones) on one class, and on a base of a chain
    for jf in JS_FORMS:
        for cf in CSS_FORMS:
            yield [mk([2], md_raw(jf, cf))], "forms1", "media-perms"
    for _ in range(1500 if thorough else 300):
        n = rng.choice([2, 3])
        sh = rng.choice(list(shapes(n)))
        t = [mk(b, md_raw(rng.choice(JS_FORMS), rng.choice(CSS_FORMS), extend=rng.choice([True, True, False]))
                if rng.random() < 0.85 else None) for b in sh]
        yield t, "forms%d" % n, "media-perms"
    # 6. random tables of 2-6 classes: mixins with Media, attrs, dup entries
    for _ in range(6000 if thorough else 800):
        n = rng.choice([2, 3, 3, 4, 4, 5, 5, 6, 6] if thorough else [2, 3, 3, 4, 4, 5, 6])
        t = rand_table(rng, n, rng.choice([[1, 2], [1, 2, 3], [1, 2, 3, 4]]))
        yield t, "random%d%s" % (n, "-diamond" if has_diamond(t) else ""), "std"
    # 7. stacked diamonds of 5 and 6 classes
    for _ in range(60 if thorough else 12):
        for sh in DIAMONDS:
            t = [mk(b, rand_media(rng, NBUILTIN + i, [1, 2, 3, 4], 0.15), pairs=rand_pairs(rng) if rng.random() < 0.4 else {})
                 for i, b in enumerate(sh)]
            yield t, "diamond%d" % len(sh), "std"
    # 8. Media files lying beside the component module
    for _ in range(1500 if thorough else 250):
        n = rng.choice([1, 2, 3, 4])
        yield rand_table(rng, n, [1, 2, 3], rel_p=0.6), "random-relfiles", "std"
    # 9. plain mixins that define template / js / css members
    for _ in range(1200 if thorough else 200):
        n = rng.choice([2, 3, 3, 4, 5])
        yield rand_table(rng, n, [1, 2, 3], mixin_p=0.35, mixin_pairs=0.8), "mixin-pairs", "std"
    # 10. a class whose asset file is missing (resolving it raises): the rest of the hierarchy must not be disturbed
    for _ in range(1200 if thorough else 200):
        n = rng.choice([2, 3, 3, 4, 5])
        t = rand_table(rng, n, [1, 2, 3], mixin_p=0.05)
        comps = [s for s in t if s["comp"] and not any(a is not None and b is not None for a, b in s["pairs"].values())]
        if comps:
            rng.choice(comps)["pairs"][rng.choice(PAIRS)] = (None, MISSING)
        yield t, "missing-file", "std3"


# ---------------------------------------------------------------------------------------------
def load_corpus():
    cases = [(n, t, [h]) for n, t, h in CORPUS_LITERAL]
    if os.path.isdir(CORPUS):
        for f in sorted(os.listdir(CORPUS)):
            if f.endswith(".json"):
                r = json.load(open(os.path.join(CORPUS, f)))
                hs = r.get("histories") or [r["history"]]
                cases.append((f[:-5], r["table"], [[tuple(a) for a in h] for h in hs]))
    return cases


def fix_table(table):
    """JSON round trip: int keys of files, tuples of pairs."""
    for s in table:
        if s.get("media"):
            s["media"]["files"] = {int(k): v for k, v in s["media"]["files"].items()}
            if "raw" in s["media"] and s["media"]["raw"]["css"][0] == "dict":
                s["media"]["raw"]["css"][1] = {int(k): v for k, v in s["media"]["raw"]["css"][1].items()}
        s["pairs"] = {p: tuple(v) for p, v in s.get("pairs", {}).items()}
    return table


def nontrivial(table, outcome):
    """Exercises the mechanism: some class gets files from >= 2 contributing classes with own Media."""
    ft = full_table(table)
    for c in range(NBUILTIN, len(ft)):
        if sum(1 for d in contributors(ft, c) if ft[d]["media"] and any(ft[d]["media"]["files"].values())) >= 2:
            return True
    return False


def run(tier, seed):
    import djsetup
    djsetup.setup()
    import gen_constants
    import traceback
    gen_error = None
    try:
        gen_constants.generate(["C16"])      # gen_c16 itself never raises on an unexpected source shape (sentinel + broken anchor)
    except Exception:  # noqa
        gen_error = traceback.format_exc()
    setup_files()
    chk = C.Check("C16", tier, seed)
    if gen_error is not None:
        chk.fail("c16-generator-crash", "harness/gen_c16.py could not read component_media.py:\n" + gen_error[-1500:], {"kind": "generator"})
    chk.prove()
    thorough = tier == "thorough"
    terms, cases = [], []
    stats = {"raised_missing_file": 0, "empty_css_forms": 0, "plain_definer_tables": 0, "dup_tables": 0}

    def one_table(table, kind, hs, coq_every=1):
        # a crash of the harness on something the implementation did must never stand in for a verdict
        try:
            one_table_(table, kind, hs, coq_every)
        except Exception:  # noqa
            chk.fail("c16-harness-exception", "the harness raised while running / judging this table:\n" + traceback.format_exc()[-1500:],
                     {"table": table, "histories": [list(h) for h in hs[:3]]})

    def one_table_(table, kind, hs, coq_every=1):
        seen = {}
        ft = full_table(table)
        if any(not s["comp"] and s["pairs"] for s in table):
            stats["plain_definer_tables"] += 1
        if any(s["media"] and any(len(set(l)) != len(l) for l in s["media"]["files"].values()) for s in table):
            stats["dup_tables"] += 1
        nt0 = nontrivial(table, None)
        tj = json.dumps(table, sort_keys=True)
        for hi, h in enumerate(hs):
            raws = raws_for(table, hi + len(table))
            stats["empty_css_forms"] += sum(1 for i, r in enumerate(raws) if r is not None and table[i]["comp"] and is_empty_css_form(r))
            outcome = run_history(table, h, raws)
            legit = oracle(chk, table, raws, h, outcome, seen)
            stats["raised_missing_file"] += len(legit)
            nt = outcome[0] == "ok" and nt0
            chk.count((tj, hi, tuple(h)), nt, kind=kind,
                      sample={"table": table, "raw": raws, "history": h, "observed": outcome} if (nt and kind.startswith("random") and len(table) >= 3) else None)
            t = case_term(table, raws, h, outcome, legit) if hi % coq_every == 0 else None
            if t is not None:
                terms.append(t)
                cases.append({"table": table, "raw": raws, "history": h, "observed": outcome, "skipped_positions": legit})
            if outcome[0] == "create_error":
                break

    with djsetup.components_settings(dirs=[COMPS]):
        for name, table, hs in load_corpus():
            one_table(fix_table(table), "corpus", hs)
        for table, kind, mode in gen_tables(chk, thorough):
            n = len(table)
            if mode.startswith("attr-perms"):
                # every history goes through the direct oracles (expected value, independence of the order); every 4th one
                # is also compared with the model in Coq
                idx = comp_idx(table)
                perms = list(itertools.permutations(idx)) if mode == "attr-perms" else sampled_perms(chk.rng, idx, 12)
                one_table(table, kind, attr_order_histories(chk.rng, table, perms), coq_every=4)
                continue
            if mode == "readout":
                hs = [readout(table), [(c, a + "_file", True) for c in comp_idx(table) for a in PAIRS]] + histories(chk.rng, table, 1)[2:]
            elif mode == "all-orders":
                hs = order_histories(table)
            elif mode == "media-perms":
                hs = histories(chk.rng, table, 1, exhaustive_media=n <= 3)
            else:
                hs = histories(chk.rng, table, 3 if mode == "std3" else 2)
            one_table(table, kind, hs)
    bad = C.coq_eval_cases("C16", "media", IMPORTS, CASE_TYPE, "check_raw", terms, shard=350)
    for i in bad[:20]:
        chk.disagree("Media model != implementation", cases[i])
        if os.environ.get("VERIF_DEBUG"):
            print("DISAGREE", json.dumps(cases[i]))
            print("   term:", terms[i])
    chk.extra["c16_counts"] = dict(stats, coq_compared=len(terms))
    chk.assumptions = [
        "classes are created after their bases and after the classes named in Media.extend (Python guarantees it)",
        "Media entries are plain path strings written as str / bytes / list / tuple / dict (all forms incl. the empty ones are generated and "
        "normalised by the MODEL from the form as written); SafeString / callable / PathLike entries, a dict value that is the empty string, "
        "and a Media class inheriting from another Media class are outside the model; plain (non-component) classes write Media in Django's "
        "own normal form (js list, css dict of lists) - the library does not normalise them",
        "Media / template / js / css are not reassigned after class creation; single-threaded use",
        "django.forms.Media.merge, graphlib.TopologicalSorter and Python's C3 linearisation are modelled (differentially tested here), not verified",
        "a class whose template_file / js_file / css_file does not exist: accesses that must resolve it raise ValueError (accepted; they are left "
        "out of the model comparison), every other access must be unaffected; plain classes defining BOTH members of a pair are not generated",
    ]
    return chk.finish(
        rule="every inheritance shape of <= 3 user classes (1-2 bases each, incl. inconsistent MROs) x js lists over 2 files (exhaustive; n=3 %s) "
             "x ALL orders of the .media accesses; on every such shape %s tables with rich contents x ALL access orders (every permutation of the classes x "
             "first touch through .media/.template/.js/.css x class/instance, then everything read again; n=1 all 4! orders, n=2 every sequence of <= 3 accesses); "
             "every 3-class shape x extend in {True, False, list}^2; ALL 273 4-class shapes; attribute-accessor orders: the 120 diamond-like 4-class shapes x all 16 definer "
             "patterns of a pair x ALL 24 class orders of .template/.js/.css (and *_file) on classes and instances, the other 4-class shapes and random / stacked-diamond "
             "5-6 class shapes with random patterns (sampled orders incl. 'intermediate class first, then the most derived') - all through the direct oracles, every 4th also in Coq; every written form of Media.js x Media.css (11 x 16, incl. '' b'' [] () None {}) on one class "
             "+ random 2-3 class tables over those forms; seeded random tables of 2-6 classes (mixins with Media, no/empty Media, duplicate entries adjacent and distant, "
             "extend lists, template/js/css and *_file pairs incl. both-members); the both-members clause systematically: every pair x inlined '' / text x file existing / missing / '' "
             "x 4 positions (rejected) and the legal neighbours ('' alone, explicit None beside a value; accepted); 7 stacked-diamond shapes of 5-6 classes; Media files lying beside the component module; "
             "plain mixins defining template/js/css; classes with a missing asset file. Each history runs on fresh class objects. "
             "Non-trivial = some class receives files from >= 2 classes with a non-empty own Media. Distinct = distinct (table, history, written forms)."
             % ("all" if thorough else "30 sampled per shape", "3-4" if thorough else "1-2"),
        explanation="theorems of Props/C16.v re-checked by coqc (incl. the source anchors of Media/Anchors.v against the regenerated Gen/C16.v); model (normalisation of the "
                    "written Media forms + work-stack + memo + Media.__add__/merge/graphlib + C3 + pair rule) evaluated by vm_compute inside Coq on every history and "
                    "compared with the observed _js/_css/attribute values/creation errors; independent Python oracles: file set = own + selected bases, no duplicates, "
                    "order consistent with every declared list (adjacent repeats squashed) when those are mutually consistent, results independent of the access history, "
                    "attribute from the nearest class of Python's own MRO defining either member (ANY class, literal reading), both members rejected, no access raises "
                    "unless an asset file is missing.",
        extra_trusted=["modelled, not verified: django.forms.widgets.Media (__add__, merge), graphlib.TopologicalSorter.static_order, type.__new__ (C3 MRO), "
                       "os.path.isfile-based resolution of component-relative paths (a per-class path map in the model)",
                       "harness/gen_c16.py (reads constants and the AST of component_media.py into coq/Gen/C16.v)"])


def replay(path):
    import djsetup
    djsetup.setup()
    setup_files()
    r = json.load(open(path))
    case = r.get("case", r)
    print(json.dumps(r, indent=1)[:4000])
    if "table" in case:
        table = fix_table(case["table"])
        with djsetup.components_settings(dirs=[COMPS]):
            todo = [(key, rk, case[key]) for key, rk in (("history", "raw"), ("other_history", "other_raw")) if key in case]
            todo += [("histories[%d]" % i, "raw", h) for i, h in enumerate(case.get("histories", []))]
            for key, rk, hh in todo:
                if True:
                    h = [tuple(a) for a in hh]
                    raws = case.get(rk) or raws_for(table, len(table))
                    for rw in raws:
                        if rw is not None and rw["css"][0] == "dict":
                            rw["css"][1] = {int(k): v for k, v in rw["css"][1].items()}
                    print(key, "->", run_history(table, h, raws))
    return 0
