"""C16 - component assets = own class plus the bases selected by Media.extend.

Model: coq/Media/Model.v   Theorems: coq/Props/C16.v
Correspondence: class hierarchies (<= 4 user classes in quick, <= 6 in thorough: chains, multiple and diamond
inheritance, plain mixins, inconsistent MROs, no / empty Media, str / list / dict forms, extend True / False / list,
Media files that exist beside the component module) x access histories of .media / .template / .js / .css /
*_file on classes and instances.  Every history runs on FRESH class objects (media_cache is keyed by class), the
observed results are compared with the model inside Coq, and independent Python oracles check the statement.
"""
import itertools
import json
import os
import sys
import types
import warnings

import common as C
from common import cN, cnat, clist, copt, cbool

IMPORTS = "From DJC Require Import Lib.Base Media.Model."
CORPUS = os.path.join(C.VERIF, "corpus", "C16")
COMPS = os.path.join(C.WORK, "C16", "comps")

KEYS = ["js", "all", "print"]            # key 0 = js, key k>0 = css medium
NBUILTIN = 3                             # table index 0 = object, 1 = typing.Generic, 2 = Component
REL_FILE = 1                             # file code that exists beside the module of "rel" classes
REL_OFF = 100                            # code of the component-relative form of a file
PAIRS = ["template", "js", "css"]
T_FLATTEN = "c16-per-level-flattening-order"
T_RELPATH = "c16-media-before-resolve-relative-path"


# ---------------------------------------------------------------------------------------------
# naming of codes
# ---------------------------------------------------------------------------------------------
def fname(code, key):
    ext = "js" if key == 0 else "css"
    if code >= REL_OFF:
        return "sub/f%d.%s" % (code - REL_OFF, ext)
    return "f%d.%s" % (code, ext)


def fcode(name):
    rel = name.startswith("sub/")
    n = int(name.split("/")[-1].split(".")[0][1:])
    return n + REL_OFF if rel else n


def vstr(code):                       # inline attribute values; code 0 is the empty string (not None!)
    return "" if code == 0 else "v%d" % code


def apath(pair, code):                # path of an asset file (exists in COMPS root); content = "content-<pair>-<code>"
    return "%s%d.%s" % (pair[0], code, {"template": "html", "js": "js", "css": "css"}[pair])


VAL_CODES = {}


def vcode(s):
    if s is None:
        return None
    if s == "":
        return 0
    if s.startswith("content-"):
        return 50 + PAIRS.index(s.split("-")[1]) * 10 + int(s.split("-")[2])
    if s.startswith("v"):
        return int(s[1:])
    # asset path
    return 80 + int(s.split(".")[0][1:])


def setup_files():
    os.makedirs(os.path.join(COMPS, "sub"), exist_ok=True)
    for ext in ("js", "css"):
        open(os.path.join(COMPS, "sub", "f%d.%s" % (REL_FILE, ext)), "w").close()
    for pair in PAIRS:
        for code in (1, 2):
            with open(os.path.join(COMPS, apath(pair, code)), "w") as f:
                f.write("content-%s-%d" % (pair, code))
    for name, file in (("verif_c16_rel", os.path.join(COMPS, "sub", "mod.py")), ("verif_c16_plain", None)):
        m = types.ModuleType(name)
        m.__file__ = file
        sys.modules[name] = m


# ---------------------------------------------------------------------------------------------
# a table = list of user class specs (index i <-> table index NBUILTIN + i)
#   spec = {"bases": [table indices], "comp": bool, "rel": bool,
#           "media": None | {"extend": True|False|[table indices], "files": {key: [codes]}, "form": int},
#           "pairs": {pair: (inline_code|None, file_code|None)}}
# ---------------------------------------------------------------------------------------------
def media_class(spec, classes, form):
    m = spec["media"]
    attrs = {}
    if m["extend"] is not True:
        attrs["extend"] = m["extend"] if m["extend"] is False else [classes[b] for b in m["extend"]]
    files = m["files"]
    comp = spec["comp"]
    if 0 in files:
        names = [fname(c, 0) for c in files[0]]
        if comp and len(names) == 1 and form % 2 == 1:
            attrs["js"] = names[0] if form % 4 == 1 else names[0].encode()
        else:
            attrs["js"] = names
    css = {KEYS[k]: [fname(c, k) for c in files[k]] for k in files if k > 0}
    if css:
        # NB: an EMPTY list form (`css = []`) is not normalised by the implementation and makes `.media` raise
        # AttributeError inside django.forms.Media; kept out of the generated domain (reported as an observation).
        if comp and list(css) == ["all"] and css["all"] and form % 3 == 1:
            attrs["css"] = css["all"][0] if (len(css["all"]) == 1 and form % 2 == 1) else css["all"]
        elif comp and form % 3 == 2:
            attrs["css"] = {k: (v[0] if len(v) == 1 else v) for k, v in css.items()}
        else:
            attrs["css"] = css
    return type("Media", (), attrs)


def build(table, form=0):
    """Create the classes.  Returns (classes, None) or (classes_so_far, (index, exception class name))."""
    from django_components import Component
    import typing
    classes = [object, typing.Generic, Component]
    for i, spec in enumerate(table):
        attrs = {"__module__": "verif_c16_rel" if spec["rel"] else "verif_c16_plain"}
        if spec["media"] is not None:
            attrs["Media"] = media_class(spec, classes, form + i)
        for pair, (inl, fil) in spec["pairs"].items():
            if inl is not None:
                attrs[pair] = vstr(inl)
            if fil is not None:
                attrs[pair + "_file"] = apath(pair, fil)
        try:
            cls = type("C16_%d" % (NBUILTIN + i), tuple(classes[b] for b in spec["bases"]), attrs)
        except Exception as e:  # noqa
            return classes, (NBUILTIN + i, type(e).__name__)
        classes.append(cls)
    return classes, None


def run_history(table, hist, form=0):
    """hist: list of (table index, attr, on_instance).  Fresh classes; returns (outcome, warned)."""
    from django.forms.widgets import MediaOrderConflictWarning
    with warnings.catch_warnings(record=True) as w:
        warnings.simplefilter("always")
        classes, err = build(table, form)
        if err is not None:
            return ("create_error", err[0], err[1]), False
        outs = []
        for (ci, attr, inst) in hist:
            target = classes[ci]() if inst else classes[ci]
            try:
                if attr == "media":
                    m = target.media
                    d = {0: [fcode(x) for x in m._js]}
                    for medium, lst in m._css.items():
                        d[KEYS.index(medium)] = [fcode(x) for x in lst]
                    outs.append(("media", {k: v for k, v in d.items() if v}))
                else:
                    v = getattr(target, attr)
                    outs.append(("attr", vcode(v)))
            except Exception as e:  # noqa
                outs.append(("err", type(e).__name__))
        warned = any(issubclass(x.category, MediaOrderConflictWarning) for x in w)
    return ("ok", outs), warned


# ---------------------------------------------------------------------------------------------
# the statement, evaluated directly (independent of the Coq model)
# ---------------------------------------------------------------------------------------------
def full_table(table):
    blt = [{"bases": [], "comp": False}, {"bases": [0], "comp": False}, {"bases": [1], "comp": True}]
    for b in blt:
        b.update(rel=False, media=None, pairs={})
    return blt + table


def selected(spec):
    m = spec["media"]
    if m is None or m["extend"] is True:
        return spec["bases"]
    return [] if m["extend"] is False else m["extend"]


def contributors(ft, c):
    out, todo = [], [c]
    while todo:
        x = todo.pop()
        if x not in out:
            out.append(x)
            todo.extend(selected(ft[x]))
    return out


def declared(ft, c, k):
    m = ft[c]["media"]
    return list(m["files"].get(k, [])) if m else []


def consistent(lists):
    """all lists are subsequences of one duplicate-free list <=> each duplicate-free and union of chains acyclic"""
    succ, nodes = {}, set()
    for l in lists:
        if len(set(l)) != len(l):
            return False
        nodes.update(l)
        for a, b in zip(l, l[1:]):
            succ.setdefault(a, set()).add(b)
    state = {}

    def dfs(n):
        state[n] = 1
        for s in succ.get(n, ()):
            if state.get(s) == 1 or (s not in state and not dfs(s)):
                return False
        state[n] = 2
        return True
    return all(dfs(n) for n in sorted(nodes) if n not in state)


def is_subseq(l, o):
    it = iter(o)
    return all(x in it for x in l)


def py_mro(ft, c):
    """C3 via Python itself on plain replica classes; None = TypeError."""
    try:
        cl = []
        for i, s in enumerate(ft[:c + 1]):
            cl.append(object if i == 0 else type("R%d" % i, tuple(cl[b] for b in s["bases"]), {}))
        return [cl.index(x) for x in cl[c].__mro__]
    except TypeError:
        return None


def expected_attr(ft, c, attr):
    pair, fm = (attr[:-5], True) if attr.endswith("_file") else (attr, False)
    for b in py_mro(ft, c):
        s = ft[b]
        if not s["comp"]:
            continue
        inl, fil = s["pairs"].get(pair, (None, None))
        if inl is None and fil is None:
            continue
        if fm:
            return None if fil is None else 80 + fil
        return (50 + PAIRS.index(pair) * 10 + fil) if fil is not None else inl
    return None


def expected_create_error(ft):
    for i, s in enumerate(ft):
        if py_mro(ft, i) is None:
            return (i, "TypeError")
        if s["comp"] and any(a is not None and b is not None for a, b in s["pairs"].values()):
            return (i, "ImproperlyConfigured")
    return None


def has_rel(table):
    return any(s["rel"] and s["media"] and any(REL_FILE in l for l in s["media"]["files"].values()) for s in table)


def oracle(chk, table, hist, outcome, warned, seen):
    """Direct property predicates on one observed history.  `seen`: (class, attr) -> first observed result."""
    ft = full_table(table)
    rep = {"table": table, "history": hist, "observed": outcome}
    exp_err = expected_create_error(ft)
    if outcome[0] == "create_error":
        if exp_err != (outcome[1], outcome[2]):
            chk.fail("c16-class-creation", "class creation raised %s for class %d; the statement demands %r" % (outcome[2], outcome[1], exp_err), rep)
        return
    if exp_err is not None:
        chk.fail("c16-both-members-accepted" if exp_err[1] == "ImproperlyConfigured" else "c16-class-creation",
                 "class %d defines both members of a pair (or has no MRO) but was created" % exp_err[0], rep)
        return
    for (ci, attr, inst), o in zip(hist, outcome[1]):
        if o[0] == "err":
            chk.fail("c16-access-raises", "access %s on class %d raised %s" % (attr, ci, o[1]), rep)
            continue
        key = (ci, attr)
        canon = json.dumps(o, sort_keys=True)
        if key in seen and seen[key][0] != canon:
            chk.fail(T_RELPATH if has_rel(table) else "c16-access-order-dependence",
                     "result of %s on class %d depends on the access history: %s vs %s" % (attr, ci, seen[key][0], canon),
                     dict(rep, other_history=seen[key][1]))
        seen.setdefault(key, (canon, hist))
        if attr != "media":
            exp = expected_attr(ft, ci, attr)
            if o[1] != exp:
                chk.fail("c16-attr-nearest-pair", "%s of class %d is %r, nearest defining class says %r" % (attr, ci, o[1], exp), rep)
            continue
        contrib = contributors(ft, ci)
        for k in range(len(KEYS)):
            got = o[1].get(k, o[1].get(str(k), []))
            # a file declared by a component class whose module has that file beside it appears in its
            # component-relative form (the class is resolved before its Media is read, whatever was accessed first)
            lists = [[x + REL_OFF if (x == REL_FILE and ft[d]["rel"] and ft[d]["comp"]) else x for x in declared(ft, d, k)]
                     for d in contrib]
            want = set(x for l in lists for x in l)
            if set(got) != want or len(set(got)) != len(got):
                chk.fail("c16-file-set", "files of class %d (%s) are %r, declared by own class + selected bases: %r" % (ci, KEYS[k], got, sorted(want)), rep)
            elif consistent(lists):
                for d, l in zip(contrib, lists):
                    if not is_subseq(l, got):
                        chk.fail(T_FLATTEN if warned else "c16-order",
                                 "declared lists %r are mutually consistent but the result %r of class %d (%s) breaks the order %r declared by class %d"
                                 % ([x for x in lists if x], got, ci, KEYS[k], l, d), rep)
                        break


# ---------------------------------------------------------------------------------------------
# Coq terms
# ---------------------------------------------------------------------------------------------
def pair_term(pair, p):
    inl, fil = p
    return "(%s, %s)" % (copt(inl, cN), copt(fil, lambda f: "(%s, %s)" % (cN(80 + f), cN(50 + PAIRS.index(pair) * 10 + f))))


def cls_term(s):
    m = s["media"]
    if m is None:
        mt = "None"
    else:
        e = m["extend"]
        et = "ExtAll" if e is True else "ExtNone" if e is False else "(ExtList %s)" % clist([cnat(b) for b in e])
        mt = "(Some (MDecl %s %s))" % (et, clist(["(%s, %s)" % (cN(k), clist([cN(c) for c in l])) for k, l in sorted(m["files"].items())]))
    rel = "[(%s, %s)]" % (cN(REL_FILE), cN(REL_FILE + REL_OFF)) if (s["rel"] and s["comp"]) else "[]"
    ps = [pair_term(p, s["pairs"].get(p, (None, None))) for p in PAIRS]
    return "(Cls %s %s %s %s %s %s %s)" % (clist([cnat(b) for b in s["bases"]]), cbool(s["comp"]), mt, rel, ps[0], ps[1], ps[2])


def access_term(a):
    ci, attr, _ = a
    if attr == "media":
        return "AMedia %s" % cnat(ci)
    pair, fm = (attr[:-5], True) if attr.endswith("_file") else (attr, False)
    return "AAttr %s %s %s" % (cnat(ci), {"template": "PTpl", "js": "PJs", "css": "PCss"}[pair], cbool(fm))


def outcome_term(outcome):
    if outcome[0] == "create_error":
        e = {"TypeError": "ETypeError", "ImproperlyConfigured": "EImproperlyConfigured"}.get(outcome[2])
        if e is None:
            return None
        return "(OCreateError %s %s)" % (cnat(outcome[1]), e)
    obs = []
    for o in outcome[1]:
        if o[0] == "media":
            obs.append("OMedia %s" % clist(["(%s, %s)" % (cN(int(k)), clist([cN(c) for c in l])) for k, l in sorted(o[1].items())]))
        elif o[0] == "attr":
            obs.append("OAttr %s" % copt(o[1], cN))
        else:
            return None
    return "(OOk %s)" % clist(obs)


def case_term(table, hist, outcome):
    ot = outcome_term(outcome)
    if ot is None:
        return None
    return "(%s, %s, %s, %s)" % (clist([cls_term(s) for s in full_table(table)]), clist([access_term(a) for a in hist]),
                                 clist([cN(k) for k in range(len(KEYS))]), ot)


# ---------------------------------------------------------------------------------------------
# generators
# ---------------------------------------------------------------------------------------------
def mk(bases, media=None, comp=True, rel=False, pairs=None):
    return {"bases": list(bases), "comp": comp, "rel": rel, "media": media, "pairs": pairs or {}}


def md(extend=True, js=None, **css):
    files = {}
    if js is not None:
        files[0] = list(js)
    for medium, l in css.items():
        files[KEYS.index(medium)] = list(l)
    return {"extend": extend, "files": files}


# witnesses of the defects (fixed and open) live in corpus/C16/*.json; a few more regression cases here
CORPUS_LITERAL = [
    ("both-members", [mk([2], pairs={"js": (1, 1)})], []),
    ("pair-nearest", [mk([2], pairs={"js": (1, None), "css": (None, 1)}), mk([3], pairs={"js": (None, 2), "css": (0, None)}), mk([4])],
     [(5, "js", False), (5, "js_file", False), (5, "css", True), (5, "css_file", False), (3, "css", False)]),
]


def shapes(n):
    """All base-list choices for n user classes: each class takes 1..2 bases among Component + earlier user classes."""
    # build front to back
    def rec2(i, acc):
        if i == n:
            yield list(acc)
            return
        cands = [2] + list(range(NBUILTIN, NBUILTIN + i))
        opts = [[b] for b in cands] + [list(p) for p in itertools.permutations(cands, 2) if 2 not in p or p[1] == 2]
        for o in opts:
            yield from rec2(i + 1, acc + [o])
    return rec2(0, [])


JS_LISTS = [[], [1], [2], [1, 2], [2, 1]]


def rand_list(rng, universe, maxlen=3, dup=0.05):
    n = rng.choice([0, 1, 1, 2, 2, 3][:maxlen + 3])
    l = rng.sample(universe, min(n, len(universe)))
    if l and rng.random() < dup:
        l.insert(rng.randrange(len(l) + 1), rng.choice(l))
    return l


def rand_media(rng, idx, universe, p_none=0.25):
    r = rng.random()
    if r < p_none:
        return None
    if r < p_none + 0.07:
        return md(True)
    e = rng.random()
    if e < 0.55:
        ext = True
    elif e < 0.75:
        ext = False
    else:
        cands = list(range(2, idx))
        ext = rng.sample(cands, rng.randint(0, min(2, len(cands))))
        if ext and rng.random() < 0.1:
            ext.append(ext[0])
    files = {}
    if rng.random() < 0.9:
        files[0] = rand_list(rng, universe)
    if rng.random() < 0.5:
        files[1] = rand_list(rng, universe)
    if rng.random() < 0.25:
        files[2] = rand_list(rng, universe)
    return {"extend": ext, "files": files}


def rand_pairs(rng):
    ps = {}
    for p in PAIRS:
        r = rng.random()
        if r < 0.55:
            continue
        if r < 0.78:
            ps[p] = (rng.choice([0, 1, 2, 3]), None)
        elif r < 0.97:
            ps[p] = (None, rng.choice([1, 2]))
        else:
            ps[p] = (rng.choice([0, 1]), rng.choice([1, 2]))
    return ps


def rand_table(rng, n, universe, rel_p=0.0, mixin_p=0.1, attrs=True):
    table = []
    for i in range(n):
        idx = NBUILTIN + i
        if rng.random() < mixin_p:
            table.append(mk([0], rand_media(rng, idx, universe, 0.3), comp=False))
            continue
        cands = [2] + list(range(NBUILTIN, idx))
        nb = rng.choice([1, 1, 1, 2, 2, 3])
        bases = rng.sample(cands, min(nb, len(cands)))
        if rng.random() < 0.85:
            bases.sort(reverse=True)          # mostly MRO-consistent orders (derived first)
        if not any(b == 2 or table[b - NBUILTIN]["comp"] for b in bases):
            bases.append(2)
        table.append(mk(bases, rand_media(rng, idx, universe), rel=rng.random() < rel_p,
                        pairs=rand_pairs(rng) if attrs and rng.random() < 0.6 else {}))
    return table


ATTRS = ["template", "template_file", "js", "js_file", "css", "css_file"]


def histories(rng, table, nrand, exhaustive_media=False):
    n = len(table)
    idx = [NBUILTIN + i for i in range(n) if table[i]["comp"]] or [2]
    hs = [[(c, "media", False) for c in idx], [(c, "media", False) for c in reversed(idx)]]
    if exhaustive_media:
        hs = [[(c, "media", False) for c in p] for p in itertools.permutations(idx)]
    for _ in range(nrand):
        h = []
        for _ in range(rng.randint(2, 2 * n + 2)):
            c = rng.choice(idx + [2] if rng.random() < 0.05 else idx)
            a = "media" if rng.random() < 0.5 else rng.choice(ATTRS)
            h.append((c, a, rng.random() < 0.25))
        # end by reading media of everything so that the independence oracle always has something to compare
        h += [(c, "media", rng.random() < 0.25) for c in rng.sample(idx, len(idx))]
        hs.append(h)
    return hs


def gen_tables(chk, thorough):
    rng = chk.rng
    # 1. every shape of <= 3 user classes, js lists over two files exhaustively on the three classes, extend=True
    for n in (1, 2, 3):
        for sh in shapes(n):
            combos = list(itertools.product(JS_LISTS, repeat=n))
            if n == 3 and not thorough:
                combos = rng.sample(combos, 40)
            for ls in combos:
                yield [mk(b, md(True, l)) for b, l in zip(sh, ls)], "exh-shape%d" % n, True
    # 2. every shape of 3 classes x extend modes of the last two classes, files random over 3 names
    exts = [True, False, "list"]
    for sh in shapes(3):
        for e1, e2 in itertools.product(exts, repeat=2):
            for _ in range(3 if thorough else 1):
                t = []
                for i, (b, e) in enumerate(zip(sh, [True, e1, e2])):
                    if e == "list":
                        cands = list(range(NBUILTIN, NBUILTIN + i))
                        e = rng.sample(cands, rng.randint(0, len(cands)))
                    m = md(e, rand_list(rng, [1, 2, 3]), all=rand_list(rng, [1, 2, 3]))
                    if rng.random() < 0.15:
                        m = None
                    t.append(mk(b, m))
                yield t, "exh-extend3", False
    # 3. shapes of 4 classes (sampled in quick), random lists
    sh4 = list(shapes(4))
    for sh in (sh4 if thorough else rng.sample(sh4, 150)):
        yield [mk(b, rand_media(rng, NBUILTIN + i, [1, 2, 3], 0.2)) for i, b in enumerate(sh)], "shape4", False
    # 4. random tables: mixins, attrs, dup entries, relative files
    for _ in range(6000 if thorough else 700):
        n = rng.choice([2, 3, 3, 4, 4] + ([5, 6] if thorough else [5]))
        yield rand_table(rng, n, rng.choice([[1, 2], [1, 2, 3], [1, 2, 3, 4]])), "random%d" % n, False
    for _ in range(1500 if thorough else 250):
        n = rng.choice([1, 2, 3, 4])
        yield rand_table(rng, n, [1, 2, 3], rel_p=0.6), "random-relfiles", False


# ---------------------------------------------------------------------------------------------
def load_corpus():
    cases = [(n, t, [h]) for n, t, h in CORPUS_LITERAL]
    if os.path.isdir(CORPUS):
        for f in sorted(os.listdir(CORPUS)):
            if f.endswith(".json"):
                r = json.load(open(os.path.join(CORPUS, f)))
                hs = r.get("histories") or [r["history"]]
                cases.append((f[:-5], r["table"], [[tuple(a) for a in h] for h in hs]))
    return cases


def fix_table(table):
    """JSON round trip: int keys of files, tuples of pairs."""
    for s in table:
        if s.get("media"):
            s["media"]["files"] = {int(k): v for k, v in s["media"]["files"].items()}
        s["pairs"] = {p: tuple(v) for p, v in s.get("pairs", {}).items()}
    return table


def nontrivial(table, outcome):
    """Exercises the mechanism: some class gets files from >= 2 contributing classes with own Media."""
    ft = full_table(table)
    for c in range(NBUILTIN, len(ft)):
        if sum(1 for d in contributors(ft, c) if ft[d]["media"] and any(ft[d]["media"]["files"].values())) >= 2:
            return True
    return False


def run(tier, seed):
    import djsetup
    djsetup.setup()
    setup_files()
    chk = C.Check("C16", tier, seed)
    chk.prove()
    thorough = tier == "thorough"
    terms, cases = [], []

    def one_table(table, kind, hs):
        seen = {}
        for hi, h in enumerate(hs):
            outcome, warned = run_history(table, h, form=hi + len(table))
            oracle(chk, table, h, outcome, warned, seen)
            nt = outcome[0] == "ok" and nontrivial(table, outcome)
            chk.count((json.dumps(table, sort_keys=True), tuple(h)), nt, kind=kind,
                      sample={"table": table, "history": h, "observed": outcome} if (nt and kind.startswith("random") and len(table) >= 3) else None)
            t = case_term(table, h, outcome)
            if t is not None:
                terms.append(t)
                cases.append({"table": table, "history": h, "observed": outcome})
            if outcome[0] == "create_error":
                break

    with djsetup.components_settings(dirs=[COMPS]):
        for name, table, hs in load_corpus():
            one_table(fix_table(table), "corpus", hs)
        for table, kind, exh in gen_tables(chk, thorough):
            n = len(table)
            hs = histories(chk.rng, table, 1 if kind.startswith("exh") else 2, exhaustive_media=exh and n <= 3 and (thorough or n <= 2))
            one_table(table, kind, hs)
    # check_media = the model variant describing /repo now (current_flatten = false, current_eager = true in Media/Model.v).
    # VERIF_C16_VARIANT="<flatten>,<eager>" (e.g. "true,false" = the code before a5a18f6/488c746) is only for experiments
    # on a scratch copy; the registered check never sets it.
    variant = os.environ.get("VERIF_C16_VARIANT")
    check_fn = "check_media" if not variant else "check_variant %s %s" % tuple(variant.split(","))
    bad = C.coq_eval_cases("C16", "media", IMPORTS, "list cls * list access * list N * outcome", check_fn, terms, shard=1500)
    for i in bad[:20]:
        chk.disagree("Media model != implementation", cases[i])
        if os.environ.get("VERIF_DEBUG"):
            print("DISAGREE", json.dumps(cases[i]))
            print("   term:", terms[i])
    chk.assumptions = [
        "classes are created after their bases and after the classes named in Media.extend (Python guarantees it)",
        "Media entries are plain path strings (str / bytes / list / dict forms are normalised by the implementation itself); "
        "SafeString / callable / PathLike entries and a Media class inheriting from another Media class are outside the model",
        "Media / template / js / css are not reassigned after class creation; single-threaded use",
        "django.forms.Media.merge, graphlib.TopologicalSorter and Python's C3 linearisation are modelled (differentially tested here), not verified",
    ]
    return chk.finish(
        rule="every inheritance shape of <= 3 user classes (1-2 bases each, incl. inconsistent MROs) x js lists over 2 files (exhaustive; n=3 sampled in quick) "
             "x %s media access orders; every 3-class shape x extend in {True, False, list}^2; %s 4-class shapes; seeded random tables of 2-%d classes "
             "(mixins, no/empty Media, str/bytes/list/dict forms, duplicate entries, extend lists, template/js/css and *_file pairs incl. both-members, "
             "Media files lying beside the component module) x random histories of .media/.template/.js/.css/*_file on classes and instances. "
             "Each history runs on fresh class objects. Non-trivial = some class receives files from >= 2 classes with a non-empty own Media. "
             "Distinct = distinct (table, history)." % ("all" if thorough else "all (n<=2) / forward+reverse", "all" if thorough else "150 sampled", 6 if thorough else 5),
        explanation="theorems of Props/C16.v re-checked by coqc; model (work-stack + memo + Media.__add__/merge/graphlib + C3 + pair rule) evaluated by vm_compute "
                    "inside Coq on every history and compared with the observed _js/_css/attribute values/creation errors; independent Python oracles: file set = "
                    "own + selected bases, no duplicates, order consistent with every declared list when those are mutually consistent, results independent of "
                    "the access history, attribute from the nearest defining pair in Python's own MRO, both members rejected.",
        extra_trusted=["modelled, not verified: django.forms.widgets.Media (__add__, merge), graphlib.TopologicalSorter.static_order, type.__new__ (C3 MRO), "
                       "os.path.isfile-based resolution of component-relative paths (a per-class path map in the model)"])


def replay(path):
    import djsetup
    djsetup.setup()
    setup_files()
    r = json.load(open(path))
    case = r.get("case", r)
    print(json.dumps(r, indent=1)[:4000])
    if "table" in case:
        table = fix_table(case["table"])
        with djsetup.components_settings(dirs=[COMPS]):
            for key in ("history", "other_history"):
                if key in case:
                    h = [tuple(a) for a in case[key]]
                    print(key, "->", run_history(table, h))
    return 0
