#!/usr/bin/env python3
"""Markdown table of the seeded changes and what our checks did with them (from seeded/*/meta.json)."""
import glob
import json
import os
rows = []
for f in sorted(glob.glob("/verif/seeded/*/meta.json")):
    m = json.load(open(f))
    sid = m["seed_id"]
    notes = ""
    p = os.path.join(os.path.dirname(f), "SEED_NOTES.md")
    conf = (m.get("confirmed") or {}).get("ok")
    hist = m.get("history", [])
    st = m.get("status", "")
    if st.startswith("obsolete"):
        # the seeded change no longer breaks the property on the current /repo HEAD (a later fix: commit removed what it relied on)
        before = next((h for h in hist if h.get("caught")), None) or next((c for c in m.get("checks", {}).values() if c.get("caught")), None)
        rows.append("| %s | %s | %s | at its base commit: yes; on /repo HEAD the change no longer breaks the property | %s | %s |" % (
            sid, m["property"], m.get("files_changed", "").split(",")[0],
            "obsolete (before the fix: %s)" % ("**caught**" if before else "not run"), st[:400].replace("|", "/")))
        continue
    for prop, c in sorted(m.get("checks", {}).items()):
        fv = c.get("first_violation") or {}
        how = fv.get("kind", "")
        trig = fv.get("trigger") or fv.get("theorem_or_file") or ""
        first = "; first run MISSED, caught after strengthening" if any(h.get("property") == prop and h.get("caught") is False for h in hist) and c["caught"] else ""
        rows.append("| %s | %s | %s | %s | %s | %s%s |" % (sid, prop, m.get("files_changed", "").split(",")[0], "yes" if conf else "NO",
                                                     "**caught**" if c["caught"] else "MISSED", (how + " " + str(trig))[:90], first))
    if not m.get("checks"):
        rows.append("| %s | %s | %s | %s | not run yet | |" % (sid, m["property"], m.get("files_changed", "").split(",")[0], "yes" if conf else "NO"))
print("| seed | check | change | confirmed (demo flips, suite 514/514) | result (quick tier) | how |")
print("|---|---|---|---|---|---|")
print("\n".join(rows))
