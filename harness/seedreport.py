#!/usr/bin/env python3
"""Markdown table of the seeded changes and what our checks did with them (from seeded/*/meta.json)."""
import glob
import json
import os
rows = []
for f in sorted(glob.glob("/verif/seeded/*/meta.json")):
    m = json.load(open(f))
    sid = m["seed_id"]
    notes = ""
    p = os.path.join(os.path.dirname(f), "SEED_NOTES.md")
    conf = (m.get("confirmed") or {}).get("ok")
    hist = m.get("history", [])
    for prop, c in sorted(m.get("checks", {}).items()):
        fv = c.get("first_violation") or {}
        how = fv.get("kind", "")
        trig = fv.get("trigger") or fv.get("theorem_or_file") or ""
        first = "; first run MISSED, caught after strengthening" if any(h.get("property") == prop and h.get("caught") is False for h in hist) and c["caught"] else ""
        rows.append("| %s | %s | %s | %s | %s | %s%s |" % (sid, prop, m.get("files_changed", "").split(",")[0], "yes" if conf else "NO",
                                                     "**caught**" if c["caught"] else "MISSED", (how + " " + str(trig))[:90], first))
    if not m.get("checks"):
        rows.append("| %s | %s | %s | %s | not run yet | |" % (sid, m["property"], m.get("files_changed", "").split(",")[0], "yes" if conf else "NO"))
print("| seed | check | change | confirmed (demo flips, suite 514/514) | result (quick tier) | how |")
print("|---|---|---|---|---|---|")
print("\n".join(rows))
