"""Shared by c12.py and c02.py: printers of the tag-parser AST as Coq terms, input generators."""
import itertools

import common as C
from common import cN, cstr, clist, copt, cbool

IMPORTS = "From DJC Require Import Lib.Base TagParse.Model."

SPREAD = {"...": "SpDots", "**": "SpStar2", "*": "SpStar"}
STYPE = {"simple": "TSimple", "list": "TList", "dict": "TDict"}
ERRK = {"TemplateSyntaxError": "TemplateSyntaxError", "KeyError": "KeyError", "IndexError": "IndexError",
        "RecursionError": "RecursionError"}


class Unrepresentable(Exception):
    pass


def errkind(name):
    return ERRK.get(name, "OtherError")


def c1char(s):
    if not isinstance(s, str) or len(s) != 1:
        raise Unrepresentable("expected a 1-character string, got %r" % (s,))
    return cN(ord(s))


def cspread(s):
    if s is None:
        return "None"
    if s not in SPREAD:
        raise Unrepresentable("spread %r" % (s,))
    return "(Some %s)" % SPREAD[s]


def part_term(p):
    return "(mkpart %s %s %s %s %s)" % (cstr(p.value), copt(p.quoted, c1char), cspread(p.spread),
                                        cbool(p.translation), copt(p.filter, c1char))


def node_term(v):
    from django_components.util.tag_parser import TagValue, TagValueStruct
    if isinstance(v, TagValue):
        return "(NVal %s)" % clist([part_term(p) for p in v.parts])
    if isinstance(v, TagValueStruct):
        if v.meta == {}:
            meta = "None"
        elif list(v.meta.keys()) == ["expects_key"] and isinstance(v.meta["expects_key"], bool):
            meta = "(Some %s)" % cbool(v.meta["expects_key"])
        else:
            raise Unrepresentable("meta %r" % (v.meta,))
        return "(NStruct %s %s %s %s)" % (STYPE[v.type], cspread(v.spread), clist([node_term(e) for e in v.entries]), meta)
    raise Unrepresentable("node %r" % (v,))


def attr_term(a):
    return "(mkattr %s %s %s)" % (copt(a.key, cstr), node_term(a.value), cN(a.start_index))


def node_depth(v):
    """Iterative nesting depth (the recursive dataclass methods are what overflows)."""
    from django_components.util.tag_parser import TagValueStruct
    best, todo = 0, [(v, 1)]
    while todo:
        n, d = todo.pop()
        if isinstance(n, TagValueStruct):
            best = max(best, d)
            for e in n.entries:
                todo.append((e, d + 1))
    return best


def bracket_depth(text):
    d = m = 0
    for ch in text:
        if ch in "[{":
            d += 1
            m = max(m, d)
        elif ch in "]}":
            d = max(0, d - 1)
    return m


# ---------------------------------------------------------------------------------------------
# generators
# ---------------------------------------------------------------------------------------------
ATOMS = ['"', "'", "[", "]", "{", "}", ":", ",", "|", "=", "*", "...", "_(", ")", "\\", " ", "a", "/"]
EXTRA_ATOMS = ["**", "\n", "\t", "%", "b", "1", "-", "@", "#", ".", "_", "(", "{{", "}}", "{%", "%}", "é", "\x0b", "\xa0"]


def exhaustive(maxlen, atoms=ATOMS):
    for L in range(0, maxlen + 1):
        for seq in itertools.product(atoms, repeat=L):
            yield "".join(seq)


def random_string(rng, maxlen, atoms=None):
    atoms = atoms or (ATOMS + EXTRA_ATOMS)
    return "".join(rng.choice(atoms) for _ in range(rng.randint(1, maxlen)))


# --- documented grammar -------------------------------------------------------------------------
IDENTS = ["a", "b", "val", "my_var", "x1", "user.name", "items.0"]
KEYS = ["key", "k2", "data-id", "@click", "attrs:class", ":href", "x.y", "#id", "v-on:click", "class"]
FILTERS = ["upper", "lower", "default", "add", "join", "yesno"]
STRS = ["", "a", "hello world", "it's", 'say "hi"', "a=b", "[1, 2]", "{k: v}", "x|y:z", "*", "...", "%}", "{{ v }}", "{% lorem 2 w %}",
        "{# c #}", "a, b", "_(", " lead", "trail ", "\\", "été", "tab\there", "nl\nx"]


def gen_string(rng, quote=None):
    s = rng.choice(STRS)
    q = quote or rng.choice("\"'")
    s = s.replace("\\", "\\\\").replace(q, "\\" + q)
    return q + s + q


def gen_leaf(rng, allow_filter=True):
    k = rng.random()
    if k < 0.3:
        base = rng.choice(IDENTS)
    elif k < 0.45:
        base = str(rng.choice([0, 1, 42, -3, 2.5]))
    elif k < 0.85:
        base = gen_string(rng)
    elif k < 0.95:
        base = "_(" + gen_string(rng) + ")"
    else:
        base = rng.choice(["True", "None", "False"])
    if allow_filter:
        while rng.random() < 0.25:
            base += "|" + rng.choice(FILTERS)
            if rng.random() < 0.5:
                base += ":" + gen_leaf(rng, allow_filter=False)
    return base


class Layout:
    """Chooses every insignificant whitespace run; canonical=True reproduces serialize()."""

    def __init__(self, rng, canonical=False, newlines=True):
        self.rng, self.canonical = rng, canonical
        self.ws = [" ", "  ", "\t"] + (["\n", " \n "] if newlines else [])

    def opt(self, canon=""):
        if self.canonical:
            return canon
        return self.rng.choice(["", "", " ", self.rng.choice(self.ws)])

    def sep(self):
        if self.canonical:
            return " "
        return self.rng.choice([" ", " ", self.rng.choice(self.ws) + self.rng.choice(["", " "])])


def gen_value(rng, lay, depth, ctx="attr"):
    """Value in documented syntax; ctx in attr | list | dict_value | dict_key."""
    k = rng.random()
    if depth <= 0 or k < 0.5 or ctx == "dict_key":
        leaf = gen_leaf(rng, allow_filter=True)
        if ctx == "dict_key":
            # a dict key must not use the filter-argument colon
            leaf = gen_leaf(rng, allow_filter=False)
            if rng.random() < 0.2:
                leaf += lay.opt() + "|" + lay.opt() + rng.choice(FILTERS)
            return leaf
        if not lay.canonical and "|" in leaf and rng.random() < 0.3 and not ('"' in leaf or "'" in leaf):
            leaf = leaf.replace("|", lay.opt() + "|" + lay.opt()).replace(":", lay.opt() + ":" + lay.opt())
        return leaf
    if k < 0.78:
        n = rng.randint(0, 4)
        items = []
        for _ in range(n):
            if rng.random() < 0.2:
                # whitespace after the spread token is documented for variables only (`[ * spread ]`)
                if rng.random() < 0.6:
                    items.append("*" + lay.opt() + rng.choice(IDENTS))
                else:
                    items.append("*" + gen_list_literal(rng, lay, depth - 1))
            else:
                items.append(gen_value(rng, lay, depth - 1, "list"))
        body = (lay.opt() + "," + lay.opt(" ")).join(items)
        trail = "" if (lay.canonical or not items) else rng.choice(["", "", ",", " , "])
        return "[" + lay.opt() + body + trail + lay.opt() + "]"
    n = rng.randint(0, 3)
    items = []
    for _ in range(n):
        if rng.random() < 0.2:
            if rng.random() < 0.6:
                items.append("**" + lay.opt() + rng.choice(IDENTS))
            else:
                items.append("**" + gen_dict_literal(rng, lay, depth - 1))
        else:
            items.append(gen_value(rng, lay, depth - 1, "dict_key") + lay.opt() + ":" + lay.opt(" ") + gen_value(rng, lay, depth - 1, "dict_value"))
    body = (lay.opt() + "," + lay.opt(" ")).join(items)
    trail = "" if (lay.canonical or not items) else rng.choice(["", "", ",", " , "])
    return "{" + lay.opt() + body + trail + lay.opt() + "}"


def gen_dict_literal(rng, lay, depth):
    for _ in range(20):
        v = gen_value(rng, lay, max(depth, 1), "attr")
        if v.startswith("{"):
            return v
    return "{}"


def gen_list_literal(rng, lay, depth):
    for _ in range(20):
        v = gen_value(rng, lay, max(depth, 1), "attr")
        if v.startswith("["):
            return v
    return "[]"


def gen_tag(rng, canonical=False, max_attrs=5, depth=2, name="component", flags=(), newlines=True):
    """A tag body in the documented syntax: name, positional values, key=value pairs, spreads, flags, `/`."""
    lay = Layout(rng, canonical, newlines)
    attrs = [name]
    for _ in range(rng.randint(0, max_attrs)):
        k = rng.random()
        if k < 0.4:
            attrs.append(rng.choice(KEYS) + "=" + gen_value(rng, lay, depth))
        elif k < 0.75:
            attrs.append(gen_value(rng, lay, depth))
        elif k < 0.9:
            attrs.append("..." + rng.choice(IDENTS + [gen_dict_literal(rng, lay, depth), gen_list_literal(rng, lay, depth)]))
        elif flags:
            attrs.append(rng.choice(flags))
    if rng.random() < 0.3:
        attrs.append("/")
    lead = "" if canonical else lay.opt()
    out = lead + attrs[0]
    for a in attrs[1:]:
        out += lay.sep() + a
    return out + ("" if canonical else lay.opt())


MUT_ATOMS = ATOMS + ["**", "\n", "%}", "{{", "\\\"", "\\'"]


def mutate(rng, s, n=None):
    s = list(s)
    for _ in range(n or rng.randint(1, 3)):
        k = rng.random()
        i = rng.randrange(len(s) + 1)
        if k < 0.4 and s:
            del s[min(i, len(s) - 1)]
        elif k < 0.8:
            s[i:i] = list(rng.choice(MUT_ATOMS))
        elif s:
            j = min(i, len(s) - 1)
            s[j] = rng.choice(MUT_ATOMS)
    return "".join(s)


# ---------------------------------------------------------------------------------------------
# "documented syntax" as a predicate on the parsed arguments (mirror of coq/TagParse/Spec.v: tok_ok, key_ok, body_ok,
# leaf_ok, val_ok, item_ok).  True iff the AST is the image (Spec.ast_val / ParseProofs.item_node) of some argument list
# of the documented grammar; the theorem serialize_reparse (Props/C12.v) covers exactly these ASTs.
# ---------------------------------------------------------------------------------------------
WSCH = " \t\n\r\f"
SPECIALS = "|:,]}[{='\"*()"
KEY_SPECIALS = "='\"|[{*"


def tok_ok(t):
    return bool(t) and t[0] not in "._" and not any(c in WSCH or c in SPECIALS for c in t)


def key_ok(k):
    return bool(k) and k[0] != ":" and not any(c in WSCH or c in KEY_SPECIALS for c in k) and "..." not in k


def body_ok(q, b):
    i = 0
    while i < len(b):
        x = b[i]
        if x == q:
            return False
        if x == "\\":
            if i + 1 >= len(b):
                return False
            i += 2 if b[i + 1] in (q, "\\") else 1
        else:
            i += 1
    return True


def _atom_ok(p):
    if p.quoted is not None:
        return p.quoted in ("'", '"') and body_ok(p.quoted, p.value)
    return not p.translation and tok_ok(p.value)


def leaf_doc(tv, spread, allow_args=True):
    """TagValue is a documented leaf carrying exactly the spread `spread` (None or the operator) on its head"""
    ps = tv.parts
    if not ps or ps[0].filter is not None or ps[0].spread != spread or not _atom_ok(ps[0]):
        return False
    if spread is not None and ps[0].translation:
        return False
    prev_pipe = False
    for p in ps[1:]:
        if p.spread is not None:
            return False
        if p.filter == "|":
            if p.quoted is not None or p.translation or not tok_ok(p.value):
                return False
            prev_pipe = True
        elif p.filter == ":":
            if not prev_pipe or not allow_args or not _atom_ok(p):
                return False
            prev_pipe = False
        else:
            return False
    return True


def value_doc(v, spread, depth=0):
    """list / dict / leaf value in documented form with the given spread operator (None: no spread)"""
    from django_components.util.tag_parser import TagValue
    if isinstance(v, TagValue):
        return leaf_doc(v, spread)
    if v.spread != spread or v.meta != {} or depth > 100:
        return False
    if v.type == "list":
        for e in v.entries:
            if isinstance(e, TagValue):
                if not (leaf_doc(e, None) or leaf_doc(e, "*")):
                    return False
            elif e.type == "list":
                if not (value_doc(e, None, depth + 1) or value_doc(e, "*", depth + 1)):
                    return False
            elif not value_doc(e, None, depth + 1):
                return False
        return True
    if v.type == "dict":
        i, es = 0, v.entries
        while i < len(es):
            e = es[i]
            if isinstance(e, TagValue) and leaf_doc(e, "**", allow_args=False):
                i += 1
            elif not isinstance(e, TagValue) and e.type == "dict" and value_doc(e, "**", depth + 1):
                i += 1
            else:
                if not (isinstance(e, TagValue) and leaf_doc(e, None, allow_args=False)) or i + 1 >= len(es):
                    return False
                if not value_doc(es[i + 1], None, depth + 1):
                    return False
                i += 2
        return True
    return False


def attr_doc(a):
    from django_components.util.tag_parser import TagValue
    v = a.value
    if a.key is not None and not key_ok(a.key):
        return False
    if v.type == "simple":
        if v.meta != {} or len(v.entries) != 1 or not isinstance(v.entries[0], TagValue):
            return False
        if a.key is not None:
            return v.spread is None and leaf_doc(v.entries[0], None)
        return v.spread in (None, "...") and leaf_doc(v.entries[0], v.spread)
    if a.key is not None:
        return value_doc(v, None, 1)
    return value_doc(v, None, 1) or value_doc(v, "...", 1)


def documented_ast(attrs):
    """the parsed arguments are those of a tag in the documented syntax: a tag name (bare token) followed by documented items"""
    if not attrs:
        return False
    a0 = attrs[0]
    if a0.key is not None or a0.value.type != "simple" or a0.value.spread is not None or len(a0.value.entries) != 1:
        return False
    ps = getattr(a0.value.entries[0], "parts", None)
    if not ps or len(ps) != 1 or ps[0].quoted is not None or ps[0].spread or ps[0].translation or ps[0].filter or not tok_ok(ps[0].value):
        return False
    for i, a in enumerate(attrs[1:], 1):
        if not attr_doc(a):
            return False
        # a lone `/` is the self-closing slash (Spec.not_slash): last position, no key
        v = a.value
        if v.type == "simple" and len(v.entries[0].parts) == 1 and v.entries[0].parts[0].value == "/" and v.entries[0].parts[0].quoted is None:
            if a.key is not None or v.spread is not None or i != len(attrs) - 1:
                return False
    return True


def has_empty_key(attrs):
    """input class `=value` (an attribute that begins with `=`): parse_tag records the key "" and serialize() drops it"""
    return any(a.key == "" for a in attrs)


def has_odd_translation(attrs):
    """input class `_(` followed by something else than a quote: the next character is taken for the quote character, and the
    character after the "closing quote" for the `)` - the part is serialised as `_(<c>...<c>)`, a different text"""
    from django_components.util.tag_parser import TagValue
    todo = [a.value for a in attrs]
    while todo:
        v = todo.pop()
        if isinstance(v, TagValue):
            if any(p.translation and p.quoted not in ("'", '"') for p in v.parts):
                return True
        else:
            todo.extend(v.entries)
    return False


def has_special_in_token(attrs):
    """input class: some UNQUOTED value part is not a plain token (contains one of  | : , ] } [ { = ' " * ( )  or white space, is empty,
    or starts with `.` / `_`) - e.g. `** {val` (white space between a spread operator and a bracket makes `{val` a "variable"),
    `a"b`, `x=` ... ; serialize() writes the part verbatim and the text tokenises differently"""
    from django_components.util.tag_parser import TagValue
    todo = [a.value for a in attrs]
    while todo:
        v = todo.pop()
        if isinstance(v, TagValue):
            if any(p.quoted is None and not tok_ok(p.value) for p in v.parts):
                return True
        else:
            todo.extend(v.entries)
    return False
