"""Shared by c12.py and c02.py: printers of the tag-parser AST as Coq terms, input generators."""
import itertools

import common as C
from common import cN, cstr, clist, copt, cbool

IMPORTS = "From DJC Require Import Lib.Base TagParse.Model."

SPREAD = {"...": "SpDots", "**": "SpStar2", "*": "SpStar"}
STYPE = {"simple": "TSimple", "list": "TList", "dict": "TDict"}
ERRK = {"TemplateSyntaxError": "TemplateSyntaxError", "KeyError": "KeyError", "IndexError": "IndexError",
        "RecursionError": "RecursionError"}


class Unrepresentable(Exception):
    pass


def errkind(name):
    return ERRK.get(name, "OtherError")


def c1char(s):
    if not isinstance(s, str) or len(s) != 1:
        raise Unrepresentable("expected a 1-character string, got %r" % (s,))
    return cN(ord(s))


def cspread(s):
    if s is None:
        return "None"
    if s not in SPREAD:
        raise Unrepresentable("spread %r" % (s,))
    return "(Some %s)" % SPREAD[s]


def part_term(p):
    return "(mkpart %s %s %s %s %s)" % (cstr(p.value), copt(p.quoted, c1char), cspread(p.spread),
                                        cbool(p.translation), copt(p.filter, c1char))


def node_term(v):
    from django_components.util.tag_parser import TagValue, TagValueStruct
    if isinstance(v, TagValue):
        return "(NVal %s)" % clist([part_term(p) for p in v.parts])
    if isinstance(v, TagValueStruct):
        if v.meta == {}:
            meta = "None"
        elif list(v.meta.keys()) == ["expects_key"] and isinstance(v.meta["expects_key"], bool):
            meta = "(Some %s)" % cbool(v.meta["expects_key"])
        else:
            raise Unrepresentable("meta %r" % (v.meta,))
        return "(NStruct %s %s %s %s)" % (STYPE[v.type], cspread(v.spread), clist([node_term(e) for e in v.entries]), meta)
    raise Unrepresentable("node %r" % (v,))


def attr_term(a):
    return "(mkattr %s %s %s)" % (copt(a.key, cstr), node_term(a.value), cN(a.start_index))


def node_depth(v):
    """Iterative nesting depth (the recursive dataclass methods are what overflows)."""
    from django_components.util.tag_parser import TagValueStruct
    best, todo = 0, [(v, 1)]
    while todo:
        n, d = todo.pop()
        if isinstance(n, TagValueStruct):
            best = max(best, d)
            for e in n.entries:
                todo.append((e, d + 1))
    return best


def bracket_depth(text):
    d = m = 0
    for ch in text:
        if ch in "[{":
            d += 1
            m = max(m, d)
        elif ch in "]}":
            d = max(0, d - 1)
    return m


# ---------------------------------------------------------------------------------------------
# generators
# ---------------------------------------------------------------------------------------------
ATOMS = ['"', "'", "[", "]", "{", "}", ":", ",", "|", "=", "*", "...", "_(", ")", "\\", " ", "a", "/"]
EXTRA_ATOMS = ["**", "\n", "\t", "%", "b", "1", "-", "@", "#", ".", "_", "(", "{{", "}}", "{%", "%}", "é", "\x0b", "\xa0"]


def exhaustive(maxlen, atoms=ATOMS):
    for L in range(0, maxlen + 1):
        for seq in itertools.product(atoms, repeat=L):
            yield "".join(seq)


def random_string(rng, maxlen, atoms=None):
    atoms = atoms or (ATOMS + EXTRA_ATOMS)
    return "".join(rng.choice(atoms) for _ in range(rng.randint(1, maxlen)))


# --- documented grammar -------------------------------------------------------------------------
IDENTS = ["a", "b", "val", "my_var", "x1", "user.name", "items.0"]
KEYS = ["key", "k2", "data-id", "@click", "attrs:class", ":href", "x.y", "#id", "v-on:click", "class"]
FILTERS = ["upper", "lower", "default", "add", "join", "yesno"]
STRS = ["", "a", "hello world", "it's", 'say "hi"', "a=b", "[1, 2]", "{k: v}", "x|y:z", "*", "...", "%}", "{{ v }}", "{% lorem 2 w %}",
        "{# c #}", "a, b", "_(", " lead", "trail ", "\\", "été", "tab\there", "nl\nx"]


def gen_string(rng, quote=None):
    s = rng.choice(STRS)
    q = quote or rng.choice("\"'")
    s = s.replace("\\", "\\\\").replace(q, "\\" + q)
    return q + s + q


def gen_leaf(rng, allow_filter=True):
    k = rng.random()
    if k < 0.3:
        base = rng.choice(IDENTS)
    elif k < 0.45:
        base = str(rng.choice([0, 1, 42, -3, 2.5]))
    elif k < 0.85:
        base = gen_string(rng)
    elif k < 0.95:
        base = "_(" + gen_string(rng) + ")"
    else:
        base = rng.choice(["True", "None", "False"])
    if allow_filter:
        while rng.random() < 0.25:
            base += "|" + rng.choice(FILTERS)
            if rng.random() < 0.5:
                base += ":" + gen_leaf(rng, allow_filter=False)
    return base


class Layout:
    """Chooses every insignificant whitespace run; canonical=True reproduces serialize()."""

    def __init__(self, rng, canonical=False, newlines=True):
        self.rng, self.canonical = rng, canonical
        self.ws = [" ", "  ", "\t"] + (["\n", " \n "] if newlines else [])

    def opt(self, canon=""):
        if self.canonical:
            return canon
        return self.rng.choice(["", "", " ", self.rng.choice(self.ws)])

    def sep(self):
        if self.canonical:
            return " "
        return self.rng.choice([" ", " ", self.rng.choice(self.ws) + self.rng.choice(["", " "])])


def gen_value(rng, lay, depth, ctx="attr"):
    """Value in documented syntax; ctx in attr | list | dict_value | dict_key."""
    k = rng.random()
    if depth <= 0 or k < 0.5 or ctx == "dict_key":
        leaf = gen_leaf(rng, allow_filter=True)
        if ctx == "dict_key":
            # a dict key must not use the filter-argument colon
            leaf = gen_leaf(rng, allow_filter=False)
            if rng.random() < 0.2:
                leaf += lay.opt() + "|" + lay.opt() + rng.choice(FILTERS)
            return leaf
        if not lay.canonical and "|" in leaf and rng.random() < 0.3 and not ('"' in leaf or "'" in leaf):
            leaf = leaf.replace("|", lay.opt() + "|" + lay.opt()).replace(":", lay.opt() + ":" + lay.opt())
        return leaf
    if k < 0.78:
        n = rng.randint(0, 4)
        items = []
        for _ in range(n):
            if rng.random() < 0.2:
                # whitespace after the spread token is documented for variables only (`[ * spread ]`)
                if rng.random() < 0.6:
                    items.append("*" + lay.opt() + rng.choice(IDENTS))
                else:
                    items.append("*" + gen_list_literal(rng, lay, depth - 1))
            else:
                items.append(gen_value(rng, lay, depth - 1, "list"))
        body = (lay.opt() + "," + lay.opt(" ")).join(items)
        trail = "" if (lay.canonical or not items) else rng.choice(["", "", ",", " , "])
        return "[" + lay.opt() + body + trail + lay.opt() + "]"
    n = rng.randint(0, 3)
    items = []
    for _ in range(n):
        if rng.random() < 0.2:
            if rng.random() < 0.6:
                items.append("**" + lay.opt() + rng.choice(IDENTS))
            else:
                items.append("**" + gen_dict_literal(rng, lay, depth - 1))
        else:
            items.append(gen_value(rng, lay, depth - 1, "dict_key") + lay.opt() + ":" + lay.opt(" ") + gen_value(rng, lay, depth - 1, "dict_value"))
    body = (lay.opt() + "," + lay.opt(" ")).join(items)
    trail = "" if (lay.canonical or not items) else rng.choice(["", "", ",", " , "])
    return "{" + lay.opt() + body + trail + lay.opt() + "}"


def gen_dict_literal(rng, lay, depth):
    for _ in range(20):
        v = gen_value(rng, lay, max(depth, 1), "attr")
        if v.startswith("{"):
            return v
    return "{}"


def gen_list_literal(rng, lay, depth):
    for _ in range(20):
        v = gen_value(rng, lay, max(depth, 1), "attr")
        if v.startswith("["):
            return v
    return "[]"


def gen_tag(rng, canonical=False, max_attrs=5, depth=2, name="component", flags=(), newlines=True):
    """A tag body in the documented syntax: name, positional values, key=value pairs, spreads, flags, `/`."""
    lay = Layout(rng, canonical, newlines)
    attrs = [name]
    for _ in range(rng.randint(0, max_attrs)):
        k = rng.random()
        if k < 0.4:
            attrs.append(rng.choice(KEYS) + "=" + gen_value(rng, lay, depth))
        elif k < 0.75:
            attrs.append(gen_value(rng, lay, depth))
        elif k < 0.9:
            attrs.append("..." + rng.choice(IDENTS + [gen_dict_literal(rng, lay, depth), gen_list_literal(rng, lay, depth)]))
        elif flags:
            attrs.append(rng.choice(flags))
    if rng.random() < 0.3:
        attrs.append("/")
    lead = "" if canonical else lay.opt()
    out = lead + attrs[0]
    for a in attrs[1:]:
        out += lay.sep() + a
    return out + ("" if canonical else lay.opt())


MUT_ATOMS = ATOMS + ["**", "\n", "%}", "{{", "\\\"", "\\'"]


def mutate(rng, s, n=None):
    s = list(s)
    for _ in range(n or rng.randint(1, 3)):
        k = rng.random()
        i = rng.randrange(len(s) + 1)
        if k < 0.4 and s:
            del s[min(i, len(s) - 1)]
        elif k < 0.8:
            s[i:i] = list(rng.choice(MUT_ATOMS))
        elif s:
            j = min(i, len(s) - 1)
            s[j] = rng.choice(MUT_ATOMS)
    return "".join(s)
