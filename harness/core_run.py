"""Run a generated component program (genprog.py) on the implementation."""
import re
import sys

import genprog as G

_serial = [0]
COMMENT_RE = re.compile(r"<!-- _RENDERED [^>]*? -->")

ERRMAP = {
    "TemplateSyntaxError": "ETemplateSyntax", "KeyError": "EKey", "AttributeError": "EAttribute",
    "NotRegistered": "ENotRegistered", "RuntimeError": "ERuntime", "TypeError": "EType",
}


class _NoDefault:
    pass


def make_get_context_data(data, hook=None):
    def get_context_data(self, **kwargs):
        if hook is not None:
            hook("get_context_data", self)
        out = {}
        for x, d in data:
            if d[0] == "kw":
                out[x] = kwargs.get(d[1], "")
            elif d[0] == "str":
                out[x] = d[1]
            else:
                _, key, field, dflt = d
                if hook is not None:
                    hook("inject", self)
                if dflt is None:
                    out[x] = getattr(self.inject(key), field)
                else:
                    sentinel = _NoDefault()
                    r = self.inject(key, sentinel)
                    out[x] = dflt if r is sentinel else getattr(r, field)
        return out
    return get_context_data


def build(prog, dynamic=False, hook=None, extra_attrs=None):
    """Create and register the Component classes of `prog`. Returns (classes, cleanup)."""
    from django_components import Component, registry
    _serial[0] += 1
    classes = {}
    names = []
    for cname, cd in prog["lib"]:
        attrs = {
            "template": G.d_tpls(cd["tpl"], dynamic),
            "get_context_data": make_get_context_data(cd["data"], hook),
            "__module__": "verif_core_%d" % _serial[0],
        }
        if extra_attrs:
            attrs.update(extra_attrs(cname, cd))
        cls = type("Gen_%s" % cname, (Component,), attrs)
        if cname in registry._registry:
            registry.unregister(cname)
        registry.register(cname, cls)
        classes[cname] = cls
        names.append(cname)

    def cleanup():
        for n in names:
            try:
                registry.unregister(n)
            except Exception:
                pass
    return classes, cleanup


def canon(out):
    return COMMENT_RE.sub("", out)


class RenderTimeout(BaseException):
    pass


def _alarm(signum, frame):
    raise RenderTimeout()


def outcome_of(fn, limit=4.0):
    """Run one render under a wall-clock watchdog (a looping program is reported, not hung)."""
    import signal
    old = sys.getrecursionlimit()
    signal.signal(signal.SIGALRM, _alarm)
    signal.setitimer(signal.ITIMER_REAL, limit)
    try:
        return ("ok", canon(fn()))
    except RenderTimeout:
        return ("err", "other:Timeout")
    except RecursionError:
        return ("err", "other:RecursionError")
    except Exception as e:  # noqa
        return ("err", ERRMAP.get(type(e).__name__, "other:" + type(e).__name__))
    finally:
        signal.setitimer(signal.ITIMER_REAL, 0)
        sys.setrecursionlimit(old)


def py_value(v):
    return v


def ctx_fingerprint(ctx):
    return (len(ctx.dicts), sorted((k, repr(v)) for k, v in ctx.flatten().items()), len(ctx.render_context.dicts),
            [sorted(d.keys()) for d in ctx.dicts])


def render_page(prog, dynamic=False, ctx_report=None):
    """Variant 1/2: the page template rendered with Template.render(Context).
    ctx_report: optional list; receives (before, after) fingerprints of the caller's Context."""
    import djsetup
    from django.template import Context, Template
    with djsetup.components_settings(context_behavior=prog["mode"]):
        classes, cleanup = build(prog, dynamic)
        try:
            src = G.d_tpls(prog["page"], dynamic)

            def go():
                ctx = Context(dict(prog["ctx"]))
                before = ctx_fingerprint(ctx)
                try:
                    return Template(src).render(ctx)
                finally:
                    if ctx_report is not None:
                        ctx_report.append((before, ctx_fingerprint(ctx)))
            return outcome_of(go)
        finally:
            cleanup()


def render_page_after_other_context(prog):
    """History variant: the SAME compiled Template object (and the same component classes, whose templates are compiled once) is first
    rendered with a DIFFERENT context - every page string variable empty, every list empty, so conditions and loops around fills take
    their other branch - and then with the program's own context; the second result must be what a single render gives."""
    import djsetup
    from django.template import Context, Template
    with djsetup.components_settings(context_behavior=prog["mode"]):
        classes, cleanup = build(prog, False)
        try:
            tpl = Template(G.d_tpls(prog["page"], False))
            other = {k: ("" if isinstance(v, str) else []) for k, v in prog["ctx"]}

            def first():
                return tpl.render(Context(other))
            outcome_of(first)       # whatever it gives (may legitimately raise, e.g. a required slot now unfilled)

            def second():
                return tpl.render(Context(dict(prog["ctx"])))
            return outcome_of(second)
        finally:
            cleanup()


def python_variant_applicable(prog):
    """Page = text* comp text* where the comp's kwargs are constants / page variables and its fills are static text."""
    comps = [t for t in prog["page"] if t[0] == "comp"]
    if len(comps) != 1 or any(t[0] not in ("comp", "text") for t in prog["page"]):
        return None
    t = comps[0]
    if t[3]:
        return None
    ctx = dict(prog["ctx"])
    kwargs = {}
    for k, e in t[2]:
        if e[0] == "str":
            kwargs[k] = e[1]
        elif e[0] == "var":
            kwargs[k] = ctx.get(e[1], "")
        else:
            return None
    body = t[4]
    slots = {}
    fills = [x for x in body if x[0] == "fill"]
    if fills:
        if any(x[0] not in ("fill", "text") or (x[0] == "text" and x[1].strip()) for x in body):
            return None
        for f in fills:
            if f[1][0] != "str" or f[2] or f[3] or any(x[0] != "text" for x in f[4]) or f[1][1] in slots:
                return None
            slots[f[1][1]] = "".join(x[1] for x in f[4])
    elif body:
        if any(x[0] != "text" for x in body):
            return None
        txt = "".join(x[1] for x in body)
        if txt.strip():
            slots["default"] = txt
        elif not all(x[0] == "text" for x in body):
            return None
    return t[1], kwargs, slots


def render_python(prog, style):
    """Variant 3: the page's single top-level component rendered through Component.render(kwargs, slots)."""
    import djsetup
    from django.template import Context
    from django.utils.safestring import mark_safe
    app = python_variant_applicable(prog)
    assert app is not None
    cname, kwargs, slots = app
    pre = "".join(t[1] for t in prog["page"][: [t[0] for t in prog["page"]].index("comp")])
    post = "".join(t[1] for t in prog["page"][[t[0] for t in prog["page"]].index("comp") + 1:])
    with djsetup.components_settings(context_behavior=prog["mode"]):
        classes, cleanup = build(prog, False)
        try:
            def go():
                if cname not in classes:
                    from django_components import registry
                    registry.get(cname)
                if style == "str":
                    sl = dict(slots)
                elif style == "safe":
                    sl = {k: mark_safe(v) for k, v in slots.items()}
                else:
                    sl = {k: (lambda ctx, data, ref, v=v: v) for k, v in slots.items()}
                # the tag hands an isolated copy of the context to the component in isolated mode; the equivalent
                # Python call passes no context there (Component.render does not isolate a context given to it)
                ctx = Context(dict(prog["ctx"])) if prog["mode"] == "django" else None
                return pre + classes[cname].render(context=ctx, kwargs=kwargs, slots=sl, render_dependencies=False) + post
            return outcome_of(go)
        finally:
            cleanup()


def c_outcome(o):
    import common as C
    if o[0] == "ok":
        return "OOk %s" % C.cstr(o[1])
    return "OErr %s" % o[1]
