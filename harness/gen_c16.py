"""Constants / code shapes of /repo the C16 model depends on -> coq/Gen/C16.v (regenerated on every run, fail-closed).

NEVER raises for an unexpected source shape: a constant that cannot be read becomes a sentinel value and its error text is
listed in `generator_errors` (anchored to [] in Anchors.v), so an unexpected edit of the source shows up as a broken proof
obligation (a VIOLATION of the check), never as a crash of the harness.

Read from the imported module (values) and from the AST of component_media.py (shapes of the few expressions the model
transliterates); anchored by `Example ..._anchor ... reflexivity` in coq/Media/Anchors.v, so an edit of any of them in the
source breaks a proof obligation of Props/C16.v:

 * lazy_attrs            COMP_MEDIA_LAZY_ATTRS (the attributes intercepted by the descriptors = the model's `access` kinds)
 * media_fields          dataclass fields of ComponentMedia; media_field_defaults_ok: resolved=False, all others None
 * post_init_inline_attrs / post_init_file_suffix   the pairs checked by ComponentMedia.__post_init__ (both members => error)
 * attr_rules            _get_comp_cls_attr: [(attrs of the `if attr in (...)` test, arguments of check_pair_empty(...))]
 * media_lookup_expr     _get_comp_cls_media: right-hand side of `media_input = ...` (own-class lookup, fix 4205522)
 * extend_default / extend_dispatch / js_default / css_default   `getattr(media_input, "extend", <default>)`, the
                         if-chain that turns Media.extend into `bases`, `getattr(media_input, "js"/"css", <default>)`
 * keeps_lists           the per-base merge keeps `_js_lists` / `_css_lists` (fix 488c746): attributes assigned on `media`
 * declared_extend_default   ComponentMediaInput.extend (documented default)
 * post_init_test / check_pair_empty_body   the rejection test of __post_init__ (`is not None`, not truthiness) and the body
                         of check_pair_empty (no write to any class: a lookup must not memoise)
 * css_list_medium       dict keys that _normalize_media gives to the str / list forms of Media.css
"""
import ast
import dataclasses
import inspect

from gen_constants import coq_str_list, generator
import common as C


def _fn(tree, name):
    for n in ast.walk(tree):
        if isinstance(n, ast.FunctionDef) and n.name == name:
            return n
    raise C.HarnessError("gen_C16: function %s not found in component_media.py" % name)


def _one(xs, what):
    if len(xs) != 1:
        raise C.HarnessError("gen_C16: expected exactly one %s, found %d" % (what, len(xs)))
    return xs[0]


def _consts(t, what):
    if not isinstance(t, ast.Tuple) or not all(isinstance(e, ast.Constant) and isinstance(e.value, str) for e in t.elts):
        raise C.HarnessError("gen_C16: %s is not a tuple of string literals" % what)
    return [e.value for e in t.elts]


def _getattr_default(fn, obj, attr):
    hits = [n for n in ast.walk(fn) if isinstance(n, ast.Call) and isinstance(n.func, ast.Name) and n.func.id == "getattr"
            and len(n.args) == 3 and isinstance(n.args[0], ast.Name) and n.args[0].id == obj
            and isinstance(n.args[1], ast.Constant) and n.args[1].value == attr]
    return ast.unparse(_one(hits, "getattr(%s, %r, default)" % (obj, attr)).args[2])


def _extract():
    """dict name -> value; raises nothing: failures are recorded in out['errors']"""
    out = {"errors": []}

    def step(names, fn, sentinels):
        try:
            vals = fn()
        except Exception as e:  # noqa - any unexpected shape
            out["errors"].append("%s: %s: %s" % ("/".join(names), type(e).__name__, e))
            vals = sentinels
        for n, v in zip(names, vals):
            out[n] = v

    from django_components import component_media as cm
    try:
        tree = ast.parse(inspect.getsource(cm))
    except Exception as e:  # noqa
        out["errors"].append("source: %s" % e)
        tree = ast.parse("")
    BAD = "<gen_C16: unreadable>"

    def lazy():
        v = cm.COMP_MEDIA_LAZY_ATTRS
        if not isinstance(v, tuple) or not all(isinstance(x, str) for x in v):
            raise C.HarnessError("COMP_MEDIA_LAZY_ATTRS is not a tuple of str: %r" % (v,))
        return [list(v)]
    step(["lazy_attrs"], lazy, [[BAD]])

    def fields():
        fs = dataclasses.fields(cm.ComponentMedia)
        ok = all((f.default is False) if f.name == "resolved" else (f.default is None) for f in fs if f.name != "comp_cls") \
            and fs[0].name == "comp_cls" and fs[0].default is dataclasses.MISSING
        return [[f.name for f in fs], ok]
    step(["media_fields", "media_field_defaults_ok"], fields, [[BAD], False])

    def post_init():
        pi = _fn(tree, "__post_init__")
        loop = _one([n for n in ast.walk(pi) if isinstance(n, ast.For)], "for loop in __post_init__")
        inline_attrs = _consts(loop.iter, "__post_init__ loop tuple")
        js_ = _one([n for n in ast.walk(pi) if isinstance(n, ast.Assign) and isinstance(n.value, ast.JoinedStr)
                    and isinstance(n.targets[0], ast.Name) and n.targets[0].id == "file_attr"], "file_attr f-string")
        parts = js_.value.values
        if not (len(parts) == 2 and isinstance(parts[0], ast.FormattedValue) and isinstance(parts[0].value, ast.Name)
                and parts[0].value.id == loop.target.id and isinstance(parts[1], ast.Constant)):
            raise C.HarnessError("file_attr is not f\"{inlined_attr}<suffix>\"")
        # the rejection test itself: `getattr(self, inlined_attr) is not None and getattr(self, file_attr) is not None`
        test = _one([n for n in ast.walk(loop) if isinstance(n, ast.If)], "if in the __post_init__ loop")
        return [inline_attrs, parts[1].value, ast.unparse(test.test)]
    step(["post_init_inline_attrs", "post_init_file_suffix", "post_init_test"], post_init, [[BAD], BAD, BAD])

    def attr_rules():
        ga = _fn(tree, "_get_comp_cls_attr")
        rules = []
        for n in ast.walk(ga):
            if isinstance(n, ast.If) and isinstance(n.test, ast.Compare) and isinstance(n.test.left, ast.Name) \
                    and n.test.left.id == "attr" and len(n.test.ops) == 1 and isinstance(n.test.ops[0], ast.In):
                tup = _consts(n.test.comparators[0], "attr in (...) tuple")
                inner = _one([m for m in n.body if isinstance(m, ast.If)], "inner if of an attr rule")
                call = inner.test
                if not (isinstance(call, ast.Call) and isinstance(call.func, ast.Name) and call.func.id == "check_pair_empty"
                        and all(isinstance(a, ast.Constant) for a in call.args)
                        and len(inner.body) == 1 and isinstance(inner.body[0], ast.Continue)
                        and len(inner.orelse) == 1 and isinstance(inner.orelse[0], ast.Return)
                        and ast.unparse(inner.orelse[0]) == "return value"):
                    raise C.HarnessError("unexpected shape of an attr rule in _get_comp_cls_attr")
                rules.append((tup, [a.value for a in call.args]))
        if not rules:
            raise C.HarnessError("no attr rules found in _get_comp_cls_attr")
        cpe = _fn(ga, "check_pair_empty")
        return [rules, [ast.unparse(x) for x in cpe.body]]
    step(["attr_rules", "check_pair_empty_body"], attr_rules, [[([BAD], [BAD])], [BAD]])

    def media_fn():
        gm = _fn(tree, "_get_comp_cls_media")
        lookup = ast.unparse(_one([n for n in ast.walk(gm) if isinstance(n, ast.Assign) and isinstance(n.targets[0], ast.Name)
                                   and n.targets[0].id == "media_input"], "assignment to media_input").value)
        ext_default = _getattr_default(gm, "media_input", "extend")
        js_default = _getattr_default(gm, "media_input", "js")
        css_default = _getattr_default(gm, "media_input", "css")
        chain = _one([n for n in ast.walk(gm) if isinstance(n, ast.If) and ast.unparse(n.test).startswith("media_extend is")
                      and not any(isinstance(p, ast.If) and n in p.orelse for p in ast.walk(gm))], "if-chain on media_extend")
        dispatch = []
        node = chain
        while True:
            body = _one(node.body, "statement in a branch of the media_extend chain")
            if not (isinstance(body, ast.Assign) and ast.unparse(body.targets[0]) == "bases"):
                raise C.HarnessError("branch of the media_extend chain does not assign `bases`")
            dispatch.append((ast.unparse(node.test), ast.unparse(body.value)))
            if len(node.orelse) == 1 and isinstance(node.orelse[0], ast.If):
                node = node.orelse[0]
                continue
            last = _one(node.orelse, "statement in the else branch of the media_extend chain")
            if not (isinstance(last, ast.Assign) and ast.unparse(last.targets[0]) == "bases"):
                raise C.HarnessError("else branch of the media_extend chain does not assign `bases`")
            dispatch.append(("else", ast.unparse(last.value)))
            break
        base_loop = _one([n for n in ast.walk(gm) if isinstance(n, ast.For) and ast.unparse(n.iter) == "bases"
                          and isinstance(n.target, ast.Name)], "`for base in bases` loop")
        assigned = sorted(ast.unparse(n.targets[0]) + " = " + ast.unparse(n.value) for n in ast.walk(base_loop)
                          if isinstance(n, ast.Assign) and ast.unparse(n.targets[0]).startswith(("media", "merged_media")))
        return [lookup, ext_default, js_default, css_default, dispatch, assigned]
    step(["media_lookup_expr", "extend_default", "js_default", "css_default", "extend_dispatch", "base_loop_assignments"],
         media_fn, [BAD, BAD, BAD, BAD, [(BAD, BAD)], [BAD]])

    def norm_keys():
        nm = _fn(tree, "_normalize_media")
        return [sorted({k.value for n in ast.walk(nm) if isinstance(n, ast.Dict) for k in n.keys
                        if isinstance(k, ast.Constant) and isinstance(k.value, str)})]
    step(["css_list_medium"], norm_keys, [[BAD]])
    step(["declared_extend_default"], lambda: [getattr(cm.ComponentMediaInput, "extend", None) is True], [False])
    return out


@generator
def gen_C16():
    v = _extract()
    pairs = lambda xs: "[" + "; ".join("(%s, %s)" % (coq_str_list(a), coq_str_list(b)) for a, b in xs) + "]"  # noqa: E731
    spairs = lambda xs: "[" + "; ".join("(%s, %s)" % (C.cstr(a), C.cstr(b)) for a, b in xs) + "]"  # noqa: E731
    return ("Definition generator_errors : list str := %s.\n"
            "Definition lazy_attrs : list str := %s.\n"
            "Definition media_fields : list str := %s.\n"
            "Definition media_field_defaults_ok : bool := %s.\n"
            "Definition post_init_inline_attrs : list str := %s.\n"
            "Definition post_init_file_suffix : str := %s.\n"
            "Definition post_init_test : str := %s.\n"
            "Definition attr_rules : list (list str * list str) := %s.\n"
            "Definition check_pair_empty_body : list str := %s.\n"
            "Definition media_lookup_expr : str := %s.\n"
            "Definition extend_default : str := %s.\n"
            "Definition js_default : str := %s.\n"
            "Definition css_default : str := %s.\n"
            "Definition extend_dispatch : list (str * str) := %s.\n"
            "Definition base_loop_assignments : list str := %s.\n"
            "Definition declared_extend_default : bool := %s.\n"
            "Definition css_list_medium : list str := %s.\n"
            % (coq_str_list(v["errors"]), coq_str_list(v["lazy_attrs"]), coq_str_list(v["media_fields"]), C.cbool(v["media_field_defaults_ok"]),
               coq_str_list(v["post_init_inline_attrs"]), C.cstr(v["post_init_file_suffix"]), C.cstr(v["post_init_test"]),
               pairs(v["attr_rules"]), coq_str_list(v["check_pair_empty_body"]), C.cstr(v["media_lookup_expr"]),
               C.cstr(v["extend_default"]), C.cstr(v["js_default"]), C.cstr(v["css_default"]), spairs(v["extend_dispatch"]),
               coq_str_list(v["base_loop_assignments"]), C.cbool(v["declared_extend_default"]), coq_str_list(v["css_list_medium"])))
