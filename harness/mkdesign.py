#!/usr/bin/env python3
"""Rebuild the generated tail of DESIGN.md: §11.1-11.20 from notes/design11/Cxx.md (written by the per-property builders),
§11.99 defect table from known_findings.json, §12 seeded-change table from seeded/*/meta.json.  Everything above the marker line
is hand-written and left untouched."""
import glob
import json
import os
import subprocess

MARK = "<!-- GENERATED BELOW (python3 harness/mkdesign.py) - edit notes/design11/*.md, known_findings.json, seeded/ instead -->"
p = "/verif/DESIGN.md"
s = open(p).read()
if MARK in s:
    s = s[:s.index(MARK)]
out = [s.rstrip("\n"), "", MARK, ""]
out.append("### 11.1-11.20 Per-property sections (as built)\n")
out.append("Each section below was written by the builder of that property's check at the time the check went green; `Gaps` lists "
           "what is NOT covered. C01M is the mechanism-level model that `./check C01` runs as a sub-check.\n")
for f in sorted(glob.glob("/verif/notes/design11/C*.md")):
    txt = open(f).read().strip()
    if not txt.lstrip().startswith("#"):
        txt = "### %s\n\n%s" % (os.path.basename(f)[:-3], txt)
    # demote headings so that they nest under §11
    lines = []
    for l in txt.split("\n"):
        if l.startswith("#"):
            n = len(l) - len(l.lstrip("#"))
            l = "#" * max(4, n + 1) + l[n:]
        lines.append(l)
    out.append("\n".join(lines))
    out.append("")
# defects
kf = json.load(open("/verif/known_findings.json"))["findings"]
out.append("### 11.99 Genuine defects of /repo found by the checks\n")
out.append("`fixed` = repaired by a minimal `fix:` commit in /repo (unedited suite stays 514/514; witness in `corpus/`; the entry suppresses nothing). "
           "`known` = recorded, not repaired; the owning check prints `KNOWN-FINDING:` for inputs in that trigger class only.\n")
out.append("| property | status | commit | trigger | what failed |")
out.append("|---|---|---|---|---|")
for e in kf:
    what = e["line"].split(" ", 2 if e["status"] == "known" else 3)[-1]
    out.append("| %s | %s | %s | `%s` | %s |" % (e["property"], e["status"], e.get("commit", ""), e.get("trigger", ""), what.replace("|", "\\|")))
out.append("")
nfix = sum(1 for e in kf if e["status"] == "fixed")
nkn = sum(1 for e in kf if e["status"] == "known")
out.append("%d fixed entries (%d `fix:` commits in /repo), %d known findings.\n" % (nfix, len({e.get("commit") for e in kf if e["status"] == "fixed"}), nkn))
# seeds
out.append("## 12. Seeded changes written by independent sub-agents, and which checks catch them\n")
out.append("Each seed was written by a fresh sub-agent that was given ONLY the property text and a scratch git worktree of /repo (nothing from /verif), "
           "with the brief: break the property, keep the code importable and the 514 baseline tests green, look like a realistic mistake, and need "
           "something specific to manifest. A seed is kept only after `harness/seedtool.py confirm` showed: the agent's demo passes on the original tree, "
           "fails with the patch, and the unedited suite still passes 514/514 with the patch. `harness/seedtool.py check` then runs the owning check "
           "(quick tier) against a scratch copy of /repo HEAD with the patch applied (`VERIF_REPO`), never against /repo itself. `seeded/<id>/` holds "
           "patch.diff, demo_break.py, SEED_NOTES.md (what it needs to manifest) and meta.json (what was run, result, history).\n")
out.append(subprocess.run(["python3", "/verif/harness/seedreport.py"], capture_output=True, text=True).stdout)
# first-run statistics per round, measured from the histories in meta.json
import collections as _c
_tot, _first = _c.Counter(), _c.Counter()
for _f in sorted(glob.glob("/verif/seeded/*/meta.json")):
    _m = json.load(open(_f))
    _r = _m["seed_id"][3:]
    _tot[_r] += 1
    _missed_once = any(h.get("caught") is False for h in _m.get("history", []))
    if not _missed_once:
        _first[_r] += 1
out.append("**How to read the table.** \"first run MISSED, caught after strengthening\" means the check as it stood when the seed arrived did not "
           "catch it; the seed's INPUT / HISTORY CLASS (never the patch itself) was then added to the generator, model or oracle, and all earlier "
           "seeds plus the unchanged tree at several seeds were re-run. Caught at first run, per round: "
           + ", ".join("%s: %d/%d" % (r, _first[r], _tot[r]) for r in sorted(_tot)) +
           " (histories of the earliest rounds are incomplete, so their first-run figures are upper bounds). The first-run rate of the last round "
           "(f) is the honest estimate of what an unseen realistic change of this kind has to expect from the quick tier: roughly one in two; "
           "what the misses had in common was an input or history dimension the generators did not span (re-render under another language, "
           "subclassed Template, whitespace-only output, first-argument bare words, shared input hashes, real id generator under the scheduler, "
           "flag-named variables, block-name reuse across `{% include %}`, mutated literal arguments), not a wrong theorem. The row `C03a x C01` "
           "is informational: a C03 seed run against C01's check, which rightly leaves scoping to C03.\n")
open(p, "w").write("\n".join(out) + "\n")
print("DESIGN.md rebuilt:", len("\n".join(out).split("\n")), "lines")
