"""Constants / regex pattern strings of /repo that the TagParse model (C12, C02) depends on -> coq/Gen/C12.v."""
from gen_constants import generator, coq_str_list
import common as C


@generator
def gen_C12():
    from django_components.util import tag_parser as tp
    from django_components.expression import DYNAMIC_EXPR_RE
    from django_components.util.template_parser import _compile_take_until_pattern
    for name in ("TAG_WHITESPACE", "TAG_FILTER", "TAG_SPREAD"):
        v = getattr(tp, name)
        if not (isinstance(v, tuple) and all(isinstance(x, str) for x in v)):
            raise ValueError("unexpected shape of tag_parser.%s: %r" % (name, v))
    pats = [_compile_take_until_pattern(s, e).pattern for s, e in (("'", True), ('"', True), ("'\"", False), ("'\"%", False))]
    out = []
    out.append("Definition tag_whitespace : list str := %s." % coq_str_list(tp.TAG_WHITESPACE))
    out.append("Definition tag_filter : list str := %s." % coq_str_list(tp.TAG_FILTER))
    out.append("Definition tag_spread : list str := %s." % coq_str_list(tp.TAG_SPREAD))
    if not isinstance(getattr(tp, "MAX_NESTING_DEPTH", None), int):
        raise ValueError("tag_parser.MAX_NESTING_DEPTH missing or not an int")
    out.append("Definition max_nesting_depth : N := %s." % C.cN(tp.MAX_NESTING_DEPTH))
    out.append("Definition dynamic_expr_re : str := %s." % C.cstr(DYNAMIC_EXPR_RE.pattern))
    out.append("Definition dynamic_expr_re_flags : N := %s." % C.cN(int(DYNAMIC_EXPR_RE.flags)))
    out.append("Definition take_until_patterns : list str := %s." % coq_str_list(pats))
    return "\n".join(out) + "\n"
