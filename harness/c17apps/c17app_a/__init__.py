"""Empty Django app used by harness/c17.py: its AppConfig.path is pointed at a generated directory (COMPONENTS.app_dirs)."""
