import os, re
import common as C, genprog as G
IMPORTS = "From DJC Require Import Lib.Base Core.Syntax Core.Sem."


def model_outcome(prog):
    d = os.path.join(C.WORK, "dbg"); os.makedirs(d, exist_ok=True)
    p = os.path.join(d, "dbg%d.v" % os.getpid())
    open(p, "w").write(IMPORTS + "\nEval vm_compute in (render_prog 200 (%s)).\n" % G.c_prog(prog))
    rc, out = C.sh(["coqc", "-Q", C.COQ, "DJC", p])
    m = re.search(r"=\s*(.*?)\s*:\s*res str", out, flags=re.S)
    if not m:
        return out[-500:]
    t = m.group(1)
    if t.startswith("Ok"):
        nums = [int(x) for x in re.findall(r"\d+", t.replace("%N", ""))]
        return ("ok", "".join(chr(n) for n in nums))
    return t
