"""Constants of /repo (and of Django's escape) the C13 model is anchored to -> coq/Gen/C13.v (regenerated on every run).

Read from the SOURCE TEXT (ast) of the tree under test. A shape the reader does not know yields the marker
string "?unknown shape" for that constant, so the anchoring Example in Attrs/Proofs.v fails (= broken proof obligation)
instead of the run aborting - the search for a failing input still runs."""
import ast
import os

from gen_constants import generator
import common as C

UNKNOWN = "?unknown shape"


def _func(tree, name):
    for n in ast.walk(tree):
        if isinstance(n, ast.FunctionDef) and n.name == name:
            return n
    return None


def _wrap_shape(tree, fname):
    """wrap_component_js/css: `if "<needle>" in content.lower(): raise ...` ; `return f"<open>{content}<close>"`."""
    needle, lowered, op, cl = UNKNOWN, False, UNKNOWN, UNKNOWN
    try:
        f = _func(tree, fname)
        tests = [n for n in ast.walk(f) if isinstance(n, ast.Compare) and len(n.ops) == 1 and isinstance(n.ops[0], ast.In)]
        if len(tests) == 1 and isinstance(tests[0].left, ast.Constant) and isinstance(tests[0].left.value, str):
            needle = tests[0].left.value
            r = tests[0].comparators[0]
            lowered = (isinstance(r, ast.Call) and isinstance(r.func, ast.Attribute) and r.func.attr == "lower"
                       and isinstance(r.func.value, ast.Name) and r.func.value.id == "content" and not r.args)
        rets = [n for n in ast.walk(f) if isinstance(n, ast.Return)]
        if len(rets) == 1 and isinstance(rets[0].value, ast.JoinedStr):
            v = rets[0].value.values
            if (len(v) == 3 and isinstance(v[0], ast.Constant) and isinstance(v[2], ast.Constant)
                    and isinstance(v[1], ast.FormattedValue) and isinstance(v[1].value, ast.Name) and v[1].value.id == "content"):
                op, cl = v[0].value, v[2].value
    except Exception:  # noqa
        pass
    return needle, lowered, op, cl


def _attr_consts(tree):
    fmt, sep, app = UNKNOWN, UNKNOWN, UNKNOWN
    try:
        f = _func(tree, "attributes_to_string")
        calls = [n for n in ast.walk(f) if isinstance(n, ast.Call) and isinstance(n.func, ast.Name) and n.func.id == "format_html"]
        if len(calls) == 1 and isinstance(calls[0].args[0], ast.Constant) and [getattr(a, "id", None) for a in calls[0].args[1:]] == ["key", "value"]:
            fmt = calls[0].args[0].value
        joins = [n for n in ast.walk(f) if isinstance(n, ast.Call) and isinstance(n.func, ast.Attribute) and n.func.attr == "join"]
        if len(joins) == 1:
            inner = joins[0].func.value
            if isinstance(inner, ast.Call) and inner.args and isinstance(inner.args[0], ast.Constant):
                sep = inner.args[0].value
            elif isinstance(inner, ast.Constant):
                sep = inner.value
        g = _func(tree, "append_attributes")
        augs = [n for n in ast.walk(g) if isinstance(n, ast.AugAssign) and isinstance(n.op, ast.Add)]
        if len(augs) == 1 and isinstance(augs[0].value, ast.BinOp) and isinstance(augs[0].value.left, ast.Constant) \
                and isinstance(augs[0].value.right, ast.Name) and augs[0].value.right.id == "value":
            app = augs[0].value.left.value
    except Exception:  # noqa
        pass
    return fmt, sep, app


def _name_check(tree):
    """attributes.py: `_INVALID_ATTR_NAME_RE = re.compile("<pattern>")` and the one `if` of attributes_to_string that raises
    ValueError (its test, unparsed). Returns (pattern, test source)."""
    pat, test = UNKNOWN, UNKNOWN
    try:
        for n in tree.body:
            if isinstance(n, ast.Assign) and len(n.targets) == 1 and getattr(n.targets[0], "id", None) == "_INVALID_ATTR_NAME_RE":
                c = n.value
                if (isinstance(c, ast.Call) and isinstance(c.func, ast.Attribute) and c.func.attr == "compile" and len(c.args) == 1
                        and not c.keywords and isinstance(c.args[0], ast.Constant) and isinstance(c.args[0].value, str)):
                    pat = c.args[0].value
        f = _func(tree, "attributes_to_string")
        ifs = [n for n in ast.walk(f) if isinstance(n, ast.If) and any(isinstance(b, ast.Raise) for b in n.body)]
        if len(ifs) == 1:
            test = ast.unparse(ifs[0].test)
        # the loop: skip None / False first, then the name check, then True -> bare, else format_html
        loop = [n for n in ast.walk(f) if isinstance(n, ast.For)]
        shape = [ast.unparse(n.test) for n in loop[0].body if isinstance(n, ast.If)] if len(loop) == 1 else []
        test = " ;; ".join(shape) if test != UNKNOWN else UNKNOWN
    except Exception:  # noqa
        pass
    return pat, test


def invalid_name_chars(limit=0x3000):
    """Code points below `limit` that the tree's _INVALID_ATTR_NAME_RE matches (the compiled object, not the source text)."""
    try:
        from django_components import attributes
        rx = attributes._INVALID_ATTR_NAME_RE
        return [c for c in range(limit) if rx.search(chr(c))]
    except Exception:  # noqa
        return None


@generator
def gen_C13():
    from django.utils.html import escape
    src = os.path.join(C.REPO, "src", "django_components")
    dep = ast.parse(open(os.path.join(src, "dependencies.py")).read())
    att = ast.parse(open(os.path.join(src, "attributes.py")).read())
    js = _wrap_shape(dep, "wrap_component_js")
    css = _wrap_shape(dep, "wrap_component_css")
    fmt, sep, app = _attr_consts(att)
    table = [(c, str(escape(chr(c)))) for c in range(0, 0x3000) if str(escape(chr(c))) != chr(c)]
    out = []
    for nm, (needle, lowered, op, cl) in (("js", js), ("css", css)):
        out.append("Definition %s_needle : str := %s." % (nm, C.cstr(needle)))
        out.append("Definition %s_lowered : bool := %s." % (nm, C.cbool(lowered)))
        out.append("Definition %s_open : str := %s." % (nm, C.cstr(op)))
        out.append("Definition %s_close : str := %s." % (nm, C.cstr(cl)))
    out.append("Definition attr_format : str := %s." % C.cstr(fmt))
    out.append("Definition attr_sep : str := %s." % C.cstr(sep))
    out.append("Definition append_sep : str := %s." % C.cstr(app))
    pat, test = _name_check(att)
    out.append("Definition invalid_name_pattern : str := %s." % C.cstr(pat))
    out.append("Definition name_check_tests : str := %s." % C.cstr(test))
    inv = invalid_name_chars()
    out.append("(* code points below U+3000 matched by the compiled _INVALID_ATTR_NAME_RE; [9999999] = regex not found *)")
    out.append("Definition invalid_name_chars : list N := %s." % C.clist([C.cN(c) for c in (inv if inv is not None else [9999999])]))
    out.append("(* django.utils.html.escape on every code point below U+3000 that it changes *)")
    out.append("Definition escape_table : list (N * str) := %s." % C.clist(["(%s, %s)" % (C.cN(c), C.cstr(e)) for c, e in table]))
    return "\n".join(out) + "\n"
