"""C18 helper: same contract as common.coq_eval_cases (model evaluated inside Coq by vm_compute on generated case
literals, returns the indices where `check_fn` is false), but every shard's literal is split into many small
`Definition`s.  Elaborating one 2500-element list literal is super-linear in coqc 8.16 (33 s); 50 definitions of
50 elements each take 11 s.  Nothing else differs: no extraction, the comparison is done by Coq."""
import concurrent.futures
import os

import common as C


def coq_eval_cases(prop, tag, imports, case_type, check_fn, terms, shard=1000, chunk=50, timeout=600):
    d = os.path.join(C.WORK, prop)
    os.makedirs(d, exist_ok=True)
    tag = "%s_p%d" % (tag, os.getpid())   # two concurrent runs of one property must not overwrite each other's shards
    paths = []
    for si in range(0, len(terms), shard):
        part = terms[si:si + shard]
        path = os.path.join(d, "%s_%d.v" % (tag, si // shard))
        with open(path, "w") as f:
            f.write(imports + "\n")
            names = []
            for ci in range(0, len(part), chunk):
                nm = "cases_%d" % (ci // chunk)
                names.append(nm)
                f.write("Definition %s : list (%s) :=\n [ " % (nm, case_type))
                f.write("\n ; ".join(part[ci:ci + chunk]))
                f.write("\n ].\n")
            f.write("Definition cases : list (%s) := %s.\n" % (case_type, " ++ ".join(names) if names else "[]"))
            f.write("Eval vm_compute in (bad_indices (%s) cases).\n" % check_fn)
        paths.append((si, path))
    bad = []
    with concurrent.futures.ThreadPoolExecutor(max_workers=C.NCPU) as ex:
        futs = {ex.submit(C._coqc_file, p, timeout): (si, p) for si, p in paths}
        for fu in concurrent.futures.as_completed(futs):
            si, p = futs[fu]
            rc, out = fu.result()
            if rc != 0:
                raise C.HarnessError("coqc failed on %s (rc=%d):\n%s" % (p, rc, out[-3000:]))
            bad.extend(si + i for i in C.parse_bad(out))
    for si, p in paths:
        base = p[:-2]
        for ext in (".v", ".vo", ".vok", ".vos", ".glob"):
            try:
                os.remove(base + ext)
            except FileNotFoundError:
                pass
        try:
            os.remove(os.path.join(os.path.dirname(p), "." + os.path.basename(base) + ".aux"))
        except FileNotFoundError:
            pass
    return sorted(bad)
