"""Debug driver for the Core model: python coredbg.py <mode> <n> <seed> [collide] [provide]"""
import os, re, subprocess, sys, json, random
sys.path.insert(0, os.path.dirname(os.path.abspath(__file__)))
import common as C, genprog as G, core_run as R, djsetup

IMPORTS = "From DJC Require Import Lib.Base Core.Syntax Core.Sem."


def model_outcome(prog):
    d = os.path.join(C.WORK, "dbg"); os.makedirs(d, exist_ok=True)
    p = os.path.join(d, "dbg1.v")
    open(p, "w").write(IMPORTS + "\nEval vm_compute in (render_prog 200 (%s)).\n" % G.c_prog(prog))
    rc, out = C.sh(["coqc", "-Q", C.COQ, "DJC", p])
    m = re.search(r"=\s*(.*?)\s*:\s*res str", out, flags=re.S)
    if not m:
        return out[-500:]
    t = m.group(1)
    if t.startswith("Ok"):
        nums = [int(x) for x in re.findall(r"\d+", t.replace("%N", ""))]
        return ("ok", "".join(chr(n) for n in nums))
    return t


def main():
    mode, n, seed = sys.argv[1], int(sys.argv[2]), int(sys.argv[3])
    collide = float(sys.argv[4]) if len(sys.argv) > 4 else 0.0
    provide = float(sys.argv[5]) if len(sys.argv) > 5 else 0.0
    djsetup.setup(); djsetup.patch_ids()
    rng = random.Random(seed)
    progs, outs = [], []
    for i in range(n):
        g = G.Gen(rng, mode, collide=collide, provide=provide)
        p = g.program()
        progs.append(p)
        outs.append(R.render_page(p))
    terms = ["(%s, %s)" % (G.c_prog(p), R.c_outcome(o)) if not o[1].startswith(("other", "Recursion")) else None for p, o in zip(progs, outs)]
    idx = [i for i, t in enumerate(terms) if t is not None]
    print("others:", [(i, outs[i]) for i in range(n) if terms[i] is None][:5])
    bad = C.coq_eval_cases("dbg", "core", IMPORTS, "core_case", "check_core", [terms[i] for i in idx], shard=200)
    print("n=%d errs=%d bad=%d" % (n, sum(1 for o in outs if o[0] == "err"), len(bad)))
    for b in bad[:int(os.environ.get("SHOW", "3"))]:
        p = progs[idx[b]]
        print("=" * 100)
        print("MODE", p["mode"], "CTX", p["ctx"])
        for cn, cd in p["lib"]:
            print("  COMP", cn, "data", cd["data"])
            print("      ", G.d_tpls(cd["tpl"]).replace("\n", "\\n"))
        print("  PAGE ", G.d_tpls(p["page"]).replace("\n", "\\n"))
        print("  IMPL ", outs[idx[b]])
        print("  MODEL", model_outcome(p))
        json.dump(p, open(os.path.join(C.WORK, "dbg", "bad_%d.json" % b), "w"))


main()
