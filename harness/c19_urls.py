"""URLconf used by harness/c19.py: the library's endpoint mounted as in django_components.urls, plus one page view
whose (text/html) body is set by the harness - it passes through ComponentDependencyMiddleware like a user's view."""
from django.http import HttpResponse
from django.urls import include, path

PAGE = {"html": ""}


def page_view(request):
    return HttpResponse(PAGE["html"])


urlpatterns = [
    path("components/", include("django_components.dependencies")),
    path("c19page/", page_view),
]
