"""Helpers of c01m.py: rewrite a generated program into the fragment of Mech.wf_prog (so that many programs of the
fragment are exercised), keeping its component / slot / fill structure."""


def _flat(ts):
    import genprog
    return genprog.flatten(ts)


def fragmentize(prog, mode="isolated", keep=()):
    """isolated mode; for -> with (first element bound), provide -> its body, default= aliases dropped, slot tags and
    is_filled tests inside component-tag bodies replaced by text, inject data -> constant."""
    def ex(e, inbody, inloop=False):
        if e[0] == "counter" and not (inloop and "for" in keep):
            return ("str", "1")
        if e[0] == "filled" and inbody and "passthrough" not in keep:
            return ("str", "F")
        return e

    def kw(l, inbody, inloop=False):
        return [(k, ex(e, inbody, inloop)) for k, e in l]

    def ts(l, inbody, drop, inloop=False):
        out = []
        for t in l:
            out.extend(t1(t, inbody, drop, inloop))
        return out

    def t1(t, inbody, drop, inloop=False):
        k = t[0]
        if k == "text":
            return [t]
        if k == "out":
            if t[1][0] == "var" and t[1][1] in drop:
                return []
            return [("out", ex(t[1], inbody, inloop))]
        if k == "if":
            return [("if", ex(t[1], inbody, inloop), ts(t[2], inbody, drop, inloop), ts(t[3], inbody, drop, inloop))]
        if k == "for":
            if "for" in keep and not inbody and not any(x[0] in ("comp", "fill") for x in _flat(t[3])):
                return [("for", t[1], t[2], ts(t[3], inbody, drop, True))]
            return [("with", t[1], ("str", "I1"), ts(t[3], inbody, drop, inloop))]
        if k == "with":
            e = ex(t[2], inbody)
            if e[0] == "filled":
                e = ("str", "F")
            return [("with", t[1], e, ts(t[3], inbody, drop, inloop))]
        if k == "slot":
            if inbody and "passthrough" not in keep:
                return [("text", "(slot %s)" % t[1])]
            if inbody:
                return [("slot", t[1], t[2], t[3], kw(t[4], True), ts(t[5], True, drop))]
            return [("slot", t[1], t[2], t[3], kw(t[4], False, inloop), ts(t[5], False, drop, inloop))]
        if k == "fill":
            d2 = drop | ({t[3]} if t[3] else set())
            return [("fill", ex(t[1], True), t[2], None, ts(t[4], True, d2))]
        if k == "comp":
            return [("comp", t[1], kw(t[2], inbody), t[3] and mode == "isolated", ts(t[4], True, drop))]
        if k == "provide":
            if "provide" in keep:
                return [("provide", t[1], kw(t[2], inbody), ts(t[3], inbody, drop))]
            return ts(t[3], inbody, drop)
        raise ValueError(k)
    q = dict(prog)
    q["mode"] = mode
    q["page"] = ts(prog["page"], False, set())
    q["lib"] = [(n, {"tpl": ts(cd["tpl"], False, set()),
                     "data": [(x, d if (d[0] != "inject" or "provide" in keep) else ("str", "INJ")) for x, d in cd["data"]]}) for n, cd in prog["lib"]]
    return q
