"""C17 - the static-files finder exposes exactly the allowed, non-forbidden files.

Model: coq/Finder/Model.v   Theorems: coq/Props/C17.v   Generated constants: coq/Gen/C17.v (harness/gen_c17.py)
Correspondence (model evaluated inside Coq by vm_compute, implementation = /repo's ComponentsFileSystemFinder):
  F  real directory trees under /tmp/c17 x configurations x lookup paths through the PUBLIC api
     finder.find(path, all=True) and finder.list([])                                     (+ direct property oracle)
  X  every lookup string up to a length bound over the alphabet {'/', '.', 'a'} against a fixed small tree
  V  _is_path_valid on plain strings (names that cannot all be materialised: newlines, empty, slashes) x configurations
  J  django safe_join + os.path.relpath against the model's path arithmetic, several roots
A V-mismatch against the independent Python statement of the property is materialised as a real tree and re-run through
the public API so that a failing input (replay) is reported rather than a bare disagreement.
"""
import itertools
import json
import os
import re
import shutil

import common as C
from common import cbool, clist, copt, cstr

IMPORTS = "From DJC Require Import Lib.Base Finder.Model."
BASE = "/tmp/c17"
BACKEND = [".py", ".pyc", ".html", ".django", ".dj", ".tpl"]
META = set(".^$*+?{}[]\\|()")

# ------------------------------------------------------------------------------------------------
# pattern / configuration descriptors  (JSON-able):  ["suf", s] | ["re", kind, s]
# ------------------------------------------------------------------------------------------------
RE_KINDS = {
    "contains": (lambda s: re.compile(re.escape(s)), "ReContains", lambda s, n: s in n),
    "starts": (lambda s: re.compile("^" + re.escape(s)), "ReStarts", lambda s, n: n.startswith(s)),
    "endsz": (lambda s: re.compile(re.escape(s) + r"\Z"), "ReEndsZ", lambda s, n: n.endswith(s)),
    "segstart": (lambda s: re.compile("(^|/)" + re.escape(s)), "ReSegStart", lambda s, n: n.startswith(s) or ("/" + s) in n),
}


def pat_py(p):
    return p[1] if p[0] == "suf" else RE_KINDS[p[1]][0](p[2])


def pat_coq(p):
    if p[0] == "suf":
        return "Suffix %s" % cstr(p[1])
    return "Compiled (re_search (%s %s))" % (RE_KINDS[p[1]][1], cstr(p[2]))


def pat_spec(p, name, dollar=True):
    """The property's own reading of one pattern, without `re`.
    dollar=True : accepted corner (see chk.assumptions) - a final newline of the name is ignored, as `$` does;
    dollar=False: strict `endswith`. The oracle accepts either verdict where the two readings differ."""
    if p[0] == "suf":
        s = p[1]
        return name.endswith(s) or (dollar and name.endswith("\n") and name[:-1].endswith(s))
    return RE_KINDS[p[1]][2](p[2], name)


def cfg_coq(cfg):
    def f(l):
        return copt(l, lambda v: clist([pat_coq(p) for p in v]))
    return "{| static_files_allowed := %s; static_files_forbidden := %s; forbidden_static_files := %s |}" % (
        f(cfg.get("allowed")), f(cfg.get("forbidden")), f(cfg.get("deprecated")))


def cfg_settings(cfg, root):
    kw = {"dirs": [root], "app_dirs": []}
    for k, name in (("allowed", "static_files_allowed"), ("forbidden", "static_files_forbidden"),
                    ("deprecated", "forbidden_static_files")):
        if cfg.get(k) is not None:
            kw[name] = [pat_py(p) for p in cfg[k]]
    return kw


def cfg_effective(cfg):
    from django_components.app_settings import defaults
    allowed = cfg.get("allowed")
    if allowed is None:
        allowed = [["suf", s] for s in defaults.static_files_allowed]
    forb = cfg.get("forbidden")
    if forb is None:
        forb = cfg.get("deprecated")
    if forb is None:
        forb = [["suf", s] for s in defaults.static_files_forbidden]
    return allowed, forb


def spec_valid(cfg, name, dollar=True):
    allowed, forb = cfg_effective(cfg)
    return any(pat_spec(p, name, dollar) for p in allowed) and not any(pat_spec(p, name, dollar) for p in forb)


def spec_ok(cfg, name, observed):
    """Is `observed` (exposed or not) a verdict the property admits for this name?"""
    return observed == spec_valid(cfg, name) or (name.endswith("\n") and observed == spec_valid(cfg, name, False))


def is_default(cfg):
    return cfg.get("allowed") is None and cfg.get("forbidden") is None and cfg.get("deprecated") is None


def has_meta_suffix(cfg):
    return any(p[0] == "suf" and (set(p[1]) & META) for k in ("allowed", "forbidden", "deprecated") for p in (cfg.get(k) or []))


# ------------------------------------------------------------------------------------------------
# implementation runners
# ------------------------------------------------------------------------------------------------
def make_tree(root, dirs, files):
    os.makedirs(root)
    for d in dirs:
        os.makedirs(os.path.join(root, d), exist_ok=True)
    for f in files:
        os.makedirs(os.path.dirname(os.path.join(root, f)), exist_ok=True)
        with open(os.path.join(root, f), "w") as fh:
            fh.write(f)          # content = relative path: a served body identifies the file


def all_dirs(dirs, files):
    out = set()
    for p in list(dirs) + [os.path.dirname(f) for f in files]:
        while p:
            out.add(p)
            p = os.path.dirname(p)
    return sorted(out)


STATS = {"find_calls": 0, "list_calls": 0, "served_requests": 0}
_RF = []


def run_served(cfg, paths):
    """Dev-server / collectstatic entry points: django.contrib.staticfiles.views.serve(path) and get_finders().list().
    -> ([body str | None | ("err", cls)], sorted listing)   (must run inside the settings override of run_finder)"""
    from django.contrib.staticfiles import finders as sf
    from django.contrib.staticfiles.views import serve
    from django.core.exceptions import SuspiciousOperation
    from django.http import Http404
    from django.test import RequestFactory
    if not _RF:
        _RF.append(RequestFactory())
    sf.get_finder.cache_clear()
    out = []
    try:
        for p in paths:
            STATS["served_requests"] += 1
            try:
                r = serve(_RF[0].get("/static/x"), p)
                body = b"".join(r.streaming_content).decode("utf-8", "surrogateescape") if r.status_code == 200 else None
                r.close()
                out.append(body)
            except (Http404, SuspiciousOperation):
                out.append(None)
            except Exception as e:  # noqa
                # BadHeaderError: Django refuses a newline in the Content-Disposition file name - the file is found but the
                # response cannot be built; neither an exposure nor a finder failure
                out.append(("skip",) if type(e).__name__ == "BadHeaderError" else ("err", type(e).__name__))
        try:
            collected = sorted(path for finder in sf.get_finders() for path, storage in finder.list([]))
        except Exception as e:  # noqa
            collected = ["\0list() raised " + type(e).__name__]
    finally:
        sf.get_finder.cache_clear()
    return out, collected


def run_finder(root, cfg, lookups, served_paths=None):
    """-> (find results, sorted list() result[, served]) through the public API."""
    import djsetup
    from django_components.finders import ComponentsFileSystemFinder
    STATS["find_calls"] += len(lookups)
    STATS["list_calls"] += 1
    if served_paths is not None:
        with djsetup.components_settings(**cfg_settings(cfg, root)):
            served = run_served(cfg, served_paths)
        f, l = run_finder(root, cfg, lookups)
        return f, l, served
    with djsetup.components_settings(**cfg_settings(cfg, root)):
        finder = ComponentsFileSystemFinder()
        if [r for _, r in finder.locations] != [root]:
            raise C.HarnessError("unexpected finder locations %r (root %r)" % (finder.locations, root))
        finds = []
        for p in lookups:
            try:
                r = finder.find(p, all=True)
                if r == []:
                    finds.append(("none",))
                elif isinstance(r, list) and len(r) == 1 and isinstance(r[0], str):
                    finds.append(("found", r[0]))
                    r1 = finder.find(p)          # the all=False form must give the same answer
                    if r1 != r[0]:
                        finds[-1] = ("err", "find(all=False) returned %r, find(all=True) %r" % (r1, r))
                else:
                    finds.append(("err", repr(r)))
            except Exception as e:  # noqa
                finds.append(("susp",) if type(e).__name__ == "SuspiciousFileOperation" else ("err", type(e).__name__))
        listed = []
        try:
            for path, storage in finder.list([]):
                if os.path.realpath(storage.location) != os.path.realpath(root):
                    raise C.HarnessError("list() yielded a foreign storage %r" % storage.location)
                listed.append(path)
        except C.HarnessError:
            raise
        except Exception as e:  # noqa
            return finds, ["\0list() raised " + type(e).__name__]      # no real listing contains NUL => never equal to the model
    return finds, sorted(listed)


def fres_coq(r):
    if r[0] == "found":
        return "FFound %s" % cstr(r[1])
    if r[0] == "none":
        return "FNotFound"
    if r[0] == "susp":
        return "FSuspicious"
    return "FUnmodelled"     # never produced by the model for absolute roots => shows up as a disagreement


def clean_rel(p):
    return p != "" and all(s not in ("", ".", "..") for s in p.split("/"))


def oracle(chk, root, dirs, files, cfg, lookups, finds, listed, served_paths=(), served=None):
    """Direct statement of the property on the public API results. Returns number of failures recorded."""
    n0 = len(chk.failures)
    rep = {"kind": "tree", "dirs": dirs, "files": files, "config": cfg, "lookups": lookups}

    def regex_reading(name):
        """Verdict if suffix strings were live regex text (the defect fixed by 6dbce54)."""
        def m(p):
            if p[0] != "suf":
                return pat_spec(p, name)
            try:
                return re.search(p[1] + "$", name) is not None
            except re.error:
                return None
        allowed, forb = cfg_effective(cfg)
        a, f = [m(p) for p in allowed], [m(p) for p in forb]
        if None in a or None in f:
            return None
        return any(a) and not any(f)

    def trig(name_rel, observed=None):
        if has_meta_suffix(cfg) and observed is not None and observed == regex_reading(name_rel) != spec_valid(cfg, name_rel):
            return "c17-suffix-metachar"
        return "c17-exposure"
    # 1. list() == exactly the valid files
    wrong = [f for f in files if not spec_ok(cfg, f, f in listed)] + [x for x in listed if x not in files]
    if wrong:
        chk.fail(trig(wrong[0], wrong[0] in listed), "finder.list() -> %r; wrong verdict for %r (the configuration allows exactly %r)"
                 % (listed, wrong, sorted(f for f in files if spec_valid(cfg, f))), dict(rep, listed=listed, wrong=wrong))
    byp = dict(zip(lookups, finds))
    # 2. every file: found by its own name iff valid, and iff listed
    for f in files:
        r = byp.get(f)
        if r is None:
            continue
        found = r[0] == "found"
        if r[0] == "err" or not spec_ok(cfg, f, found) or found != (f in listed) or (found and r[1] != root + "/" + f):
            absv = spec_valid(cfg, root + "/" + f)
            t = "c17-find-validates-absolute-path" if (found == absv and absv != spec_valid(cfg, f)) else trig(f, found)
            chk.fail(t, "finder.find(%r) -> %r but the configuration says exposed=%r (list() has it: %r)"
                     % (f, r, spec_valid(cfg, f), f in listed), dict(rep, lookup=f, result=list(r)))
    # 3. whatever find returns lies inside the component directory, exists, and - if it is a file - is a valid one
    for p, r in zip(lookups, finds):
        if r[0] == "err":
            chk.fail("c17-find-error", "finder.find(%r) raised/returned %r" % (p, r[1]), dict(rep, lookup=p, result=list(r)))
            continue
        target = os.path.normpath(os.path.join(root, p))
        inside = target == root or target.startswith(root + "/")
        if r[0] != "found":
            continue
        q = r[1]
        rel = q[len(root) + 1:]
        if not (q == root or (q.startswith(root + "/") and clean_rel(rel))) or not inside \
                or os.path.realpath(q) != q or not os.path.lexists(q):
            chk.fail("c17-escape-root", "finder.find(%r) resolved to %r which is not a path inside %r" % (p, q, root),
                     dict(rep, lookup=p, result=list(r)))
        elif os.path.isfile(q) and not spec_ok(cfg, rel, True):
            absv = spec_valid(cfg, q)
            chk.fail("c17-find-validates-absolute-path" if absv else trig(rel, True),
                     "finder.find(%r) exposes %r which the configuration does not allow" % (p, rel),
                     dict(rep, lookup=p, result=list(r)))
        elif os.path.isfile(q) and rel not in listed:
            chk.fail("c17-find-list-disagree", "finder.find(%r) exposes %r but list() does not" % (p, rel),
                     dict(rep, lookup=p, result=list(r)))
    # 5. the dev-server view and the collectstatic listing expose exactly the same files
    if served is not None:
        bodies, collected = served
        if collected != listed:
            chk.fail("c17-collect-differs", "get_finders()...list() -> %r but finder.list() -> %r" % (collected, listed),
                     dict(rep, collected=collected, listed=listed))
        for p, b in zip(served_paths, bodies):
            if b == ("skip",):
                continue
            if isinstance(b, tuple):
                chk.fail("c17-serve-error", "staticfiles serve(%r) raised %s" % (p, b[1]), dict(rep, lookup=p))
            elif b is not None and (b not in files or b not in listed or not spec_ok(cfg, b, True)):
                chk.fail(trig(b, True) if b in files else "c17-escape-root",
                         "dev server: GET %r answered 200 with the content of %r, which is not an exposable file of the tree" % (p, b),
                         dict(rep, lookup=p, served=b))
            elif p in files and (b == p) != (p in listed):
                chk.fail(trig(p, b == p), "dev server: GET %r -> %r but list() has it: %r" % (p, b, p in listed), dict(rep, lookup=p, served=b))
    # 4. default settings never expose backend code
    if is_default(cfg):
        exposed = set(listed) | {r[1] for r in finds if r[0] == "found" and os.path.isfile(r[1])}
        for e in sorted(exposed):
            if any(e.endswith(s) or e.endswith(s + "\n") for s in BACKEND):
                chk.fail("c17-default-exposes-backend", "default settings expose %r" % e, dict(rep, exposed=e))
    return len(chk.failures) - n0


class Roots:
    def __init__(self):
        self.base = os.path.realpath(os.path.join(BASE, "r%d" % os.getpid()))
        shutil.rmtree(self.base, ignore_errors=True)
        os.makedirs(self.base)
        self.n = 0

    def new(self):
        self.n += 1
        return os.path.join(self.base, "%d" % self.n)

    def cleanup(self):
        shutil.rmtree(self.base, ignore_errors=True)
        try:
            os.rmdir(BASE)
        except OSError:
            pass


def tree_term(dirs, files):
    return "{| dirs := %s; files := %s |}" % (clist([cstr(d) for d in dirs]), clist([cstr(f) for f in files]))


def run_tree_case(chk, roots, dirs, files, cfgs, lookups, kind, keep_root=None, serve=True):
    """Build the tree, run every configuration through the public API + oracle; return (coq term, replay objs)."""
    root = keep_root or roots.new()
    files = sorted(files)
    dirs = all_dirs(dirs, files)
    make_tree(root, dirs, files)
    obs = []
    try:
        for ci, cfg in enumerate(cfgs):
            if serve and (ci < 2 or is_default(cfg)):
                sp = files + [p for p in lookups if p not in files][:10]
                finds, listed, served = run_finder(root, cfg, lookups, sp)
                oracle(chk, root, dirs, files, cfg, lookups, finds, listed, sp, served)
            else:
                finds, listed = run_finder(root, cfg, lookups)
                oracle(chk, root, dirs, files, cfg, lookups, finds, listed)
            nsusp = sum(1 for r in finds if r[0] == "susp")
            nfound = sum(1 for r in finds if r[0] == "found")
            nontriv = 0 < len(listed) < len(files) and nfound > 0 and nsusp > 0
            chk.count((tuple(dirs), tuple(files), json.dumps(cfg, sort_keys=True), tuple(lookups)), nontriv, kind=kind,
                      sample={"files": files, "config": cfg, "listed": listed,
                              "finds": [[p] + list(r) for p, r in list(zip(lookups, finds))[:8]]} if nontriv else None)
            obs.append("(%s, %s, %s)" % (cfg_coq(cfg), clist([fres_coq(r) for r in finds]), clist([cstr(x) for x in listed])))
    finally:
        shutil.rmtree(root, ignore_errors=True)
    term = "(%s, %s, %s, %s)" % (cstr(root), tree_term(dirs, files), clist([cstr(p) for p in lookups]), clist(obs))
    return term, {"kind": "tree", "dirs": dirs, "files": files, "configs": cfgs, "lookups": lookups}


# ------------------------------------------------------------------------------------------------
# generators
# ------------------------------------------------------------------------------------------------
FILE_NAMES = ["a.js", "a.min.js", "a.minXjs", "abdxjs.js", "a.d.js", "x.css", "x.JS", "x.Js", "x.jss", "x.js~", "js", ".js",
              "a.js\n", "a.py\n", "m.py", "m.pyc", "m.PY", "m.py.js", "m.js.py", "t.html", "t.htm", "t.django", "t.dj",
              "t.tpl", "w[1].js", "a+b.css", "a$.js", "a.js$", "(x).ts", "a^b.js", "a|b.js", "q?.js", "st*r.js", "b\\s.js",
              "sp ace.js", "ünï.js", "a.јs", "a.svg", "a.jpeg", "..js", "...", "a..js", "a.js.", "_p.js",
              "a.min\njs", "{2}.js", "a.tsx", "py", "a.htmlx"]
DIR_NAMES = ["sub", "d.js", "secret", "_priv", "py", "x.py", "s.min.js", "n\nl", "a b", "...", "a.js.d", "t.html"]
SUFFIXES = [".js", ".min.js", ".d.js", ".css", "", "js", ".py", ".html", ".j.", "a.js", "/a.js", "s/a.js", "b/a.js", ".js\n", "\n",
            ".JS", "[1].js", "$", ".js$", "+b.css", "\\s.js", ".*", ".", "..", "?.js", "(x).ts", "|b.js", "^b.js", "ï.js",
            ".ts", ".tsx", ".svg", ".pyc", ".dj", ".tpl", ".django", "{2}.js", ".min\njs", "x", ".js.py", ".py.js", "\\.js",
            "[a-z]", ".j", "s", "secret/b.js"]
COMPILED = [["re", "contains", ".min."], ["re", "starts", "secret/"], ["re", "starts", "a"], ["re", "endsz", ".js"],
            ["re", "segstart", "_"], ["re", "contains", "/"], ["re", "starts", ""], ["re", "contains", "py"],
            ["re", "starts", "/tmp"], ["re", "contains", "c17"], ["re", "endsz", ".py"], ["re", "segstart", "sub/"],
            ["re", "starts", "sub"], ["re", "contains", "\n"], ["re", "segstart", "."]]

WITNESS_CONFIGS = [
    {"allowed": [["suf", ".min.js"]], "forbidden": []},
    {"allowed": [["suf", ".js"]], "forbidden": [["suf", ".d.js"]]},
    {"allowed": [["suf", ".js"]], "forbidden": [["re", "starts", "secret/"]]},
    {"allowed": [["re", "starts", "a"]], "forbidden": []},
    {"allowed": [["suf", "/a.js"]], "forbidden": []},
    {},
    {"allowed": [["suf", ""]], "forbidden": []},
    {"allowed": [], "forbidden": []},
    {"deprecated": [["suf", ".js"]]},
    {"forbidden": [], "deprecated": [["suf", ".js"]]},
    {"allowed": [["suf", ".py"], ["suf", ".js"]]},
    {"allowed": [["suf", ".py"], ["suf", ".js"]], "forbidden": []},
]


def gen_pat(rng):
    if rng.random() < 0.75:
        return ["suf", rng.choice(SUFFIXES)]
    return list(rng.choice(COMPILED))


def gen_config(rng):
    r = rng.random()
    if r < 0.12:
        return dict(rng.choice(WITNESS_CONFIGS))
    cfg = {}
    if rng.random() < 0.85:
        cfg["allowed"] = [gen_pat(rng) for _ in range(rng.choice([0, 1, 1, 2, 2, 3]))]
        if rng.random() < 0.3:
            cfg["allowed"].append(["suf", ".js"])
    r = rng.random()
    if r < 0.6:
        cfg["forbidden"] = [gen_pat(rng) for _ in range(rng.choice([0, 1, 1, 2, 3]))]
    if rng.random() < 0.25:
        cfg["deprecated"] = [gen_pat(rng) for _ in range(rng.choice([0, 1, 2]))]
    return cfg


def gen_tree(rng):
    dirs, files, taken = [], set(), set()
    ndirs = rng.choice([0, 1, 1, 2, 3])
    dpool = [""]
    for _ in range(ndirs):
        parent = rng.choice(dpool)
        d = (parent + "/" if parent else "") + rng.choice(DIR_NAMES)
        if d not in taken:
            taken.add(d)
            dpool.append(d)
            dirs.append(d)
    for _ in range(rng.choice([1, 2, 3, 4, 5, 6, 8])):
        parent = rng.choice(dpool)
        f = (parent + "/" if parent else "") + rng.choice(FILE_NAMES)
        if f not in taken:
            taken.add(f)
            files.add(f)
    return dirs, sorted(files)


def gen_lookups(rng, root, dirs, files, n_extra):
    out = list(files)
    base = os.path.basename(root)
    parent = os.path.dirname(root)
    fixed = ["", ".", "..", "/", "//", "/etc/passwd", "//etc/passwd", "../" + base, "../" + base + "x/a.js", root, root + "/",
             root + "x/a.js", parent, "nope.js"]
    out += rng.sample(fixed, 5)
    variants = [lambda f: "./" + f, lambda f: "sub/../" + f, lambda f: f + "/", lambda f: "/" + f, lambda f: root + "/" + f,
                lambda f: "../" + f, lambda f: "../" + base + "/" + f, lambda f: root + "x/../" + base + "/" + f,
                lambda f: f.upper(), lambda f: f + "\n", lambda f: "zz/../../" + base + "/" + f, lambda f: "//" + root + "/" + f,
                lambda f: f.replace("/", "//"), lambda f: f + "/..", lambda f: f + "/.", lambda f: "../../" + f,
                lambda f: root + "/../" + f, lambda f: os.path.dirname(f), lambda f: "./" + f + "/../" + os.path.basename(f),
                lambda f: ".../" + f, lambda f: root[1:] + "/" + f]
    atoms = ["/", "/", ".", "..", "a.js", "sub", "\n", "js", ".js", "secret", "...", base]
    for _ in range(n_extra):
        r = rng.random()
        if files and r < 0.7:
            out.append(rng.choice(variants)(rng.choice(files)))
        elif dirs and r < 0.8:
            out.append(rng.choice(dirs))
        else:
            out.append("".join(rng.choice(atoms) for _ in range(rng.randint(1, 6))))
    seen, res = set(), []
    for p in out:
        if p not in seen and "\0" not in p:
            seen.add(p)
            res.append(p)
    return res


def load_corpus():
    d = os.path.join(C.VERIF, "corpus", "C17")
    out = []
    if os.path.isdir(d):
        for f in sorted(os.listdir(d)):
            if f.endswith(".json"):
                o = json.load(open(os.path.join(d, f)))
                o["_file"] = f
                out.append(o)
    return out


# ------------------------------------------------------------------------------------------------
def run_valid_cases(chk, roots, n_cfg, n_names):
    """V: _is_path_valid on plain strings."""
    import djsetup
    from django_components.finders import ComponentsFileSystemFinder
    rng = chk.rng
    root = roots.new()
    os.makedirs(root)
    pool = list(FILE_NAMES) + [d + "/" + f for d in DIR_NAMES[:6] for f in FILE_NAMES[:12]] + \
        ["", "\n", "/", ".", "a.js\n\n", "a.js\r\n", "\n.js", "a.js\n/", root + "/a.js", root + "/secret/b.js", "a.js/", "/a.js"]
    atoms = [".", "js", "j", "s", "\n", "/", "a", "min", "py", "$", "\\", "*", "X", "d", "b", "x", "[", "]", "c", "h", "t", "m", "l"]
    terms, cases, mism = [], [], []
    cfgs = [dict(c) for c in WITNESS_CONFIGS] + [gen_config(rng) for _ in range(n_cfg)]
    for cfg in cfgs:
        names = rng.sample(pool, min(len(pool), n_names // 2))
        names += ["".join(rng.choice(atoms) for _ in range(rng.randint(0, 7))) for _ in range(n_names - len(names))]
        # names built from the configuration's own suffixes (so that allowed/forbidden both fire)
        sufs = [p[1] for k in ("allowed", "forbidden", "deprecated") for p in (cfg.get(k) or []) if p[0] == "suf"]
        for s in sufs[:4]:
            names += ["a" + s, "a" + s + "\n", "d/" + s, s[1:] if s else "q", ("a" + s)[:-1] + "X" if s else "q"]
        obs = []
        with djsetup.components_settings(**cfg_settings(cfg, root)):
            finder = ComponentsFileSystemFinder()
            for nm in names:
                try:
                    v = bool(finder._is_path_valid(nm))
                except Exception as e:  # noqa
                    v = None
                sv = spec_valid(cfg, nm)
                allowed_hit = any(pat_spec(p, nm) for p in cfg_effective(cfg)[0])
                chk.count(("V", json.dumps(cfg, sort_keys=True), nm), allowed_hit, kind="valid-string")
                if v is None or not spec_ok(cfg, nm, v):
                    mism.append((cfg, nm, v, sv))
                obs.append("(%s, %s)" % (cstr(nm), cbool(not sv if v is None else v)))   # an exception never equals the model
        terms.append("(%s, %s)" % (cfg_coq(cfg), clist(obs)))
        cases.append((cfg, names))
    shutil.rmtree(root, ignore_errors=True)
    bad = C.coq_eval_cases("C17", "valid", IMPORTS, "valid_case", "check_valid", terms, shard=60)
    for i in bad[:10]:
        chk.disagree("is_path_valid model != ComponentsFileSystemFinder._is_path_valid", {"kind": "valid", "config": cases[i][0], "names": cases[i][1]})
    # materialise mismatches against the property's reading as real trees (public API, concrete replay)
    done = 0
    for cfg, nm, v, sv in mism:
        if done >= 8:
            break
        if clean_rel(nm) and "\0" not in nm and len(nm) < 200:
            done += 1
            try:
                run_tree_case(chk, roots, [], [nm], [cfg], [nm], "materialised")
            except OSError:
                pass
    if mism and not chk.failures:
        cfg, nm, v, sv = mism[0]
        chk.disagree("_is_path_valid(%r) = %r but the property's reading of the configuration gives %r (name cannot be a file)" % (nm, v, sv),
                     {"kind": "valid", "config": cfg, "names": [nm]})


def run_sj_cases(chk, maxlen, nrandom):
    """J: safe_join / relpath arithmetic."""
    from django.core.exceptions import SuspiciousFileOperation
    from django.utils._os import safe_join
    rng = chk.rng
    roots = ["/tmp/c17/r", "/r", "/", "//r", "/a/b", "/a/", "/a/../b", "///r", "/a/./b//"]
    paths = ["".join(t) for L in range(maxlen + 1) for t in itertools.product("/.a", repeat=L)]
    atoms = ["/", "/", ".", "..", "a", "b", "r", "tmp", "c17", "\n", "...", "a.js", "//"]
    terms, cases = [], []
    for root in roots:
        ps = list(paths) + ["".join(rng.choice(atoms) for _ in range(rng.randint(1, 9))) for _ in range(nrandom)]
        ps += [root + "/" + p for p in rng.sample(paths, 40)] + [root + p for p in rng.sample(paths, 40)]
        for si in range(0, len(ps), 150):
            obs = []
            for p in ps[si:si + 150]:
                try:
                    q = safe_join(root, p)
                    r = (q, os.path.relpath(q, root))
                except SuspiciousFileOperation:
                    r = None
                chk.count(("J", root, p), ".." in p.split("/") or p.startswith("/"), kind="safe_join")
                obs.append("(%s, %s)" % (cstr(p), copt(r, lambda v: "(%s, %s)" % (cstr(v[0]), cstr(v[1])))))
            terms.append("(%s, %s)" % (cstr(root), clist(obs)))
            cases.append((root, ps[si:si + 150]))
    bad = C.coq_eval_cases("C17", "sj", IMPORTS, "sj_case", "check_sj", terms, shard=8)
    for i in bad[:10]:
        chk.disagree("safe_join/relpath model != django safe_join / os.path.relpath", {"kind": "sj", "root": cases[i][0], "paths": cases[i][1]})


def run(tier, seed):
    import djsetup
    import gen_constants
    djsetup.setup()
    gen_constants.generate(["C17"])
    chk = C.Check("C17", tier, seed)
    chk.prove()
    thorough = tier == "thorough"
    rng = chk.rng
    roots = Roots()
    from django.test import override_settings
    ov = override_settings(STATICFILES_FINDERS=["django_components.finders.ComponentsFileSystemFinder"], STATIC_URL="/static/", DEBUG=True)
    ov.enable()
    try:
        terms, reps = [], []
        # ---- corpus first (direct oracle; also compared with the model) ----
        for o in load_corpus():
            t, rep = run_tree_case(chk, roots, o.get("dirs", []), o["files"], o["configs"], o["lookups"], "corpus")
            terms.append(t)
            reps.append(rep)
        # ---- X: every lookup string over {'/', '.', 'a'} up to a bound, fixed small tree ----
        L = 7 if thorough else 6
        allp = ["".join(t) for n in range(L + 1) for t in itertools.product("/.a", repeat=n)]
        xcfgs = [{"allowed": [["suf", "a"]], "forbidden": [["suf", ".a"]]}, {"allowed": [["suf", ""]], "forbidden": []}]
        for si in range(0, len(allp), 120):
            root = roots.new()
            t, rep = run_tree_case(chk, roots, ["a", "a/..."], ["a/a", "a/.a", "...", "a/.../a", "a.a"], xcfgs,
                                   allp[si:si + 120] + ["../" + os.path.basename(root) + "/" + p for p in allp[si:si + 120:6]],
                                   "exhaustive-lookup", keep_root=root)
            terms.append(t)
            reps.append(rep)
        # ---- F: single-file trees x witness configurations (smallest cases), then random trees ----
        for f in FILE_NAMES:
            for d in ("", "secret/", "d.js/"):
                root = roots.new()
                lk = gen_lookups(rng, root, [], [d + f], 4)
                t, rep = run_tree_case(chk, roots, [], [d + f], WITNESS_CONFIGS, lk, "single-file", keep_root=root)
                terms.append(t)
                reps.append(rep)
        for _ in range(5000 if thorough else 260):
            dirs, files = gen_tree(rng)
            root = roots.new()
            lk = gen_lookups(rng, root, dirs, files, 14)
            cfgs = [gen_config(rng) for _ in range(5)] + ([{}] if rng.random() < 0.3 else [])
            t, rep = run_tree_case(chk, roots, dirs, files, cfgs, lk, "random-tree", keep_root=root)
            terms.append(t)
            reps.append(rep)
        bad = C.coq_eval_cases("C17", "finder", IMPORTS, "finder_case", "check_finder", terms, shard=40)
        for i in bad[:10]:
            chk.disagree("Finder model != ComponentsFileSystemFinder.find/list", reps[i])
        # ---- V, J ----
        run_valid_cases(chk, roots, 3000 if thorough else 220, 40)
        run_sj_cases(chk, 7 if thorough else 6, 1500 if thorough else 300)
    finally:
        ov.disable()
        roots.cleanup()
    chk.extra.update(STATS)
    chk.assumptions = [
        "POSIX paths; component directories are absolute and resolved (get_component_dirs enforces both), no symlinks inside them",
        "accepted corner, modelled faithfully: a suffix is compiled to re.escape(suffix)+'$' and `$` also matches before ONE trailing "
        "newline, so a file literally named 'a.js\\n' counts as ending with '.js' (both for allowed and for forbidden suffixes)",
        "compiled patterns given in the settings are opaque predicates on the path relative to the component directory; the theorems "
        "quantify over arbitrary predicates, the correspondence uses four families (contains / ^prefix / suffix\\Z / (^|/)prefix)",
        "os.path.exists is modelled by membership in the set of paths of the generated tree (root, its directories, its files)",
        "the `prefix` branch of find_location is dead code (locations always carry prefix '') and is not modelled",
        "find() may return a DIRECTORY whose name passes the filter (same as Django's FileSystemFinder); the property speaks about files",
    ]
    return chk.finish(
        rule="F: real trees under /tmp/c17 (1-8 files from %d look-alike/multi-dot/upper-case/metacharacter/newline names in 0-3 nested dirs) x "
             "configurations (suffix strings incl. multi-dot, metacharacters, '/', '', newline; compiled regexes; empty lists; unset; deprecated "
             "forbidden_static_files) x lookup paths (every file by name + traversal / absolute / prefix-trick / re-entry variants), all through "
             "finder.find(all=True), finder.find, finder.list([]); for the first two configurations of every tree (and every default one) also "
             "through the dev-server view django.contrib.staticfiles.views.serve (file content = its relative path, so a 200 body names the file "
             "served) and the collectstatic iteration get_finders()...list(). X: EVERY lookup string of length <= %d over {'/','.','a'} on a fixed tree. "
             "V: _is_path_valid on plain strings x configurations. J: safe_join+relpath on every string <= %d over {'/','.','a'} + random x 9 roots. "
             "Non-trivial: F = some but not all files listed and at least one lookup found and one refused as suspicious; V = name matches an "
             "allowed pattern; J = path has a '..' segment or is absolute. Distinct = distinct (tree, configuration, lookups) / (config, name) / (root, path)."
             % (len(FILE_NAMES), L, 7 if thorough else 6),
        explanation="Theorems of Props/C17.v re-checked by coqc (incl. anchors against the constants generated from the current source); "
                    "model evaluated by vm_compute inside Coq on every case and compared with the implementation; the direct oracle restates "
                    "the property in Python without `re` (list == exactly the valid files; file found by name iff valid iff listed; every find "
                    "result lies inside the directory; defaults never expose backend suffixes).",
        extra_trusted=["modelled, not verified: Python `re` (escape, `$`), posixpath.join/normpath/relpath, django safe_join, os.path.exists, "
                       "FileSystemStorage.listdir / get_files (the model filters the given file list)",
                       "harness/gen_c17.py (prints the default lists and the probe regex text as Coq literals)"])


def replay(path):
    import djsetup
    djsetup.setup()
    r = json.load(open(path))
    case = r.get("case", r)
    print(json.dumps(r, indent=1)[:4000])
    if case.get("kind") == "tree":
        chk = C.Check("C17", "quick", 0)
        roots = Roots()
        try:
            cfgs = case.get("configs") or [case["config"]]
            lookups = case.get("lookups") or list(case["files"])
            if case.get("lookup") is not None and case["lookup"] not in lookups:
                lookups = lookups + [case["lookup"]]
            root = roots.new()
            files = sorted(case["files"])
            dirs = all_dirs(case.get("dirs", []), files)
            make_tree(root, dirs, files)
            for cfg in cfgs:
                finds, listed = run_finder(root, cfg, lookups)
                print("config:", cfg)
                print(" implementation list():", listed)
                print(" property says        :", sorted(f for f in files if spec_valid(cfg, f)))
                for p, fr in zip(lookups, finds):
                    print(" implementation find(%r) -> %r" % (p, fr))
                oracle(chk, root, dirs, files, cfg, lookups, finds, listed)
            shutil.rmtree(root, ignore_errors=True)
            t, _ = run_tree_case(chk, roots, case.get("dirs", []), files, cfgs, lookups, "replay")
            bad = C.coq_eval_cases("C17", "replay", IMPORTS, "finder_case", "check_finder", [t])
            print("model agrees with implementation:", not bad)
            for trig, what, _ in chk.failures[:10]:
                print("ORACLE FAILURE [%s]: %s" % (trig, what))
            return 1 if chk.failures else 0
        finally:
            roots.cleanup()
    return 0
