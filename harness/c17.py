"""C17 - the static-files finder exposes exactly the allowed, non-forbidden files.

Model: coq/Finder/Model.v   Proofs: coq/Finder/Proofs.v, Multi.v   Theorems: coq/Props/C17.v
Generated constants: coq/Gen/C17.v (harness/gen_c17.py)
Correspondence (model evaluated inside Coq by vm_compute, implementation = /repo's ComponentsFileSystemFinder):
  F  real directory layouts under /tmp/c17: SEVERAL component directories (COMPONENTS.dirs incl. missing / duplicated /
     un-normalised entries, COMPONENTS.app_dirs below two generated Django apps, nested directories, the same relative name
     in two directories), prefix-named SIBLING directories and files outside every component directory
     x configurations x lookup paths, through the PUBLIC api finder.find(path), finder.find(path, all=True),
     finder.list([]), finder.list(ignore patterns), django.contrib.staticfiles.finders.find, the dev-server view
     django.contrib.staticfiles.views.serve and the collectstatic management command (--dry-run; real copy in thorough)
  X  every lookup string up to a length bound over the alphabet {'/', '.', 'a'} against a fixed small layout
  V  _is_path_valid on plain strings (names that cannot all be materialised: newlines, empty, slashes) x configurations
  J  django safe_join + os.path.relpath against the model's path arithmetic, several roots
The direct oracle restates the property on the implementation's answers only (never on the model): exposure of every file,
containment of every returned / served / collected path in the component directories (os.path.realpath), defaults.
"""
import fnmatch
import hashlib
import io
import itertools
import json
import multiprocessing
import os
import re
import resource
import shutil
import sys
import time

import common as C
from common import cbool, clist, copt, cstr

sys.path.insert(0, os.path.join(os.path.dirname(os.path.abspath(__file__)), "c17apps"))

IMPORTS = "From DJC Require Import Lib.Base Finder.Model."
BASE = "/tmp/c17"
BACKEND = [".py", ".pyc", ".html", ".django", ".dj", ".tpl"]
META = set(".^$*+?{}[]\\|()")
BTOK = "<B>"                      # placeholder for the absolute base directory of a layout inside lookup strings
APPS = ("c17app_a", "c17app_b")   # generated Django apps (harness/c17apps); AppConfig.path is pointed into the layout
DEFAULT_IGNORE = ["CVS", ".*", "*~"]      # django.contrib.staticfiles.apps.StaticFilesConfig.ignore_patterns

# ------------------------------------------------------------------------------------------------
# pattern / configuration descriptors  (JSON-able):  ["suf", s] | ["re", kind, s]
# ------------------------------------------------------------------------------------------------
RE_KINDS = {
    "contains": (lambda s: re.compile(re.escape(s)), "ReContains", lambda s, n: s in n),
    "starts": (lambda s: re.compile("^" + re.escape(s)), "ReStarts", lambda s, n: n.startswith(s)),
    "endsz": (lambda s: re.compile(re.escape(s) + r"\Z"), "ReEndsZ", lambda s, n: n.endswith(s)),
    "segstart": (lambda s: re.compile("(^|/)" + re.escape(s)), "ReSegStart", lambda s, n: n.startswith(s) or ("/" + s) in n),
}


# ["rx", text, flags]: an arbitrary user-compiled regex, flags = letters of I (IGNORECASE) X (VERBOSE) S (DOTALL) M (MULTILINE).
# "matches an allowed / forbidden pattern" means: the pattern's OWN compiled object finds a match (p.search(name)).
FLAGS = {"I": re.IGNORECASE, "X": re.VERBOSE, "S": re.DOTALL, "M": re.MULTILINE}
_RX = {}


def rx(text, flags):
    k = (text, flags)
    if k not in _RX:
        f = 0
        for c in flags:
            f |= FLAGS[c]
        _RX[k] = re.compile(text, f)
    return _RX[k]


def pat_py(p):
    if p[0] == "rx":
        return rx(p[1], p[2])
    return p[1] if p[0] == "suf" else RE_KINDS[p[1]][0](p[2])


def pat_coq(p, names=()):
    if p[0] == "suf":
        return "Suffix %s" % cstr(p[1])
    if p[0] == "rx":       # opaque predicate for the model: the table of the case's names the pattern itself matches
        r = rx(p[1], p[2])
        return "Compiled (re_search (ReTable %s))" % clist([cstr(n) for n in names if r.search(n) is not None])
    return "Compiled (re_search (%s %s))" % (RE_KINDS[p[1]][1], cstr(p[2]))


def pat_spec(p, name, dollar=True):
    """The property's own reading of one pattern, without `re`.
    dollar=True : accepted corner (see chk.assumptions) - a final newline of the name is ignored, as `$` does;
    dollar=False: strict `endswith`. The oracle accepts either verdict where the two readings differ."""
    if p[0] == "suf":
        s = p[1]
        return name.endswith(s) or (dollar and name.endswith("\n") and name[:-1].endswith(s))
    if p[0] == "rx":
        return rx(p[1], p[2]).search(name) is not None
    return RE_KINDS[p[1]][2](p[2], name)


def has_rx(cfg):
    return any(p[0] == "rx" for k in ("allowed", "forbidden", "deprecated") for p in (cfg.get(k) or []))


def cfg_coq(cfg, names=()):
    def f(l):
        return copt(l, lambda v: clist([pat_coq(p, names) for p in v]))
    return "{| static_files_allowed := %s; static_files_forbidden := %s; forbidden_static_files := %s |}" % (
        f(cfg.get("allowed")), f(cfg.get("forbidden")), f(cfg.get("deprecated")))


def cfg_settings(cfg, dirs, app_dirs=()):
    kw = {"dirs": list(dirs), "app_dirs": list(app_dirs)}
    for k, name in (("allowed", "static_files_allowed"), ("forbidden", "static_files_forbidden"),
                    ("deprecated", "forbidden_static_files")):
        if cfg.get(k) is not None:
            kw[name] = [pat_py(p) for p in cfg[k]]
    return kw


def cfg_effective(cfg):
    # default settings = the suffix lists of /repo's `defaults` object; if that object does not hold lists of suffix strings, the
    # DOCUMENTED default suffix lists (gen_c17.default_lists) - the generator then also records a broken proof obligation
    import gen_c17
    dallowed, dforbidden, _ = gen_c17.default_lists()
    allowed = cfg.get("allowed")
    if allowed is None:
        allowed = [["suf", s] for s in dallowed]
    forb = cfg.get("forbidden")
    if forb is None:
        forb = cfg.get("deprecated")
    if forb is None:
        forb = [["suf", s] for s in dforbidden]
    return allowed, forb


def spec_valid(cfg, name, dollar=True):
    allowed, forb = cfg_effective(cfg)
    return any(pat_spec(p, name, dollar) for p in allowed) and not any(pat_spec(p, name, dollar) for p in forb)


def spec_ok(cfg, name, observed):
    """Is `observed` (exposed or not) a verdict the property admits for this name?"""
    return observed == spec_valid(cfg, name) or (name.endswith("\n") and observed == spec_valid(cfg, name, False))


def is_default(cfg):
    return cfg.get("allowed") is None and cfg.get("forbidden") is None and cfg.get("deprecated") is None


def has_meta_suffix(cfg):
    return any(p[0] == "suf" and (set(p[1]) & META) for k in ("allowed", "forbidden", "deprecated") for p in (cfg.get(k) or []))


def clean_rel(p):
    return p != "" and all(s not in ("", ".", "..") for s in p.split("/"))


def under(q, root):
    """component-wise containment (never a string-prefix test)"""
    return q == root or q.startswith(root.rstrip("/") + "/")


# ------------------------------------------------------------------------------------------------
# physical layouts
#   case = {"kind": "layout", "pdirs": [...], "pfiles": [...]        paths relative to the base directory B
#           "dirs": [...]          COMPONENTS.dirs entries, relative to B (joined textually: may be un-normalised / missing)
#           "apps": {"c17app_a": rel or None, ...}   AppConfig.path relative to B,   "app_dirs": [...]  COMPONENTS.app_dirs
#           "configs": [...], "lookups": [... may contain <B> ...], "serve": bool, "tag": str}
# ------------------------------------------------------------------------------------------------
def closure_dirs(pdirs, pfiles):
    out = set()
    for p in list(pdirs) + [os.path.dirname(f) for f in pfiles]:
        while p:
            out.add(p)
            p = os.path.dirname(p)
    return sorted(out)


def make_layout(base, pdirs, pfiles):
    os.makedirs(base)
    for d in pdirs:
        os.makedirs(os.path.join(base, d), exist_ok=True)
    for f in pfiles:
        os.makedirs(os.path.dirname(os.path.join(base, f)), exist_ok=True)
        with open(os.path.join(base, f), "w", encoding="utf-8", errors="surrogateescape") as fh:
            fh.write(os.path.join(base, f))          # content = absolute path: a served / copied body identifies the file


def expected_locations(base, case):
    """The component directories as the documentation of get_component_dirs defines them (set; order is unspecified)."""
    out = set()
    for d in case["dirs"]:
        out.add(os.path.normpath(os.path.join(base, d)))
    for app, rel in sorted((case.get("apps") or {}).items()):
        if rel is None:
            continue
        for ad in case.get("app_dirs") or []:
            p = os.path.join(base, rel, ad)
            if os.path.exists(p):
                out.add(os.path.normpath(p))
    return out


def loc_tree(base, case, root):
    """(present, dirs, files) below the absolute directory `root`, from the layout description."""
    pd = closure_dirs(case["pdirs"], case["pfiles"])
    absd = {os.path.join(base, d) for d in pd} | {base}
    present = root in absd
    ds = sorted(d[len(root) + 1:] for d in absd if d.startswith(root + "/")) if present else []
    fs = sorted(f[len(root) + 1:] for f in (os.path.join(base, x) for x in case["pfiles"]) if f.startswith(root + "/")) if present else []
    return present, ds, fs


STATS = {"find_calls": 0, "list_calls": 0, "served_requests": 0, "staticfiles_find_calls": 0, "collectstatic_runs": 0,
         "collectstatic_real_copies": 0, "layouts": 0, "layouts_multi_root": 0, "layouts_with_app_dirs": 0,
         "layouts_same_name_in_two_dirs": 0, "lookups_aimed_outside": 0, "returned_paths_checked_with_realpath": 0,
         "newline_names_judged": 0, "newline_names_where_readings_differ": 0, "newline_differ_exposed_by_dollar_on_allowed_side": 0,
         "newline_differ_hidden_by_dollar_on_forbidden_side": 0, "uppercase_backend_names_judged": 0,
         "uppercase_backend_names_exposed_nondefault_config": 0, "uppercase_backend_names_exposed_default_config": 0,
         "listed_files_shadowed_by_directory_in_dev_server": 0, "directories_returned_by_find": 0,
         "real_collectstatic_not_applicable_file_dir_destination_conflict": 0,
         "real_collectstatic_not_applicable_backslash_destination_collision": 0, "configs_with_flagged_or_grouped_regex": 0, "verdicts_depending_on_a_regex_flag": 0}
_RF = []


def set_app_paths(base, case):
    from django.apps import apps
    for app in APPS:
        rel = (case.get("apps") or {}).get(app)
        apps.get_app_config(app).path = os.path.join(base, rel if rel is not None else "_noapp_" + app)


def run_config(base, case, cfg, lookups, do_served, thorough):
    """Everything observed on the implementation for one configuration (public API only)."""
    import djsetup
    from django_components.finders import ComponentsFileSystemFinder
    obs = {}
    dirs = [os.path.join(base, d) for d in case["dirs"]]
    with djsetup.components_settings(**cfg_settings(cfg, dirs, case.get("app_dirs") or [])):
        try:
            finder = ComponentsFileSystemFinder()
        except Exception as e:  # noqa   (a crash is a finding about the implementation, never a harness error)
            return {"crash": "ComponentsFileSystemFinder() raised %s: %.200s" % (type(e).__name__, e)}
        obs["locs"] = [r for _, r in finder.locations]
        obs["prefixes"] = sorted({p for p, _ in finder.locations})
        finds = []
        STATS["find_calls"] += 2 * len(lookups)
        for p in lookups:
            try:
                r = finder.find(p)
                r1 = ("none",) if (r == [] or r is None) else (("found", r) if isinstance(r, str) else ("err", repr(r)))
            except Exception as e:  # noqa
                r1 = ("susp",) if type(e).__name__ == "SuspiciousFileOperation" else ("err", type(e).__name__)
            try:
                r = finder.find(p, all=True)
                ra = ("all", list(r)) if isinstance(r, list) and all(isinstance(x, str) for x in r) else ("err", repr(r))
            except Exception as e:  # noqa
                ra = ("susp",) if type(e).__name__ == "SuspiciousFileOperation" else ("err", type(e).__name__)
            finds.append((r1, ra))
        obs["finds"] = finds
        STATS["list_calls"] += 2
        for key, pats in (("listed", []), ("listed_ign", list(DEFAULT_IGNORE))):
            try:
                obs[key] = [(storage.location, path) for path, storage in finder.list(pats)]
            except Exception as e:  # noqa
                obs[key] = [("\0list() raised " + type(e).__name__, "")]
        if do_served:
            obs["served"] = run_served(base, case, cfg, lookups, thorough)
    return obs


def run_served(base, case, cfg, lookups, thorough):
    """Dev server, django.contrib.staticfiles.finders.find and collectstatic (inside the settings override)."""
    from django.contrib.staticfiles import finders as sf
    from django.contrib.staticfiles.views import serve
    from django.core.exceptions import SuspiciousOperation
    from django.core.management import call_command
    from django.http import Http404
    from django.test import RequestFactory, override_settings
    if not _RF:
        _RF.append(RequestFactory())
    out = {"reqs": [], "sf": [], "collect": None, "collect_ign": None, "real": None, "get_finders": None}
    sf.get_finder.cache_clear()
    try:
        for p in lookups:
            STATS["served_requests"] += 1
            try:
                r = serve(_RF[0].get("/static/x"), p)
                body = b"".join(r.streaming_content).decode("utf-8", "surrogateescape") if r.status_code == 200 else None
                r.close()
                out["reqs"].append(("file", body) if body is not None else ("404",))
            except Http404:
                out["reqs"].append(("404",))
            except SuspiciousOperation:
                out["reqs"].append(("susp",))
            except Exception as e:  # noqa
                # BadHeaderError: Django refuses a newline in the Content-Disposition file name - the file is found but the
                # response cannot be built; neither an exposure nor a finder failure
                out["reqs"].append(("skip",) if type(e).__name__ == "BadHeaderError" else ("err", type(e).__name__))
            STATS["staticfiles_find_calls"] += 2
            res = []
            for kw in ({}, {"all": True}):
                try:
                    r = sf.find(p, **kw)
                    res.append(("ok", r))
                except Exception as e:  # noqa
                    res.append(("susp",) if type(e).__name__ == "SuspiciousFileOperation" else ("err", type(e).__name__))
            out["sf"].append(tuple(res))
        try:        # what collectstatic iterates
            out["get_finders"] = [(storage.location, path) for finder in sf.get_finders() for path, storage in finder.list([])]
        except Exception as e:  # noqa
            out["get_finders"] = [("\0get_finders()...list() raised " + type(e).__name__, "")]
        sroot = os.path.join(base + "_static")
        with override_settings(STATIC_ROOT=sroot):
            for key, use_default in (("collect", False), ("collect_ign", True)):
                STATS["collectstatic_runs"] += 1
                buf = io.StringIO()
                try:
                    call_command("collectstatic", dry_run=True, interactive=False, verbosity=1, stdout=buf,
                                 use_default_ignore_patterns=use_default)
                    out[key] = re.findall(r"Pretending to copy '(.*?)'\n(?=Pretending to copy '|Found another file|\n\d+ static files? copied|\Z)",
                                          buf.getvalue(), flags=re.S)
                except Exception as e:  # noqa
                    out[key] = ["\0collectstatic raised " + type(e).__name__]
            if thorough:
                STATS["collectstatic_real_copies"] += 1
                try:
                    call_command("collectstatic", interactive=False, verbosity=0, stdout=io.StringIO(), use_default_ignore_patterns=False)
                    real = {}
                    for d, _, fs in os.walk(sroot):
                        for f in fs:
                            fp = os.path.join(d, f)
                            with open(fp, encoding="utf-8", errors="surrogateescape") as fh:
                                real[fp[len(sroot) + 1:]] = fh.read()
                    out["real"] = real
                except Exception as e:  # noqa
                    out["real"] = {"\0collectstatic raised " + type(e).__name__: ""}
                finally:
                    shutil.rmtree(sroot, ignore_errors=True)
    finally:
        sf.get_finder.cache_clear()
    return out


# ------------------------------------------------------------------------------------------------
# Coq terms of the observations
# ------------------------------------------------------------------------------------------------
_B = [None]          # absolute base directory of the layout being printed: factored out of the literals as `b ++ ...`


def bstr(x):
    b = _B[0]
    if b is not None and x.startswith(b):
        return "(b ++ %s)" % cstr(x[len(b):])
    return cstr(x)


def fres_coq(r):
    if r[0] == "found":
        return "FFound %s" % bstr(r[1])
    if r[0] == "none":
        return "FNotFound"
    if r[0] == "susp":
        return "FSuspicious"
    return "FUnmodelled"     # never produced by the model for absolute roots => shows up as a disagreement


def fares_coq(r):
    if r[0] == "all":
        return "FAll %s" % clist([bstr(q) for q in r[1]])
    if r[0] == "susp":
        return "FASuspicious"
    return "FAUnmodelled"


def sres_coq(r):
    if r[0] == "file":
        return "SFile %s" % bstr(r[1])
    if r[0] == "404":
        return "S404"
    if r[0] == "susp":
        return "SSuspicious"
    return "SUnmodelled"


def loc_coq(root, present, ds, fs):
    return "{| loc_root := %s; loc_present := %s; loc_tree := {| dirs := %s; files := %s |} |}" % (
        bstr(root), cbool(present), clist([cstr(d) for d in ds]), clist([cstr(f) for f in fs]))


def pairs_coq(l):
    return clist(["(%s, %s)" % (bstr(a), cstr(b)) for a, b in l])


def group_by_location(locs, pairs):
    """list() yields location by location; sort inside a location. None if the grouping/order is not that of `locs`."""
    idx = {r: i for i, r in enumerate(locs)}
    last, out, cur = -1, [], []
    for r, p in pairs:
        i = idx.get(r)
        if i is None or i < last:
            return None
        if i != last:
            out += sorted(cur)
            cur, last = [], i
        cur.append((r, p))
    return out + sorted(cur)


# ------------------------------------------------------------------------------------------------
# the direct oracle: the property, stated on the implementation's answers (no model involved)
# ------------------------------------------------------------------------------------------------
def ignored_by(path, patterns):
    """django.contrib.staticfiles.utils.get_files: basename and full path of the file, basename of every directory."""
    parts = path.split("/")
    return any(fnmatch.fnmatchcase(x, pat) for pat in patterns for x in parts + [path])


def first_wins(pairs):
    seen, out = set(), []
    for r, p in pairs:
        if p not in seen:
            seen.add(p)
            out.append((r, p))
    return out


def oracle(fails, base, case, cfg, lookups, obs, locinfo):
    """Appends (trigger, what, replay) to `fails`."""
    rep = {k: case[k] for k in ("kind", "pdirs", "pfiles", "dirs", "apps", "app_dirs") if k in case}
    rep.update(config=cfg, lookups=[p.replace(base, BTOK) for p in lookups], base=base)
    locs = obs["locs"]

    nfail = {}

    def fail(trig_, what, **kw):
        nfail[trig_] = nfail.get(trig_, 0) + 1
        if nfail[trig_] > 3:              # a few per class, configuration and layout are enough
            return
        fails.append((trig_, what.replace(base, BTOK), dict(rep, **{k: (v.replace(base, BTOK) if isinstance(v, str) else v) for k, v in kw.items()})))


    def regex_reading(name):
        """Verdict if suffix strings were live regex text (the defect fixed by 6dbce54)."""
        def m(p):
            if p[0] != "suf":
                return pat_spec(p, name)
            try:
                return re.search(p[1] + "$", name) is not None
            except re.error:
                return None
        allowed, forb = cfg_effective(cfg)
        a, f = [m(p) for p in allowed], [m(p) for p in forb]
        if None in a or None in f:
            return None
        return any(a) and not any(f)

    def trig(name_rel, observed=None, abspath=None):
        if abspath is not None and observed is not None and observed == spec_valid(cfg, abspath) != spec_valid(cfg, name_rel):
            return "c17-find-validates-absolute-path"
        if has_meta_suffix(cfg) and observed is not None and observed == regex_reading(name_rel) != spec_valid(cfg, name_rel):
            return "c17-suffix-metachar"
        return "c17-exposure"

    # 0. the component directories
    exp = expected_locations(base, case)
    if set(locs) != exp or len(set(locs)) != len(locs) or obs["prefixes"] != [""] * (1 if locs else 0):
        fail("c17-locations", "finder.locations = %r but the component directories are %r" % (locs, sorted(exp)), locations=locs)
    present = {r: locinfo[r][0] for r in locs}
    files_of = {r: locinfo[r][2] for r in locs}
    dirs_of = {r: locinfo[r][1] for r in locs}
    # every physical file that lies below SOME expected component directory must be judged (a dropped location hides files)
    listed = obs["listed"]
    if listed and listed[0][0].startswith("\0"):
        fail("c17-find-error", "finder.list([]) raised %s" % listed[0][0][1:])
        return
    lset = set(listed)
    # 1. list() == exactly the valid files of every existing component directory
    for r in sorted(exp):
        pr, _, fs = locinfo.get(r) or loc_tree(base, case, r)
        for f in fs:
            got = (r, f) in lset
            if not spec_ok(cfg, f, got):
                fail(trig(f, got), "finder.list() %s %r of component directory %r; the configuration says exposed=%r"
                     % ("yields" if got else "does not yield", f, r, spec_valid(cfg, f)), location=r, name=f)
                break
    for r, p in listed:
        if r not in exp or p not in (locinfo.get(r) or (0, 0, []))[2]:
            fail("c17-escape-root" if not any(under(os.path.realpath(os.path.join(r, p)), e) for e in exp) else "c17-exposure",
                 "finder.list() yields (%r, %r) which is not a file of a component directory" % (r, p), location=r, name=p)
    if len(lset) != len(listed):
        fail("c17-exposure", "finder.list() yields a (location, path) pair twice: %r" % (listed,))
    # 1b. list(ignore_patterns): Django's ignore patterns may only REMOVE entries, and exactly the matching ones
    want_ign = [x for x in listed if not ignored_by(x[1], DEFAULT_IGNORE)]
    if sorted(obs["listed_ign"]) != sorted(want_ign):
        fail("c17-list-ignore-patterns", "finder.list(%r) -> %r, expected list([]) minus the ignored names = %r"
             % (DEFAULT_IGNORE, obs["listed_ign"], want_ign))
    # 2. find
    for p, (r1, ra) in zip(lookups, obs["finds"]):
        for r_ in (r1, ra):
            if r_[0] == "err":
                fail("c17-find-error", "finder.find(%r) raised/returned %s" % (p, r_[1]), lookup=p)
        if r1[0] == "err" or ra[0] == "err":
            continue
        returned = ([r1[1]] if r1[0] == "found" else []) + (ra[1] if ra[0] == "all" else [])
        # 2a. NO request path resolves outside the component directories: the real path of whatever is returned lies below
        #     (component-wise) one of them - judged on the file system, independently of the model
        for q in returned:
            STATS["returned_paths_checked_with_realpath"] += 1
            rq = os.path.realpath(q)
            homes = [r for r in exp if under(rq, r)]
            if not homes or not os.path.lexists(q):
                fail("c17-escape-root", "finder.find(%r) returned %r (real path %r), which is not inside any component directory %r"
                     % (p, q, rq, sorted(exp)), lookup=p, returned=q)
                continue
            if os.path.isdir(q):
                STATS["directories_returned_by_find"] += 1
                continue
            # 2b. a returned FILE is exposable under (one of) the component directories it lies in, and list() has it
            rels = [(r, rq[len(r) + 1:]) for r in homes if rq != r]
            if not rels:
                continue
            if not any(spec_ok(cfg, rel, True) for _, rel in rels):
                r0, rel0 = rels[0]
                fail(trig(rel0, True, q), "finder.find(%r) exposes %r which the configuration does not allow" % (p, q), lookup=p, returned=q)
            elif not any(x in lset for x in rels):
                fail("c17-find-list-disagree", "finder.find(%r) exposes %r but list() does not have it" % (p, q), lookup=p, returned=q)
        # 2c. find(p) is the head of find(p, all=True)
        if ra[0] == "all" and (r1 != (("found", ra[1][0]) if ra[1] else ("none",))):
            fail("c17-find-first-differs", "finder.find(%r) -> %r but find(all=True) -> %r" % (p, r1, ra[1]), lookup=p)
        # 2d. a clean relative name: every FILE of that name is found iff exposable (iff listed), in the order of the locations
        if clean_rel(p) and ra[0] == "all":
            got = ra[1]
            for r in locs:
                if present.get(r) and p in files_of[r]:
                    q = r + "/" + p
                    found = q in got
                    if not spec_ok(cfg, p, found) or found != ((r, p) in lset):
                        fail(trig(p, found, q), "finder.find(%r, all=True) -> %r: file %r %s although the configuration says exposed=%r (list() has it: %r)"
                             % (p, got, q, "returned" if found else "not returned", spec_valid(cfg, p), (r, p) in lset), lookup=p, returned=got)
            order = [locs.index(q[:len(q) - len(p) - 1]) if (q.endswith("/" + p) and q[:len(q) - len(p) - 1] in locs) else -1 for q in got]
            if order != sorted(order) or len(set(order)) != len(order):
                fail("c17-find-order", "finder.find(%r, all=True) -> %r is not in the order of finder.locations %r" % (p, got, locs), lookup=p)
        elif clean_rel(p) and ra[0] == "susp" and all(r.startswith("/") for r in locs):
            fail("c17-find-error", "finder.find(%r, all=True) raised SuspiciousFileOperation for a clean relative name" % (p,), lookup=p)
    # 3. default settings never expose backend code
    if is_default(cfg):
        exposed = {p for _, p in listed}
        for (r1, ra) in obs["finds"]:
            exposed |= {q for q in ([r1[1]] if r1[0] == "found" else []) + (ra[1] if ra[0] == "all" else []) if os.path.isfile(q)}
        for e in sorted(exposed):
            if any(e.endswith(s) or e.endswith(s + "\n") for s in BACKEND):
                fail("c17-default-exposes-backend", "default settings expose %r" % e, exposed=e)
    # 4. dev server, django.contrib.staticfiles.finders.find, collectstatic
    sv = obs.get("served")
    if sv is not None:
        pfiles_abs = {os.path.join(base, f) for f in case["pfiles"]}
        for p, rq_, sfr, (r1, ra) in zip(lookups, sv["reqs"], sv["sf"], obs["finds"]):
            # django.contrib.staticfiles.finders.find is the component finder's find (it is the only finder configured)
            want1 = ("ok", r1[1]) if r1[0] == "found" else (("ok", None) if r1[0] == "none" else (r1[0],))
            wanta = ("ok", ra[1]) if ra[0] == "all" else (ra[0],)
            if r1[0] != "err" and ra[0] != "err" and (sfr[0][:2] != want1[:2] or sfr[1][:2] != wanta[:2]):
                fail("c17-staticfiles-find-differs", "django.contrib.staticfiles.finders.find(%r) -> %r / all=True %r but the finder's own find -> %r / %r"
                     % (p, sfr[0], sfr[1], r1, ra), lookup=p)
            if rq_[0] == "skip":
                continue
            if rq_[0] == "err":
                fail("c17-serve-error", "staticfiles serve(%r) raised %s" % (p, rq_[1]), lookup=p)
                continue
            if rq_[0] == "file":
                b = rq_[1]
                homes = [r for r in exp if under(os.path.realpath(b), r) and b != r] if b in pfiles_abs else []
                rels = [(r, b[len(r) + 1:]) for r in homes]
                if not homes:
                    fail("c17-escape-root", "dev server: GET %r answered 200 with the content of %r, which is not inside any component directory %r"
                         % (p, b, sorted(exp)), lookup=p, served=b)
                elif not any(spec_ok(cfg, rel, True) and (r, rel) in lset for r, rel in rels):
                    fail(trig(rels[0][1], True, b), "dev server: GET %r answered 200 with the content of %r, which is not an exposed file" % (p, b),
                         lookup=p, served=b)
            if clean_rel(p) and any((r, p) in lset for r in locs):
                # a listed file requested by its own name: served from the first location that has something exposable of that name
                firsts = [r for r in locs if present.get(r) and (p in files_of[r] or p in dirs_of[r]) and spec_valid(cfg, p)]
                if firsts and p in dirs_of[firsts[0]]:
                    STATS["listed_files_shadowed_by_directory_in_dev_server"] += 1
                elif firsts and not p.endswith("\n") and rq_ != ("file", firsts[0] + "/" + p):
                    fail(trig(p, False), "dev server: GET %r -> %r but list() has the file (first location %r)" % (p, rq_, firsts[0]), lookup=p)
        if sorted(sv["get_finders"]) != sorted(listed):
            fail("c17-collect-differs", "get_finders()...list([]) -> %r but finder.list([]) -> %r" % (sv["get_finders"], listed))
        want = [r + "/" + p for r, p in first_wins(listed)]
        for key, w in (("collect", want), ("collect_ign", [r + "/" + p for r, p in first_wins(want_ign)])):
            if sv[key] is not None and sorted(sv[key]) != sorted(w):
                fail("c17-collect-differs", "collectstatic --dry-run%s copies %r but finder.list() (first destination wins) gives %r"
                     % ("" if key == "collect" else " (default ignore patterns)", sv[key], w), collected=sv[key])
            for q in sv[key] or []:
                if not q.startswith("\0") and not any(under(os.path.realpath(q), r) for r in exp):
                    fail("c17-escape-root", "collectstatic copies %r, which is not inside any component directory" % q, collected=q)
        if sv["real"] is not None:
            # Django's destination storage rewrites '\\' in a destination NAME to '/' (FileSystemStorage / clean_name): such names are
            # compared by content only - that is the destination side of collectstatic, not the finder
            fw = first_wins(listed)
            bs = {p.replace("\\", "/") for _, p in fw if "\\" in p}
            # A destination that is a FILE for one listed entry and a DIRECTORY prefix of another (file `...` in one component directory,
            # `.../x.jss` in another; also through the '\\' rewriting) cannot be materialised in one STATIC_ROOT: Django's own storage code then
            # raises FileExistsError / NotADirectoryError / OSError or skips a copy, for ANY finder. The real-copy comparison does not apply
            # to such layouts (counted); find / list / --dry-run oracles and the model comparison still do. Everything else stays a failure.
            dests = sorted({p.replace("\\", "/") for _, p in fw})
            dset = set(dests)
            conflict = any("/".join(d.split("/")[:i]) in dset for d in dests for i in range(1, d.count("/") + 1))
            if conflict:
                STATS["real_collectstatic_not_applicable_file_dir_destination_conflict"] += 1
                return
            if len(dset) != len(fw):
                # `b\\s.js` of one directory and `b/s.js` of another: distinct for collectstatic's found_files, the SAME file for the destination
                # storage, which then invents a free name (`b/s_7FbOHiU.js`): Django's storage again, not applicable (counted)
                STATS["real_collectstatic_not_applicable_backslash_destination_collision"] += 1
                return
            wantreal = {p: r + "/" + p for r, p in fw if p.replace("\\", "/") not in bs}
            gotreal = {k: v for k, v in sv["real"].items() if k not in bs}
            if gotreal != wantreal or not {v for k, v in sv["real"].items() if k in bs} <= {r + "/" + p for r, p in fw}:
                fail("c17-collect-differs", "collectstatic copied {destination: content} %r but finder.list() (first destination wins) gives %r"
                     % (sv["real"], wantreal), collected=sorted(sv["real"]))


def flagless_reading(cfg, name):
    """Verdict if every user-compiled regex were re-compiled from its .pattern text alone (flags dropped); None if that fails."""
    def m(p):
        if p[0] != "rx":
            return pat_spec(p, name)
        try:
            return rx(p[1], "").search(name) is not None
        except re.error:
            return None
    allowed, forb = cfg_effective(cfg)
    a, f = [m(p) for p in allowed], [m(p) for p in forb]
    if None in a or None in f:
        return None
    return any(a) and not any(f)


def corner_stats(cfg, obs, locinfo):
    """Literal-reading corners, reported (never alarmed): trailing newline names, upper-case backend extensions."""
    lset = set(obs["listed"])
    if has_rx(cfg):
        for r in obs["locs"]:
            STATS["verdicts_depending_on_a_regex_flag"] += sum(1 for f in locinfo[r][2] if flagless_reading(cfg, f) != spec_valid(cfg, f))
    for r in obs["locs"]:
        for f in locinfo[r][2]:
            got = (r, f) in lset
            if f.endswith("\n"):
                STATS["newline_names_judged"] += 1
                a, b = spec_valid(cfg, f, True), spec_valid(cfg, f, False)
                if a != b:
                    STATS["newline_names_where_readings_differ"] += 1
                    if got and a:
                        STATS["newline_differ_exposed_by_dollar_on_allowed_side"] += 1
                    if (not got) and (not a):
                        STATS["newline_differ_hidden_by_dollar_on_forbidden_side"] += 1
            low = f.lower()
            if low != f and any(low.endswith(s) for s in BACKEND) and not any(f.endswith(s) for s in BACKEND):
                STATS["uppercase_backend_names_judged"] += 1
                if got:
                    STATS["uppercase_backend_names_exposed_default_config" if is_default(cfg) else "uppercase_backend_names_exposed_nondefault_config"] += 1


# ------------------------------------------------------------------------------------------------
# running one layout case (worker side)
# ------------------------------------------------------------------------------------------------
def run_case(base, case, thorough=False):
    """-> dict(finder_term, served_term, fails, counts, replay)"""
    pdirs = closure_dirs(case["pdirs"], case["pfiles"])
    make_layout(base, pdirs, case["pfiles"])
    fails, counts, fobs, sobs = [], [], [], []
    _B[0] = base
    lookups = [p.replace(BTOK, base) for p in case["lookups"]]
    STATS["layouts"] += 1
    try:
        set_app_paths(base, case)
        locs0, locinfo = None, {}
        for ci, cfg in enumerate(case["configs"]):
            do_served = bool(case.get("serve")) and (ci < 2 or is_default(cfg))
            obs = run_config(base, case, cfg, lookups, do_served, thorough)
            if "crash" in obs:
                fails.append(("c17-find-error", obs["crash"].replace(base, BTOK),
                              {k: case[k] for k in ("kind", "pdirs", "pfiles", "dirs", "apps", "app_dirs") if k in case} | {"config": cfg, "lookups": case["lookups"]}))
                continue
            if locs0 is None:
                locs0 = obs["locs"]
                for r in locs0:
                    locinfo[r] = loc_tree(base, case, r)
                if len(locs0) > 1:
                    STATS["layouts_multi_root"] += 1
                if any(v is not None for v in (case.get("apps") or {}).values()):
                    STATS["layouts_with_app_dirs"] += 1
                names = [f for r in locs0 for f in locinfo[r][2]]
                if len(set(names)) != len(names):
                    STATS["layouts_same_name_in_two_dirs"] += 1
                # every name the model can be asked to judge: "." and the relative names of all directories and files
                judged = sorted({"."} | {x for r in locs0 for x in locinfo[r][1] + locinfo[r][2]})
            elif obs["locs"] != locs0:
                fails.append(("c17-locations", "finder.locations changed between two configurations of the same directories: %r then %r"
                              % (locs0, obs["locs"]), {"case": case}))
                continue
            oracle(fails, base, case, cfg, lookups, obs, locinfo)
            corner_stats(cfg, obs, locinfo)
            finds = obs["finds"]
            nsusp = sum(1 for r1, ra in finds if ra[0] == "susp")
            nfound = sum(1 for r1, ra in finds if r1[0] == "found")
            nfiles = sum(len(locinfo[r][2]) for r in locs0)
            listed = obs["listed"]
            nontriv = 0 < len(listed) < nfiles and nfound > 0 and nsusp > 0
            h = hashlib.md5(json.dumps([case["pdirs"], case["pfiles"], case["dirs"], case.get("apps"), case.get("app_dirs"), cfg,
                                        case["lookups"]], sort_keys=True).encode()).hexdigest()
            sample = None
            if nontriv:
                sample = {"locations": [r.replace(base, BTOK) for r in locs0], "files": {r.replace(base, BTOK): locinfo[r][2] for r in locs0},
                          "config": cfg, "listed": [[r.replace(base, BTOK), p] for r, p in listed],
                          "finds": [[p.replace(base, BTOK), repr(r1).replace(base, BTOK), repr(ra).replace(base, BTOK)]
                                    for p, (r1, ra) in list(zip(lookups, finds))[:8]]}
            counts.append((h, nontriv, case.get("tag", "layout") + ("/multi-root" if len(locs0) > 1 else ""), sample))
            g = group_by_location(locs0, listed)
            if g is None:
                g = [("\0list() not grouped by location", "")]
            ccfg = cfg_coq(cfg, judged)
            if has_rx(cfg):
                STATS["configs_with_flagged_or_grouped_regex"] += 1
            fobs.append("(%s, %s, %s)" % (ccfg, clist(["(%s, %s)" % (fres_coq(r1), fares_coq(ra)) for r1, ra in finds]), pairs_coq(g)))
            sv = obs.get("served")
            if sv is not None:
                reqs = [(p, r) for p, r in zip(lookups, sv["reqs"]) if r[0] != "skip"]
                sobs.append("(%s, %s, %s)" % (ccfg, clist(["(%s, %s)" % (bstr(p), sres_coq(r)) for p, r in reqs]), clist([bstr(q) for q in sv["collect"]])))
    finally:
        shutil.rmtree(base, ignore_errors=True)
        shutil.rmtree(base + "_static", ignore_errors=True)
    locs_term = clist([loc_coq(r, *locinfo[r]) for r in (locs0 or [])])
    fterm = "(let b := %s in (%s, %s, %s))" % (cstr(base), locs_term, clist([bstr(p) for p in lookups]), clist(fobs))
    sterm = "(let b := %s in (%s, %s))" % (cstr(base), locs_term, clist(sobs)) if sobs else None
    return {"fterm": fterm, "sterm": sterm, "fails": fails, "counts": counts}


_W = {}


def _worker_init(basedir, thorough):
    _W["base"], _W["thorough"] = basedir, thorough


def _worker(job):
    idx, case = job
    before = dict(STATS)
    res = run_case(os.path.join(_W["base"], "%d" % idx), case, _W["thorough"])
    res["stats"] = {k: STATS[k] - before[k] for k in STATS}
    return idx, res


class Roots:
    def __init__(self):
        self.base = os.path.realpath(os.path.join(BASE, "r%d" % os.getpid()))
        shutil.rmtree(self.base, ignore_errors=True)
        for _ in range(5):
            try:
                os.makedirs(self.base, exist_ok=True)
                break
            except FileNotFoundError:      # parent removed by a concurrent run between the two mkdir calls
                time.sleep(0.2)
        self.n = 0

    def new(self):
        self.n += 1
        return os.path.join(self.base, "s%d" % self.n)

    def cleanup(self):
        # BASE itself stays: removing it races with the start of another C17 run (seed check next to a normal run)
        shutil.rmtree(self.base, ignore_errors=True)


def cpu_s():
    a, b = resource.getrusage(resource.RUSAGE_SELF), resource.getrusage(resource.RUSAGE_CHILDREN)
    return a.ru_utime + a.ru_stime + b.ru_utime + b.ru_stime


def phase(chk, name, t0, c0):
    d = chk.extra.setdefault("phase_wall_cpu_s", {})
    w, c = d.get(name, [0, 0])
    d[name] = [round(w + time.time() - t0, 1), round(c + cpu_s() - c0, 1)]


def run_cases(chk, roots, cases, thorough, jobs=None, offset=0):
    """Run all layout cases on the implementation (process pool), then the model inside Coq; record everything in chk."""
    jobs = jobs or C.NCPU
    t0, c0 = time.time(), cpu_s()
    results = [None] * len(cases)
    pooled = jobs > 1 and len(cases) > 8
    if pooled:
        ctx = multiprocessing.get_context("fork")
        with ctx.Pool(jobs, initializer=_worker_init, initargs=(roots.base, thorough)) as pool:
            for idx, res in pool.imap_unordered(_worker, [(offset + i, c) for i, c in enumerate(cases)], chunksize=4):
                results[idx - offset] = res
            pool.close()
            pool.join()
    else:
        _worker_init(roots.base, thorough)
        for i, c in enumerate(cases):
            idx, res = _worker((offset + i, c))
            results[i] = res
    phase(chk, "F/X implementation (process pool)", t0, c0)
    t0, c0 = time.time(), cpu_s()
    fterms, sterms, smap = [], [], []
    for i, res in enumerate(results):
        if pooled:                       # (serial runs have already counted in this process)
            for k, v in res["stats"].items():
                STATS[k] = STATS.get(k, 0) + v
        for trigger, what, rep in res["fails"]:
            chk.fail(trigger, what, rep)
        for h, nontriv, kind, sample in res["counts"]:
            chk.count(h, nontriv, sample=sample, kind=kind)
        fterms.append(res["fterm"])
        if res["sterm"] is not None:
            sterms.append(res["sterm"])
            smap.append(i)
    bad = C.coq_eval_cases("C17", "finder", IMPORTS, "finder_case", "check_finder", fterms, shard=max(4, -(-len(fterms) // (4 * jobs))), timeout=3000)
    for i in bad[:10]:
        chk.disagree("Finder model != ComponentsFileSystemFinder.find / find(all=True) / list", dict(cases[i], base=os.path.join(roots.base, "%d" % (offset + i))))
    bad = C.coq_eval_cases("C17", "served", IMPORTS, "served_case", "check_served", sterms, shard=max(4, -(-len(sterms) // (4 * jobs))), timeout=3000)
    for i in bad[:10]:
        chk.disagree("Finder model != staticfiles serve view / collectstatic --dry-run", dict(cases[smap[i]], base=os.path.join(roots.base, "%d" % (offset + smap[i]))))
    phase(chk, "F/X model (coqc, vm_compute)", t0, c0)
    chk.extra["coq_term_bytes"] = chk.extra.get("coq_term_bytes", 0) + sum(map(len, fterms)) + sum(map(len, sterms))


# ------------------------------------------------------------------------------------------------
# generators
# ------------------------------------------------------------------------------------------------
FILE_NAMES = ["a.js", "a.min.js", "a.minXjs", "abdxjs.js", "a.d.js", "x.css", "x.JS", "x.Js", "x.jss", "x.js~", "js", ".js",
              "a.js\n", "a.py\n", "m.py", "m.pyc", "m.PY", "m.py.js", "m.js.py", "t.html", "t.htm", "t.django", "t.dj",
              "t.tpl", "w[1].js", "a+b.css", "a$.js", "a.js$", "(x).ts", "a^b.js", "a|b.js", "q?.js", "st*r.js", "b\\s.js",
              "sp ace.js", "ünï.js", "a.јs", "a.svg", "a.jpeg", "..js", "...", "a..js", "a.js.", "_p.js",
              "a.min\njs", "{2}.js", "a.tsx", "py", "a.htmlx", "t.HTML", "m.Py", "evil.py\n", "CVS", ".hidden.js", "SECRETS.PY", "Logo.PNG",
              "a.a", "a.js.map", "a.css.orig", "lib.html.css", "data.json", "secrets.js.txt", "readme.txt", "jquery.pyramid.js"]
DIR_NAMES = ["sub", "d.js", "secret", "_priv", "py", "x.py", "s.min.js", "n\nl", "a b", "...", "a.js.d", "t.html", ".git", "a.js"]
SUFFIXES = [".js", ".min.js", ".d.js", ".css", "", "js", ".py", ".html", ".j.", "a.js", "/a.js", "s/a.js", "b/a.js", ".js\n", "\n",
            ".JS", "[1].js", "$", ".js$", "+b.css", "\\s.js", ".*", ".", "..", "?.js", "(x).ts", "|b.js", "^b.js", "ï.js",
            ".ts", ".tsx", ".svg", ".pyc", ".dj", ".tpl", ".django", "{2}.js", ".min\njs", "x", ".js.py", ".py.js", "\\.js",
            "[a-z]", ".j", "s", "secret/b.js", "../c_private/secret.js", "_private/secret.js", "secret.js"]
COMPILED = [["re", "contains", ".min."], ["re", "starts", "secret/"], ["re", "starts", "a"], ["re", "endsz", ".js"],
            ["re", "segstart", "_"], ["re", "contains", "/"], ["re", "starts", ""], ["re", "contains", "py"],
            ["re", "starts", "/tmp"], ["re", "contains", "c17"], ["re", "endsz", ".py"], ["re", "segstart", "sub/"],
            ["re", "starts", "sub"], ["re", "contains", "\n"], ["re", "segstart", "."], ["re", "starts", ".."],
            ["re", "contains", "_private"]]

# user-compiled regexes whose meaning depends on their flags / inline flags / groups (a re-compilation from p.pattern, a joined
# alternation or a shared group numbering would change the verdict of some generated name)
RAW = [["rx", r"\.(py|pyc|html)$", "I"], ["rx", r"\.(png|jpe?g|gif|js)$", "I"], ["rx", "\\. (py | pyc | html | tpl) $   # backend code", "X"],
       ["rx", "\\. ( js | css ) $", "XI"], ["rx", r"\.min.js$", "S"], ["rx", r"^l/", "M"], ["rx", r"\.js$", "M"], ["rx", r"(?i)\.py$", ""],
       ["rx", r"(?i)\.js$", ""], ["rx", r"(?x) \. css $", ""], ["rx", r"(?s)a.min.js", ""], ["rx", r"(\.)\1js$", ""], ["rx", r"(.)\1", ""],
       ["rx", r"(?P<d>\.)(?P=d)", ""], ["rx", r"^(a|m)\.(js|py)$", ""], ["rx", r"a|\.py$", ""], ["rx", r"^[a-z]+\.[a-z]+$", "I"],
       ["rx", r"secret", "I"], ["rx", r"\.(js)\Z", "I"], ["rx", r"ÜNÏ", "I"], ["rx", r"^sub/.+\.js$", "IS"], ["rx", r"(j)(s)$", ""],
       ["rx", r"(\w)\.\1", "I"]]

WITNESS_CONFIGS = [
    {"allowed": [["suf", ".min.js"]], "forbidden": []},
    {"allowed": [["suf", ".js"]], "forbidden": [["suf", ".d.js"]]},
    {"allowed": [["suf", ".js"]], "forbidden": [["re", "starts", "secret/"]]},
    {"allowed": [["re", "starts", "a"]], "forbidden": []},
    {"allowed": [["suf", "/a.js"]], "forbidden": []},
    {},
    {"allowed": [["suf", ""]], "forbidden": []},
    {"allowed": [], "forbidden": []},
    {"deprecated": [["suf", ".js"]]},
    {"forbidden": [], "deprecated": [["suf", ".js"]]},
    {"allowed": [["suf", ".py"], ["suf", ".js"]]},
    {"allowed": [["suf", ".py"], ["suf", ".js"]], "forbidden": []},
    {"allowed": [["suf", ""]], "forbidden": [["suf", ".py"]]},
    {"allowed": [["suf", ""]], "deprecated": [["suf", ".py"], ["suf", ".html"]]},
    {"allowed": [["suf", ""]], "forbidden": [["rx", r"\.(py|pyc|html)$", "I"]]},
    {"allowed": [["rx", r"\.(png|jpe?g|gif|js)$", "I"], ["rx", r"(\.)\1js$", ""]], "forbidden": [["rx", r"(?i)\.py$", ""], ["rx", r"(.)\1", ""]]},
    {"allowed": [["suf", ".js"], ["suf", ".py"], ["rx", r"\.min.js$", "S"]], "forbidden": [["rx", "\\. (py | pyc | html | tpl) $   # backend code", "X"], ["rx", r"^l/", "M"]]},
]
SIBLING_SUFFIXES = ["_private", "x", ".bak", "2", " copy", "-old"]
ROOT_NAMES = ["c", "comps", "k.d", "c/sub", "components"]


def gen_pat(rng):
    r = rng.random()
    if r < 0.7:
        return ["suf", rng.choice(SUFFIXES)]
    if r < 0.84:
        return list(rng.choice(COMPILED))
    return list(rng.choice(RAW))


def gen_config(rng):
    r = rng.random()
    if r < 0.12:
        return dict(rng.choice(WITNESS_CONFIGS))
    cfg = {}
    if rng.random() < 0.85:
        cfg["allowed"] = [gen_pat(rng) for _ in range(rng.choice([0, 1, 1, 2, 2, 3]))]
        if rng.random() < 0.3:
            cfg["allowed"].append(["suf", ".js"])
    r = rng.random()
    if r < 0.6:
        cfg["forbidden"] = [gen_pat(rng) for _ in range(rng.choice([0, 1, 1, 2, 3]))]
    if rng.random() < 0.3:
        cfg["deprecated"] = [gen_pat(rng) for _ in range(rng.choice([0, 1, 2]))]
    return cfg


def gen_tree(rng, maxfiles=8):
    dirs, files, taken = [], set(), set()
    ndirs = rng.choice([0, 1, 1, 2, 3])
    dpool = [""]
    for _ in range(ndirs):
        parent = rng.choice(dpool)
        d = (parent + "/" if parent else "") + rng.choice(DIR_NAMES)
        if d not in taken:
            taken.add(d)
            dpool.append(d)
            dirs.append(d)
    for _ in range(rng.choice([n for n in [1, 2, 3, 4, 5, 6, 8] if n <= maxfiles])):
        parent = rng.choice(dpool)
        f = (parent + "/" if parent else "") + rng.choice(FILE_NAMES)
        if f not in taken and not any(f == d or d.startswith(f + "/") for d in taken):
            taken.add(f)
            files.add(f)
    return dirs, sorted(files)


def single_root_case(dirs, files, configs, lookups, tag, serve=True, root="c", siblings=True):
    """One component directory `root` holding the given tree; prefix-named siblings hold copies of its files."""
    pfiles = [root + "/" + f for f in files]
    if siblings:
        first = [f for f in files if "/" not in f][:1] or ["a.js"]
        pfiles += [root + "_private/secret.js", root + "_private/" + first[0], root + "x/a.js", "outside.js"]
    return {"kind": "layout", "pdirs": [root] + [root + "/" + d for d in dirs], "pfiles": sorted(set(pfiles)), "dirs": [root],
            "apps": {}, "app_dirs": [], "configs": configs, "lookups": lookups, "serve": serve, "tag": tag}


def gen_layout(rng):
    """Several component directories + prefix-named siblings + outside files."""
    nroots = rng.choice([1, 1, 2, 2, 2, 3])
    names = []
    for _ in range(nroots):
        n = rng.choice(ROOT_NAMES)
        if n not in names:
            names.append(n)
    pdirs, pfiles, trees = [], [], {}
    for n in names:
        ds, fs = gen_tree(rng, 6 if nroots > 1 else 8)
        trees[n] = (ds, fs)
        pdirs += [n] + [n + "/" + d for d in ds]
        pfiles += [n + "/" + f for f in fs]
    # the same relative name in two directories / a directory shadowing a file of another location
    if len(names) > 1 and trees[names[0]][1]:
        for f in rng.sample(trees[names[0]][1], min(len(trees[names[0]][1]), rng.choice([1, 1, 2]))):
            tgt = rng.choice(names[1:])
            if rng.random() < 0.15:
                pdirs.append(tgt + "/" + f)
            else:
                pfiles.append(tgt + "/" + f)
    dirs_setting = []
    for n in names:
        v = rng.random()
        dirs_setting.append(n if v < 0.8 else rng.choice([n + "/", n + "/../" + n, "./" + n, "x/../" + n, n + "//"]))
    if rng.random() < 0.2:
        dirs_setting.append("missing")
    if rng.random() < 0.1:
        dirs_setting.append(dirs_setting[0])
    # app dirs
    apps, app_dirs = {}, []
    if rng.random() < 0.35:
        app_dirs = rng.choice([["comps"], ["comps", "comps_private"], ["cdir", "comps"], ["deep/comps"]])
        for app, rel in zip(APPS, ("appa", "appb")):
            if rng.random() < 0.7:
                apps[app] = rel
                for ad in app_dirs:
                    if rng.random() < 0.7:
                        ds, fs = gen_tree(rng, 3)
                        pdirs += [rel + "/" + ad] + [rel + "/" + ad + "/" + d for d in ds]
                        pfiles += [rel + "/" + ad + "/" + f for f in fs]
                        if trees[names[0]][1] and rng.random() < 0.5:
                            pfiles.append(rel + "/" + ad + "/" + rng.choice(trees[names[0]][1]))
                pfiles.append(rel + "/views.js")         # inside the app, outside its component directory
    # prefix-named siblings and outside files
    outside = []
    roots_rel = list(names) + [rel + "/" + ad for rel in apps.values() for ad in app_dirs]
    for n in roots_rel:
        if rng.random() < 0.7:
            sib = n + rng.choice(SIBLING_SUFFIXES)
            if sib in roots_rel:
                continue
            cand = ["secret.js", "a.js", "m.py"] + [f for f in trees.get(n, ([], []))[1] if "/" not in f]
            for f in rng.sample(cand, min(len(cand), rng.choice([1, 2, 3]))):
                outside.append(sib + "/" + f)
    if rng.random() < 0.6:
        outside += ["outside.js"]
    if rng.random() < 0.3:
        outside += ["a.js"]
    pfiles = sorted(set(pfiles))
    pd = set(closure_dirs(pdirs, pfiles))
    pfiles = [f for f in pfiles if f not in pd]
    outside = [o for o in sorted(set(outside)) if o not in pd and o not in pfiles and not any(under(o, r) for r in roots_rel)]
    pdirs = [d for d in pdirs if d not in pfiles and not any(under(d, f) for f in pfiles + outside)]
    case = {"kind": "layout", "pdirs": sorted(set(pdirs)), "pfiles": sorted(set(pfiles + outside)), "dirs": dirs_setting, "apps": apps,
            "app_dirs": app_dirs, "serve": True, "tag": "random-layout"}
    return case, roots_rel, outside


def gen_lookups(rng, case, roots_rel, outside, n_extra):
    """Every file by its name relative to every component directory + traversal / absolute / prefix-trick variants, and for
    every file OUTSIDE the component directories every spelling that could reach it."""
    rels = []
    for f in case["pfiles"]:
        for r in roots_rel:
            if f.startswith(r + "/"):
                rels.append((r, f[len(r) + 1:]))
    out = [f for _, f in rels]
    root0 = roots_rel[0]
    b0 = os.path.basename(root0)
    fixed = ["", ".", "..", "/", "//", "/etc/passwd", "//etc/passwd", "../" + b0, "../" + b0 + "x/a.js", BTOK + "/" + root0,
             BTOK + "/" + root0 + "/", BTOK + "/" + root0 + "x/a.js", BTOK, "nope.js", BTOK + "/" + root0 + "_private/secret.js",
             "../" + b0 + "_private/secret.js", "../outside.js", BTOK + "/outside.js"]
    out += rng.sample(fixed, 6)
    for o in outside:
        oabs = BTOK + "/" + o
        cands = [oabs, "/" + oabs, oabs.replace("/", "//", 1)]
        for r in roots_rel:
            relp = os.path.relpath("/B/" + o, "/B/" + r)
            cands += [relp, "./" + relp, "sub/../" + relp, "zz/../" + relp, BTOK + "/" + r + "/" + relp, relp.replace("../", "..//", 1)]
        out += rng.sample(cands, min(len(cands), 4))
        STATS["lookups_aimed_outside"] += min(len(cands), 4)
    variants = [lambda r, f: "./" + f, lambda r, f: "sub/../" + f, lambda r, f: f + "/", lambda r, f: "/" + f,
                lambda r, f: BTOK + "/" + r + "/" + f, lambda r, f: "../" + f, lambda r, f: "../" + os.path.basename(r) + "/" + f,
                lambda r, f: BTOK + "/" + r + "x/../" + os.path.basename(r) + "/" + f, lambda r, f: f.upper(), lambda r, f: f + "\n",
                lambda r, f: "zz/../../" + os.path.basename(r) + "/" + f, lambda r, f: "/" + BTOK + "/" + r + "/" + f,
                lambda r, f: f.replace("/", "//"), lambda r, f: f + "/..", lambda r, f: f + "/.", lambda r, f: "../../" + f,
                lambda r, f: BTOK + "/" + r + "/../" + f, lambda r, f: os.path.dirname(f),
                lambda r, f: "./" + f + "/../" + os.path.basename(f), lambda r, f: ".../" + f, lambda r, f: (BTOK + "/" + r)[1:] + "/" + f,
                lambda r, f: os.path.relpath("/B/" + rng.choice(roots_rel) + "/" + f, "/B/" + r)]
    atoms = ["/", "/", ".", "..", "a.js", "sub", "\n", "js", ".js", "secret", "...", b0, b0 + "_private", "secret.js"]
    dirs_rel = [d[len(r) + 1:] for d in case["pdirs"] for r in roots_rel if d.startswith(r + "/")]
    for _ in range(n_extra):
        r = rng.random()
        if rels and r < 0.7:
            out.append(rng.choice(variants)(*rng.choice(rels)))
        elif dirs_rel and r < 0.8:
            out.append(rng.choice(dirs_rel))
        else:
            out.append("".join(rng.choice(atoms) for _ in range(rng.randint(1, 6))))
    seen, res = set(), []
    for p in out:
        if p not in seen and "\0" not in p:
            seen.add(p)
            res.append(p)
    return res


def load_corpus():
    d = os.path.join(C.VERIF, "corpus", "C17")
    out = []
    if os.path.isdir(d):
        for f in sorted(os.listdir(d)):
            if f.endswith(".json"):
                o = json.load(open(os.path.join(d, f)))
                o["_file"] = f
                out.append(o)
    return out


def corpus_case(o):
    if o.get("kind") == "layout":
        c = dict(o)
        c.setdefault("tag", "corpus")
        c.setdefault("serve", True)
        return c
    return single_root_case(o.get("dirs", []), sorted(o["files"]), o["configs"], o["lookups"], "corpus")


# ------------------------------------------------------------------------------------------------
def run_valid_cases(chk, roots, n_cfg, n_names, follow_up):
    """V: _is_path_valid on plain strings."""
    import djsetup
    from django_components.finders import ComponentsFileSystemFinder
    rng = chk.rng
    root = roots.new()
    os.makedirs(root)
    pool = list(FILE_NAMES) + [d + "/" + f for d in DIR_NAMES[:6] for f in FILE_NAMES[:12]] + \
        ["", "\n", "/", ".", "a.js\n\n", "a.js\r\n", "\n.js", "a.js\n/", root + "/a.js", root + "/secret/b.js", "a.js/", "/a.js",
         "../c_private/secret.js", "../cx/a.js", ".."]
    atoms = [".", "js", "j", "s", "\n", "/", "a", "min", "py", "$", "\\", "*", "X", "d", "b", "x", "[", "]", "c", "h", "t", "m", "l"]
    terms, cases, mism = [], [], []
    cfgs = [dict(c) for c in WITNESS_CONFIGS] + [gen_config(rng) for _ in range(n_cfg)]
    for cfg in cfgs:
        names = rng.sample(pool, min(len(pool), n_names // 2))
        names += ["".join(rng.choice(atoms) for _ in range(rng.randint(0, 7))) for _ in range(n_names - len(names))]
        # names built from the configuration's own suffixes (so that allowed/forbidden both fire)
        sufs = [p[1] for k in ("allowed", "forbidden", "deprecated") for p in (cfg.get(k) or []) if p[0] == "suf"]
        for s in sufs[:4]:
            names += ["a" + s, "a" + s + "\n", "d/" + s, s[1:] if s else "q", ("a" + s)[:-1] + "X" if s else "q"]
        obs = []
        with djsetup.components_settings(**cfg_settings(cfg, [root])):
            for nm in names:
                try:
                    finder = ComponentsFileSystemFinder.__new__(ComponentsFileSystemFinder)
                    v = bool(finder._is_path_valid(nm))
                except Exception as e:  # noqa
                    v = None
                sv = spec_valid(cfg, nm)
                allowed_hit = any(pat_spec(p, nm) for p in cfg_effective(cfg)[0])
                chk.count(("V", json.dumps(cfg, sort_keys=True), nm), allowed_hit, kind="valid-string")
                if v is None or not spec_ok(cfg, nm, v):
                    mism.append((cfg, nm, v, sv))
                obs.append("(%s, %s)" % (cstr(nm), cbool(not sv if v is None else v)))   # an exception never equals the model
        terms.append("(%s, %s)" % (cfg_coq(cfg, names), clist(obs)))
        cases.append((cfg, names))
    shutil.rmtree(root, ignore_errors=True)
    t0, c0 = time.time(), cpu_s()
    bad = C.coq_eval_cases("C17", "valid", IMPORTS, "valid_case", "check_valid", terms, shard=60, timeout=3000)
    phase(chk, "V model (coqc)", t0, c0)
    for i in bad[:10]:
        chk.disagree("is_path_valid model != ComponentsFileSystemFinder._is_path_valid", {"kind": "valid", "config": cases[i][0], "names": cases[i][1]})
    # materialise mismatches against the property's reading as real trees (public API, concrete replay)
    for cfg, nm, v, sv in mism[:8]:
        if clean_rel(nm) and "\0" not in nm and len(nm) < 200:
            follow_up.append(single_root_case([], [nm], [cfg], [nm], "materialised"))
    if mism and not any(clean_rel(nm) for _, nm, _, _ in mism[:8]):
        cfg, nm, v, sv = mism[0]
        chk.disagree("_is_path_valid(%r) = %r but the property's reading of the configuration gives %r (name cannot be a file)" % (nm, v, sv),
                     {"kind": "valid", "config": cfg, "names": [nm]})


def run_sj_cases(chk, maxlen, nrandom):
    """J: safe_join / relpath arithmetic."""
    from django.core.exceptions import SuspiciousFileOperation
    from django.utils._os import safe_join
    rng = chk.rng
    roots = ["/tmp/c17/r", "/r", "/", "//r", "/a/b", "/a/", "/a/../b", "///r", "/a/./b//"]
    paths = ["".join(t) for L in range(maxlen + 1) for t in itertools.product("/.a", repeat=L)]
    atoms = ["/", "/", ".", "..", "a", "b", "r", "tmp", "c17", "\n", "...", "a.js", "//", "r_private", "rx"]
    terms, cases = [], []
    for root in roots:
        ps = list(paths) + ["".join(rng.choice(atoms) for _ in range(rng.randint(1, 9))) for _ in range(nrandom)]
        ps += [root + "/" + p for p in rng.sample(paths, 40)] + [root + p for p in rng.sample(paths, 40)]
        ps += [root + "_private/a", "../" + os.path.basename(root) + "_private/a", root + "x", root + "x/../" + os.path.basename(root)]
        for si in range(0, len(ps), 150):
            obs = []
            for p in ps[si:si + 150]:
                try:
                    q = safe_join(root, p)
                    r = (q, os.path.relpath(q, root))
                except SuspiciousFileOperation:
                    r = None
                chk.count(("J", root, p), ".." in p.split("/") or p.startswith("/"), kind="safe_join")
                obs.append("(%s, %s)" % (cstr(p), copt(r, lambda v: "(%s, %s)" % (cstr(v[0]), cstr(v[1])))))
            terms.append("(%s, %s)" % (cstr(root), clist(obs)))
            cases.append((root, ps[si:si + 150]))
    t0, c0 = time.time(), cpu_s()
    bad = C.coq_eval_cases("C17", "sj", IMPORTS, "sj_case", "check_sj", terms, shard=8, timeout=3000)
    phase(chk, "J model (coqc)", t0, c0)
    for i in bad[:10]:
        chk.disagree("safe_join/relpath model != django safe_join / os.path.relpath", {"kind": "sj", "root": cases[i][0], "paths": cases[i][1]})


N_RANDOM = {"quick": 1800, "thorough": 12000}
if os.environ.get("C17_RANDOM"):            # development knob only (mutation experiments on a loaded machine)
    N_RANDOM = {k: int(os.environ["C17_RANDOM"]) for k in N_RANDOM}
CHUNK = 1500


def build_cases(chk, thorough):
    rng = chk.rng
    cases = []
    # ---- corpus first ----
    for o in load_corpus():
        cases.append(corpus_case(o))
    # ---- X: every lookup string over {'/', '.', 'a'} up to a bound; component directory "a", prefix-named siblings "aa", "a." ----
    L = 7 if thorough else 6
    allp = ["".join(t) for n in range(L + 1) for t in itertools.product("/.a", repeat=n)]
    xcfgs = [{"allowed": [["suf", "a"]], "forbidden": [["suf", ".a"]]}, {"allowed": [["suf", ""]], "forbidden": []}]
    for si in range(0, len(allp), 120):
        cases.append({"kind": "layout", "pdirs": ["a", "a/a", "a/a/...", "aa", "a."], "apps": {}, "app_dirs": [], "dirs": ["a"],
                      "pfiles": ["a/a/a", "a/a/.a", "a/...", "a/a/.../a", "a/a.a", "aa/a", "a./a", "a.a"], "configs": xcfgs,
                      "lookups": allp[si:si + 120] + ["../a/" + p for p in allp[si:si + 120:6]], "serve": si % 600 == 0,
                      "tag": "exhaustive-lookup"})
    # ---- F: single-file trees x witness configurations (smallest cases) ----
    for f in FILE_NAMES:
        for d in ("", "secret/", "d.js/"):
            case = single_root_case([], [d + f], WITNESS_CONFIGS, [], "single-file")
            case["lookups"] = gen_lookups(rng, case, ["c"], [x for x in case["pfiles"] if not x.startswith("c/")], 4)
            cases.append(case)
    # ---- F: two component directories holding the same name (smallest multi-directory cases) ----
    for f in FILE_NAMES[:16]:
        case = {"kind": "layout", "pdirs": ["c", "c_private", "appa/comps"], "pfiles": ["c/" + f, "c_private/" + f, "appa/comps/" + f, "cx/" + f],
                "dirs": ["c", "c_private"], "apps": {APPS[0]: "appa"}, "app_dirs": ["comps"], "configs": WITNESS_CONFIGS, "serve": True,
                "tag": "same-name-in-three-dirs"}
        case["lookups"] = gen_lookups(rng, case, ["c", "c_private", "appa/comps"], ["cx/" + f], 4)
        cases.append(case)
    # ---- F: random layouts ----
    for _ in range(N_RANDOM["thorough" if thorough else "quick"]):
        case, roots_rel, outside = gen_layout(rng)
        case["lookups"] = gen_lookups(rng, case, roots_rel, outside, 14)
        case["configs"] = [gen_config(rng) for _ in range(5)] + ([{}] if rng.random() < 0.3 else [])
        cases.append(case)
    return cases, L


def run(tier, seed):
    import djsetup
    import gen_constants
    djsetup.setup()
    gen_constants.generate(["C17"])
    chk = C.Check("C17", tier, seed)
    t0, c0 = time.time(), cpu_s()
    chk.prove()
    phase(chk, "proof re-check (make Props/C17.vo)", t0, c0)
    thorough = tier == "thorough"
    roots = Roots()
    from django.test import override_settings
    ov = override_settings(STATICFILES_FINDERS=["django_components.finders.ComponentsFileSystemFinder"], STATIC_URL="/static/", DEBUG=True,
                           INSTALLED_APPS=["django_components", "django.contrib.staticfiles"] + list(APPS))
    ov.enable()
    try:
        cases, L = build_cases(chk, thorough)
        for si in range(0, len(cases), CHUNK):          # chunks bound the memory taken by the Coq literals
            run_cases(chk, roots, cases[si:si + CHUNK], thorough, offset=si)
        # ---- V, J ----
        follow_up = []
        run_valid_cases(chk, roots, 3000 if thorough else 220, 40, follow_up)
        if follow_up:
            run_cases(chk, roots, follow_up, thorough, jobs=1, offset=len(cases))
        run_sj_cases(chk, 7 if thorough else 6, 1500 if thorough else 300)
    finally:
        ov.disable()
        roots.cleanup()
    chk.extra.update(STATS)
    import gen_c17
    chk.extra["generator_error"] = gen_c17.default_lists()[2] or None
    chk.extra["literal_reading_corners"] = {
        "trailing_newline": "a suffix s is compiled to re.escape(s)+'$'; `$` also matches before ONE final newline. Observed on the "
                            "implementation in this run: %d (file, config) pairs with a name ending in '\\n', of which %d are judged differently by "
                            "'ends with' and by `$`: %d exposed through an ALLOWED suffix although the name does not literally end with it "
                            "(e.g. 'a.js\\n' for '.js'), %d hidden through a FORBIDDEN suffix although the name does not literally end with it "
                            "(e.g. 'evil.py\\n' is hidden when '.py' is forbidden and '' allowed - the corner errs on the safe side there). "
                            "Reported, not alarmed: the oracle accepts either reading for names ending in a newline; theorems "
                            "literal_reading_outside_newline_names (guard: name does not end in '\\n'), "
                            "newline_names_are_judged_with_and_without_the_newline, forbidden_literal_always_respected state it exactly."
                            % (STATS["newline_names_judged"], STATS["newline_names_where_readings_differ"],
                               STATS["newline_differ_exposed_by_dollar_on_allowed_side"], STATS["newline_differ_hidden_by_dollar_on_forbidden_side"]),
        "upper_case_extensions": "suffixes are compared case-sensitively. %d (file, config) pairs with an upper/mixed-case backend extension "
                                 "(m.PY, t.HTML, m.Py): exposed under the DEFAULT settings: %d (the default allowed list is a lower-case whitelist); "
                                 "exposed under non-default settings: %d (e.g. allowed=[''] with the default forbidden list exposes 'm.PY'). The "
                                 "property's 'never exposes Python or template files' clause is stated for default settings only, so this is "
                                 "reported, not alarmed. On a case-INSENSITIVE file system a lookup 'M.PY' would reach 'm.py' while being judged "
                                 "as 'M.PY': not testable on this (case-sensitive) file system, recorded as an assumption."
                                 % (STATS["uppercase_backend_names_judged"], STATS["uppercase_backend_names_exposed_default_config"],
                                    STATS["uppercase_backend_names_exposed_nondefault_config"]),
        "directory_shadowing": "%d requests for a LISTED file were answered 404 by the dev server because an earlier location has a DIRECTORY of "
                               "the same exposable name (find returns the directory; same as Django's FileSystemFinder); modelled, not alarmed."
                               % STATS["listed_files_shadowed_by_directory_in_dev_server"],
        "location_order": "finder.locations comes from a Python set (get_component_dirs): the order of COMPONENTS.dirs is NOT preserved, so "
                          "'first match wins' refers to finder.locations as observed, which the model takes as input.",
    }
    chk.assumptions = [
        "POSIX paths, case-sensitive file system; component directories are absolute and resolved (get_component_dirs enforces both), "
        "no symlinks inside them (returned paths are nevertheless judged by os.path.realpath in the direct oracle)",
        "accepted corner, modelled faithfully and stated by theorems: a suffix is compiled to re.escape(suffix)+'$' and `$` also matches before ONE "
        "trailing newline, so a file literally named 'a.js\\n' counts as ending with '.js' (both for allowed and for forbidden suffixes)",
        "compiled patterns given in the settings are opaque predicates on the path relative to the component directory; the theorems "
        "quantify over arbitrary predicates, the correspondence uses four hand-matched families (contains / ^prefix / suffix\\Z / (^|/)prefix) plus arbitrary "
        "user-compiled regexes (flags I/X/S/M, inline flags, groups, backreferences) that enter the model as the table of their OWN p.search verdicts",
        "os.path.exists / isdir are modelled by membership in the set of paths of the generated layout (per location: root, its directories, its files)",
        "the order of finder.locations is an input of the model (it is the iteration order of a Python set in get_component_dirs)",
        "the `prefix` branch of find_location is dead code (locations always carry prefix '') and is not modelled",
        "find() may return a DIRECTORY whose name passes the filter (same as Django's FileSystemFinder); the property speaks about files",
        "a component 'directory' that is a regular file, and (prefix, path) tuples in COMPONENTS.dirs, are not generated",
    ]
    nq = N_RANDOM["quick"]
    return chk.finish(
        rule="F: real layouts under /tmp/c17: 1-3 component directories given through COMPONENTS.dirs (also missing, duplicated, un-normalised "
             "entries, nested directories) and COMPONENTS.app_dirs below two generated Django apps, each holding 1-8 files from %d look-alike / "
             "multi-dot / upper-case / metacharacter / newline names in 0-3 nested dirs, the same relative name in several directories, "
             "prefix-named SIBLING directories (<dir>_private, <dir>x, <dir>.bak ...) and files outside every component directory "
             "x configurations (suffix strings incl. multi-dot, metacharacters, '/', '', newline; compiled regexes; empty lists; unset; deprecated "
             "forbidden_static_files) x lookup paths (every file by name + traversal / absolute / prefix-trick / re-entry variants, and every spelling "
             "that could reach each outside file), all through finder.find(p), finder.find(p, all=True), finder.list([]), "
             "finder.list(default ignore patterns); for the first two configurations of every layout (and every default one) also through "
             "django.contrib.staticfiles.finders.find, the dev-server view django.contrib.staticfiles.views.serve (file content = its absolute path, "
             "so a 200 body names the file served) and `collectstatic --dry-run` with and without the default ignore patterns (thorough: also a real "
             "collectstatic into a scratch STATIC_ROOT). X: EVERY lookup string of length <= %d over {'/','.','a'} on a fixed layout with prefix-named "
             "siblings. V: _is_path_valid on plain strings x configurations. J: safe_join+relpath on every string <= %d over {'/','.','a'} + random x 9 "
             "roots. Non-trivial: F = some but not all files listed and at least one lookup found and one refused as suspicious; V = name matches an "
             "allowed pattern; J = path has a '..' segment or is absolute. Distinct = distinct (layout, configuration, lookups) / (config, name) / "
             "(root, path). Random layouts: %d quick / %d thorough. Patterns in the lists: suffix strings, four escaped-literal regex families, and "
             "user-compiled regexes WITH flags / inline flags / groups / backreferences (several per list); `matches a pattern` is read as the "
             "pattern's own p.search(name)."
             % (len(FILE_NAMES), L, 7 if thorough else 6, nq, N_RANDOM["thorough"]),
        explanation="Theorems of Props/C17.v re-checked by coqc (incl. anchors against the constants generated from the current source); "
                    "model evaluated by vm_compute inside Coq on every case and compared with the implementation; the direct oracle restates "
                    "the property in Python without `re` and without the model (component directories == documented set; list == exactly the valid "
                    "files of every directory; every file found by name iff valid iff listed, in location order; the REAL PATH of every path returned "
                    "by find / served by the dev server / copied by collectstatic lies below a component directory; defaults never expose backend "
                    "suffixes).",
        extra_trusted=["modelled, not verified: Python `re` (escape, `$`), posixpath.join/normpath/relpath, django safe_join, os.path.exists, "
                       "FileSystemStorage.listdir / get_files (the model filters the given file list), collectstatic's found_files bookkeeping, "
                       "staticfiles.views.serve (normpath + lstrip + find) and django.views.static.serve (404 for directories)",
                       "harness/gen_c17.py (prints the default lists and the probe regex text as Coq literals)"])


def replay(path):
    import djsetup
    djsetup.setup()
    r = json.load(open(path))
    case = r.get("case", r)
    print(json.dumps(r, indent=1)[:4000])
    kind = case.get("kind")
    if kind == "tree":                      # replay files written before the multi-directory harness
        case = single_root_case(case.get("dirs", []), sorted(case["files"]), case.get("configs") or [case["config"]],
                                (case.get("lookups") or list(case["files"])) + ([case["lookup"]] if case.get("lookup") is not None else []), "replay")
        kind = "layout"
    if kind != "layout":
        return 0
    case = dict(case)
    if "configs" not in case:
        case["configs"] = [case["config"]]
    if case.get("lookup") is not None and case["lookup"] not in case["lookups"]:
        case["lookups"] = case["lookups"] + [case["lookup"]]
    case.setdefault("serve", True)
    from django.test import override_settings
    roots = Roots()
    ov = override_settings(STATICFILES_FINDERS=["django_components.finders.ComponentsFileSystemFinder"], STATIC_URL="/static/", DEBUG=True,
                           INSTALLED_APPS=["django_components", "django.contrib.staticfiles"] + list(APPS))
    ov.enable()
    try:
        # the order of finder.locations depends on the hash of the directory paths: re-create the recorded base directory if possible
        base = case.get("base")
        if not (isinstance(base, str) and base.startswith(BASE + "/r") and not os.path.exists(base)):
            base = roots.new()
        os.makedirs(os.path.dirname(base), exist_ok=True)
        pdirs = closure_dirs(case["pdirs"], case["pfiles"])
        make_layout(base, pdirs, case["pfiles"])
        set_app_paths(base, case)
        lookups = [p.replace(BTOK, base) for p in case["lookups"]]
        for cfg in case["configs"]:
            obs = run_config(base, case, cfg, lookups, False, False)
            print("config:", cfg)
            print(" component directories (finder.locations):", obs["locs"])
            print(" implementation list():", obs["listed"])
            for p, (r1, ra) in zip(lookups, obs["finds"]):
                print(" implementation find(%r) -> %r ; all=True -> %r" % (p, r1, ra))
        shutil.rmtree(base, ignore_errors=True)
        res = run_case(base, case, False)
        try:
            os.rmdir(os.path.dirname(base))
        except OSError:
            pass
        bad = C.coq_eval_cases("C17", "replay", IMPORTS, "finder_case", "check_finder", [res["fterm"]])
        if res["sterm"]:
            bad += C.coq_eval_cases("C17", "replays", IMPORTS, "served_case", "check_served", [res["sterm"]])
        print("model agrees with implementation:", not bad)
        for trig, what, _ in res["fails"][:10]:
            print("ORACLE FAILURE [%s]: %s" % (trig, what))
        return 1 if res["fails"] else 0
    finally:
        ov.disable()
        roots.cleanup()
