"""C13 - html_attrs and Python-passed slot content emit exactly the data given, escaped.

Model: coq/Attrs/Model.v   Theorems: coq/Props/C13.v
Correspondence streams (every case: implementation run, direct property oracle, model evaluated in Coq):
  esc    django.utils.html.escape on hostile strings (model escape + decode round trip)
  ats    attributes_to_string on dicts (exhaustive hostile values / names / single name characters, SafeString keys, then random)
  tag    {% html_attrs %} through real template renders: positional / keyword attrs, defaults, repeated
         keywords, aggregate attrs:k / defaults:k, spreads, non-identifier keys, bool / None / numbers
  hist   HISTORY: the same attrs / defaults dictionary OBJECTS passed to 2-4 successive {% html_attrs %} calls (separate renders,
         several tags in one template, a {% for %} loop): every call = the call alone on fresh dicts, inputs unchanged, model run_heap
  twin   process-wide state: the same (name, text) as SafeString and as plain str in one process, both orders, through
         attributes_to_string / the tag (attrs, defaults, keyword, spread) / slot content; runs FIRST (fresh state) and LAST
  parse  reader differential: the model's attribute tokenizer against html.parser on attribute text
  slot   Component.render(slots=...) x escape flag x chains of re-passing (incl. the dynamic component)
  wrap   wrap_component_js / wrap_component_css on end-tag look-alikes + real renders with inlined JS/CSS
"""
import html
import html.parser
import itertools
import json
import keyword
import os
import re

import common as C
from common import cN, clist, copt, cstr

IMPORTS = "From DJC Require Import Lib.Base Attrs.Model."
CORPUS = os.path.join(C.VERIF, "corpus", "C13")

TRIG_NAMES = "c13-attr-name-chars"
TRIG_ENDTAG = "c13-endtag-case"
TRIG_MERGE = "c13-repeated-kwargs-index"
TRIG_MUTATED = "c13-input-mutated"
TRIG_HISTORY = "c13-history-leak"

# ---------------------------------------------------------------------------------------------
# Python values <-> JSON-able descriptions <-> Coq terms
#   value description: ["s", text] | ["safe", text] | True | False | None | ["n", number]
# ---------------------------------------------------------------------------------------------


def mk_value(d):
    from django.utils.safestring import mark_safe
    if isinstance(d, list):
        if d[0] == "s":
            return d[1]
        if d[0] == "safe":
            return mark_safe(d[1])
        if d[0] == "n":
            return d[1]
        raise ValueError(d)
    return d  # True / False / None


def v_term(d):
    if d is True:
        return "VTrue"
    if d is False:
        return "VFalse"
    if d is None:
        return "VNone"
    if d[0] == "s":
        return "VStr %s" % cstr(d[1])
    if d[0] == "safe":
        return "VSafe %s" % cstr(d[1])
    if d[0] == "n":
        return "VObj %s" % cstr(str(d[1]))
    raise ValueError(d)


def v_text(d):
    """Python str() of the described value."""
    if isinstance(d, list):
        return str(d[1])
    return str(d)


def v_is_str(d):
    return isinstance(d, list) and d[0] in ("s", "safe")


def v_is_safe(d):
    return isinstance(d, list) and d[0] == "safe"


# A dictionary key is described by its text (plain str key) or by ["safe", text] (the key OBJECT is a SafeString).
def k_text(k):
    return k[1] if isinstance(k, (list, tuple)) else k


def k_safe(k):
    return isinstance(k, (list, tuple))


def mk_key(k):
    from django.utils.safestring import mark_safe
    return mark_safe(k[1]) if k_safe(k) else k


def key_term(k):
    return "(%s, %s)" % (cstr(k_text(k)), C.cbool(k_safe(k)))


def mk_dict(items):
    return {mk_key(k): mk_value(v) for k, v in items}


def dict_term(items):
    return clist(["(%s, %s)" % (key_term(k), v_term(v)) for k, v in items])


def attrs_term(l):
    return clist(["(%s, %s)" % (cstr(k), copt(v, cstr)) for k, v in l])


def is_ident(k):
    return k.isidentifier() and not keyword.iskeyword(k)


# ---------------------------------------------------------------------------------------------
# The reader on the implementation side: html.parser
# ---------------------------------------------------------------------------------------------
class _P(html.parser.HTMLParser):
    def __init__(self):
        super().__init__(convert_charrefs=True)
        self.events = []

    def handle_starttag(self, tag, attrs):
        self.events.append(("start", tag, attrs))

    def handle_startendtag(self, tag, attrs):
        self.events.append(("startend", tag, attrs))

    def handle_endtag(self, tag):
        self.events.append(("end", tag))

    def handle_data(self, data):
        self.events.append(("data", data))

    def handle_comment(self, data):
        self.events.append(("comment", data))


def parse_back(attr_text):
    """`<div ATTR_TEXT>` read by html.parser: (attribute list, None) or (None, why) when anything but the one
    start tag comes out (= something broke out of the tag)."""
    p = _P()
    p.feed("<div " + attr_text + ">")
    p.close()
    ev = p.events
    if len(ev) == 1 and ev[0][0] == "start" and ev[0][1] == "div":
        return [(k, v) for k, v in ev[0][2]], None
    return None, ev


HTML_WS = " \t\n\f\r"


def name_ok(k):
    """The model's valid_name (Attrs/Model.v)."""
    if not k:
        return False
    for ch in k:
        o = ord(ch)
        if o <= 32 or 127 <= o <= 159 or ch in "\"'>/=&<":
            return False
    return True


def name_ok_for_htmlparser(k):
    # html.parser splits names at every Unicode white space (regex \s), WHATWG only at the five ASCII ones
    return name_ok(k) and not re.search(r"\s", k)


# ---------------------------------------------------------------------------------------------
# Direct property oracle for attribute rendering
# ---------------------------------------------------------------------------------------------
def expected_attrs(final_items):
    """final_items: [(name, value description)] of the merged dictionary -> what the reader must find."""
    out = []
    for k, v in final_items:
        if v is None or v is False:
            continue
        out.append((k_text(k).translate(ASCII_LOWER), None if v is True else v_text(v)))
    return out


ASCII_LOWER = {c: c + 32 for c in range(65, 91)}


def check_roundtrip(chk, out, final_items, replay, where):
    """out: emitted attribute text; final_items: merged dict [(name, valuedesc)]. Returns the html.parser reading
    when it may be compared with the model (valid names, no safe values), else None."""
    rendered = [(k, v) for k, v in final_items if not (v is None or v is False)]
    if any(v_is_safe(v) or k_safe(k) for k, v in rendered):
        return None  # safe names / values are emitted as given: outside the statement
    got, broke = parse_back(out)
    exp = expected_attrs(final_items)
    names_fine = all(name_ok_for_htmlparser(k) for k, _ in rendered)
    ok = got is not None and sorted(got, key=repr) == sorted(exp, key=repr)
    if not ok:
        if not all(name_ok(k) for k, _ in rendered):
            chk.fail(TRIG_NAMES, "%s: attribute NAME containing white space / quotes / > / = / & / < / control characters (or empty) "
                     "does not read back as the one attribute given" % where,
                     dict(replay, emitted=out, read_back=got if got is not None else repr(broke), expected=exp))
        elif names_fine:
            chk.fail("c13-attr-roundtrip", "%s: emitted attributes do not read back (html.parser) as the names/values given" % where,
                     dict(replay, emitted=out, read_back=got if got is not None else repr(broke), expected=exp))
        return None
    return got if names_fine else None


# ---------------------------------------------------------------------------------------------
# stream: escape
# ---------------------------------------------------------------------------------------------
HOSTILE = ['"', "'", "<", ">", "&", " ", "=", "/", ";", "#", "a", "x", "2", "7", "\t", "\n", "é", "中", "\U0001f600",
           "&amp;", "&lt;", "&#x27;", "&quot", "\\", "`", "\r", "\x00", " "]


def rand_text(rng, maxlen=12):
    n = rng.randint(0, maxlen)
    return "".join(rng.choice(HOSTILE) for _ in range(n))


def stream_escape(chk, thorough):
    from django.utils.html import escape, conditional_escape
    from django.utils.safestring import SafeString
    alpha = ['"', "'", "<", ">", "&", "a", ";", "#"]
    cases = []
    for L in range(0, (5 if thorough else 4) + 1):
        for t in itertools.product(alpha, repeat=L):
            cases.append(("".join(t), "exh%d" % L))
    for _ in range(20000 if thorough else 2000):
        cases.append((rand_text(chk.rng, 16), "random"))
    terms = []
    for s, kind in cases:
        e = str(escape(s))
        chk.count(("esc", s), any(c in s for c in "\"'<>&"), kind="esc-" + kind,
                  sample={"escape": s, "result": e} if kind == "random" and len(s) > 6 else None)
        # direct oracle: no raw special character survives; unescape gives the text back; safe strings untouched
        if any(c in e for c in "\"'<>") or re.search(r"&(?!(amp|lt|gt|quot|#x27);)", e) or html.unescape(e) != s \
                or not isinstance(conditional_escape(s), SafeString) or conditional_escape(SafeString(s)) != s:
            chk.fail("c13-escape", "escape() leaves a special character or does not decode back", {"kind": "esc", "s": s, "escaped": e})
        terms.append("(%s, %s)" % (cstr(s), cstr(e)))
    bad = C.coq_eval_cases("C13", "esc", IMPORTS, "esc_case", "check_esc", terms, shard=3000)
    for i in bad[:10]:
        chk.disagree("model escape/decode != django escape", {"kind": "esc", "s": cases[i][0]})


# ---------------------------------------------------------------------------------------------
# stream: attributes_to_string
# ---------------------------------------------------------------------------------------------
GOOD_NAMES = ["class", "id", "data-id", "@click.stop", ":href", "x-on:click", "aria-label", "été", "onClick", "v-bind:x", "_a", "a.b", "DATA"]
BAD_NAMES = ["a b", "a=b", "a>b", 'a"b', "a'b", "a/b", "", " a", "a\tb", "a&b", "a<b", "a\nb", "=", "a\x00b", "><script>"]


def rand_value(rng, allow_safe=True):
    r = rng.random()
    if r < 0.62:
        return ["s", rand_text(rng)]
    if r < 0.70 and allow_safe:
        return ["safe", rng.choice(["x", "<b>", "a&amp;b", "it&#x27;s", "", "a b"])]
    if r < 0.78:
        return True
    if r < 0.84:
        return False
    if r < 0.90:
        return None
    return ["n", rng.choice([0, 1, 5, -3, 42, 1.5, 10 ** 12])]


def describe_value(v):
    """Python value -> value description (inverse of mk_value); nested dict -> {"dict": items}."""
    from django.utils.safestring import SafeData
    if v is True or v is False or v is None:
        return v
    if isinstance(v, str):
        return ["safe", str.__str__(v)] if isinstance(v, SafeData) else ["s", v]
    if isinstance(v, (int, float)):
        return ["n", v]
    if isinstance(v, dict):
        return {"dict": describe_dict(v)}
    return ["?", repr(v)]


def describe_dict(d):
    """Python dict -> items description incl. the safe mark of every key OBJECT, in the dict's order."""
    from django.utils.safestring import SafeData
    return [[["safe", str.__str__(k)] if isinstance(k, SafeData) else k, describe_value(v)] for k, v in d.items()]


# inputs that a call changed: (what, description before, description after); drained by the streams
MUTATED = []


def run_ats(items):
    from django_components.attributes import attributes_to_string
    d = mk_dict(items)
    before = describe_dict(d)
    try:
        res = ("out", str(attributes_to_string(d)))
    except Exception as e:  # noqa
        res = ("err", type(e).__name__)
    if describe_dict(d) != before:
        MUTATED.append(("attributes_to_string", before, describe_dict(d)))
    return res


def drain_mutated(chk, replay):
    while MUTATED:
        what, before, after = MUTATED.pop()
        chk.fail(TRIG_MUTATED, "%s changed a dictionary it was given" % what, dict(replay, before=before, after=after))


def stream_ats(chk, thorough, corpus_items):
    cases = [(it, "corpus") for it in corpus_items]
    alpha = ['"', "'", "<", ">", "&", " ", "=", "a", ";", "/"]
    # every value over the hostile alphabet up to length 3 (4), in first and in second position
    for L in range(0, (4 if thorough else 3) + 1):
        for t in itertools.product(alpha, repeat=L):
            s = "".join(t)
            cases.append(([("k", ["s", s])], "exh-value"))
            if L <= 2:
                cases.append(([("a", True), ("k", ["s", s]), ("z", ["s", "1"])], "exh-value-mid"))
    # every name over the alphabet up to length 2 (3)
    for L in range(0, (3 if thorough else 2) + 1):
        for t in itertools.product(alpha, repeat=L):
            nm = "".join(t)
            cases.append(([(nm, ["s", "v"])], "exh-name"))
            cases.append(([(nm, True), ("z", ["s", "v"])], "exh-name"))
    # every single character of the forbidden class and its neighbours, alone and inside a name, bare and valued;
    # the same with the key object marked safe (exempt from the check), and with a value that is not emitted
    for c in list(range(0, 50)) + list(range(55, 66)) + list(range(120, 170)) + [0x2028, 0x3000, 0xFEFF]:
        for nm in (chr(c), "a" + chr(c) + "b"):
            cases.append(([(nm, ["s", "v"])], "exh-name-char"))
            cases.append(([("k0", ["s", "1"]), (nm, True)], "exh-name-char"))
            if c < 66:
                cases.append(([(["safe", nm], ["s", "v"])], "exh-name-char-safe"))
                cases.append(([(nm, None), ("k0", ["s", "1"])], "exh-name-char-omitted"))
    # value kinds x 3 positions
    kinds = [["s", "x"], ["safe", "<i>"], True, False, None, ["n", 7], ["s", ""]]
    for combo in itertools.product(kinds, repeat=3):
        cases.append(([("a", combo[0]), ("B", combo[1]), ("c-d", combo[2])], "exh-kinds"))
        cases.append(([("a", combo[0]), ("B b", combo[1]), (["safe", "c d"], combo[2])], "exh-kinds-badname"))
    rng = chk.rng
    for _ in range(30000 if thorough else 3000):
        n = rng.randint(0, 5)
        names = rng.sample(GOOD_NAMES, n) if rng.random() < 0.9 else [rng.choice(BAD_NAMES + GOOD_NAMES) for _ in range(n)]
        names = list(dict.fromkeys(names))
        cases.append(([(["safe", k] if rng.random() < 0.06 else k, rand_value(rng)) for k in names], "random"))
    terms, kept = [], []
    for items, kind in cases:
        res = run_ats(items)
        drain_mutated(chk, {"kind": "ats", "items": items})
        hostile = any(v_is_str(v) and any(c in v[1] for c in "\"'<>& ") for _, v in items)
        chk.count(("ats", repr(items)), hostile, kind="ats-" + kind,
                  sample={"attributes_to_string": items, "result": res[1]} if kind == "random" and hostile and len(items) > 2 else None)
        emitted_names = [k for k, v in items if not (v is None or v is False) and not k_safe(k)]
        if res[0] != "out":
            if not (res[1] == "ValueError" and not all(name_ok(k) for k in emitted_names)):
                chk.fail("c13-ats-raises", "attributes_to_string raised %s" % res[1], {"kind": "ats", "items": items})
                continue
            # a name that cannot be written as an HTML attribute name was refused: nothing emitted
            terms.append("(%s, None)" % dict_term(items))
            kept.append(items)
            continue
        if not all(name_ok(k) for k in emitted_names):
            chk.fail(TRIG_NAMES, "attributes_to_string emitted an attribute whose (non-safe) NAME is empty or contains white space / quotes / "
                     "> / = / & / < / control characters instead of refusing it", {"kind": "ats", "items": items, "emitted": res[1]})
        else:
            check_roundtrip(chk, res[1], items, {"kind": "ats", "items": items}, "attributes_to_string")
        terms.append("(%s, Some %s)" % (dict_term(items), cstr(res[1])))
        kept.append(items)
    bad = C.coq_eval_cases("C13", "ats", IMPORTS, "ats_case", "check_ats", terms, shard=2500)
    for i in bad[:10]:
        chk.disagree("model attributes_to_string != implementation", {"kind": "ats", "items": kept[i]})
    # assumption of the anchor name_class_anchor (Attrs/Proofs.v): the class matches nothing from U+3000 upwards
    try:
        from django_components import attributes as _att
        rx = _att._INVALID_ATTR_NAME_RE
        high = [cp for cp in range(0x3000, 0x110000) if rx.search(chr(cp))]
    except Exception as e:  # noqa
        high = ["no _INVALID_ATTR_NAME_RE: %s" % type(e).__name__]
    chk.extra["invalid_name_class_matches_above_U+3000"] = high[:20]
    if high:
        chk.disagree("the attribute-name check of the tree under test differs from the modelled class above U+3000", {"kind": "name-class", "codepoints": high[:20]})


# ---------------------------------------------------------------------------------------------
# stream: the {% html_attrs %} tag
#   params: ["pos", items|None] | ["kw", key, valuedesc] | ["kwd", key, items]  (keyword carrying a dict)
#           | ["spread", [[key, valuedesc|{"dict": items}] ...]]
# ---------------------------------------------------------------------------------------------
def run_tag(params):
    from django.template import Context, Template
    ctx, parts = {}, []
    for i, p in enumerate(params):
        var = "v%d" % i
        if p[0] == "pos":
            ctx[var] = None if p[1] is None else mk_dict(p[1])
            parts.append(var)
        elif p[0] == "kw":
            ctx[var] = mk_value(p[2])
            parts.append("%s=%s" % (p[1], var))
        elif p[0] == "kwd":
            ctx[var] = mk_dict(p[2])
            parts.append("%s=%s" % (p[1], var))
        elif p[0] == "spread":
            ctx[var] = {mk_key(k): (mk_dict(v["dict"]) if isinstance(v, dict) else mk_value(v)) for k, v in p[1]}
            parts.append("..." + var)
        else:
            raise ValueError(p)
    src = "{% html_attrs " + " ".join(parts) + " %}"
    before = {k: describe_dict(v) for k, v in ctx.items() if isinstance(v, dict)}
    try:
        res = ("out", str(Template(src).render(Context(ctx))))
    except Exception as e:  # noqa
        res = ("err", type(e).__name__, str(e)[:200])
    for k, b in before.items():
        if describe_dict(ctx[k]) != b:
            MUTATED.append(("{% html_attrs %}", b, describe_dict(ctx[k])))
    return res, src


def flat_params(params):
    """What resolve_params produces before merging: [(key|None, valuedesc | {"dict": items} | None)]."""
    out = []
    for p in params:
        if p[0] == "pos":
            out.append((None, None if p[1] is None else {"dict": p[1]}))
        elif p[0] == "kw":
            out.append((p[1], p[2]))
        elif p[0] == "kwd":
            out.append((p[1], {"dict": p[2]}))
        else:
            for k, v in p[1]:
                out.append((k, v))
    return out


def in_merge_index_class(flat):
    """Decidable trigger class of the merge_repeated_kwargs index defect: a repeated keyword whose FIRST occurrence
    stands after an already dropped duplicate (of any keyword)."""
    first, dropped_before_first, dropped = {}, {}, 0
    for k, _ in flat:
        if k is None:
            continue
        k = k_text(k)
        if k in first:
            if dropped_before_first[k] > 0:
                return True
            dropped += 1
        else:
            first[k] = True
            dropped_before_first[k] = dropped
    return False


def tparam_term(k, v):
    key = "None" if k is None else "(Some (%s, %s))" % (key_term(k), C.cbool(is_ident(k_text(k))))
    if isinstance(v, dict):
        val = "TD %s" % dict_term(v["dict"])
    else:
        val = "TS (%s)" % v_term(v)
    return "(%s, %s)" % (key, val)


def outcome_term(res):
    if res[0] == "out":
        return "Out %s" % cstr(res[1])
    return {"TypeError": "ErrType", "TemplateSyntaxError": "ErrTemplateSyntax", "SyntaxError": "ErrSyntax",
            "ValueError": "ErrValue"}.get(res[1], "OutOfScope")


def tag_oracle(params):
    """Statement-level expectation for WELL-FORMED uses: positional dicts first (at most attrs, defaults), or
    attrs= / defaults= / attrs:k= / defaults:k= forms (one form per dict), extra keywords after.
    Returns None when the use is not well-formed (errors there are C11's business), else (items, nonstring):
    defaults, overridden by attrs, then every extra keyword value appended to the same-named attribute with one
    space; nonstring = some append joins a dictionary value with a non-string (statement silent, TypeError allowed).
    Uses with a SafeString key object anywhere are left to the model comparison (the statement is about non-safe names)."""
    flat = flat_params(params)
    if any(k_safe(k) for k, _ in flat if k is not None) or any(
            k_safe(k2) for _, v in flat if isinstance(v, dict) for k2, _v2 in v["dict"]):
        return None
    pos, seen_kw = [], False
    for k, v in flat:
        if k is None:
            if seen_kw:
                return None
            pos.append(v)
        else:
            seen_kw = True
    if len(pos) > 2:
        return None
    src = {"attrs": [], "defaults": []}
    if len(pos) >= 1:
        src["attrs"].append(pos[0])
    if len(pos) == 2:
        src["defaults"].append(pos[1])
    merged = {}   # repeated keywords of the tag: values joined with one space (on the full key)
    for k, v in flat:
        if k is None:
            continue
        if k in merged:
            if isinstance(v, dict) or isinstance(merged[k], dict):
                return None
            merged[k] = ["s", v_text(merged[k]) + " " + v_text(v)]
        else:
            merged[k] = v
    extras, agg = [], {"attrs": [], "defaults": []}
    for k, v in merged.items():
        if k in ("attrs", "defaults"):
            if v is None or v is False:
                src[k].append(None)
            elif isinstance(v, dict):
                src[k].append(v)
            else:
                return None
        elif ":" in k and not k.startswith(":"):
            o, i = k.split(":", 1)
            if o not in agg or isinstance(v, dict):
                return None
            agg[o].append((i, v))
        elif isinstance(v, dict):
            return None
        else:
            extras.append((k, v))
    for o in agg:
        if agg[o]:
            src[o].append({"dict": agg[o]})
    if any(len(x) > 1 for x in src.values()):
        return None

    def get(o):
        return list(src[o][0]["dict"]) if src[o] and src[o][0] else []
    d = dict(get("defaults"))
    d.update(dict(get("attrs")))
    nonstr = False
    for k, v in extras:
        if k in d:
            if not (v_is_str(d[k]) and v_is_str(v)):
                nonstr = True
            d[k] = ["s", v_text(d[k]) + " " + v_text(v)]
        else:
            d[k] = v
    return list(d.items()), nonstr


# keys written in the tag source (`:href=` is not tag syntax; such keys arrive through spreads and dicts only)
KW_KEYS = ["class", "id", "data-id", "@click.stop", "style", "x_y", "title", "aria-label", "hidden", "Data"]
SPREAD_KEYS = KW_KEYS + [":href", "été", "v-bind:x"[:6]]


def gen_tag_params(rng):
    params = []
    r = rng.random()
    inner = ["class", "id", "data-id", "@click", "style", "title", ":href"]

    def maybe_safe(k):
        return ["safe", k] if rng.random() < (0.25 if bad else 0.02) else k

    def rdict(maxn=3, bad=False):
        n = rng.randint(0, maxn)
        pool = inner + (BAD_NAMES if bad else [])
        ks = list(dict.fromkeys(rng.choice(pool) for _ in range(n)))
        return [(maybe_safe(k), rand_value(rng)) for k in ks]
    bad = rng.random() < 0.06
    mode = rng.choice(["pos", "pos", "kw", "agg", "mixed", "none"])
    if mode == "pos":
        params.append(["pos", rdict(bad=bad) if rng.random() < 0.9 else None])
        if rng.random() < 0.6:
            params.append(["pos", rdict() if rng.random() < 0.9 else None])
    elif mode == "kw":
        ks = ["attrs", "defaults"]
        rng.shuffle(ks)
        for k in ks[:rng.randint(1, 2)]:
            params.append(["kwd", k, rdict(bad=bad)])
    elif mode == "agg":
        for _ in range(rng.randint(1, 4)):
            params.append(["kw", "%s:%s" % (rng.choice(["attrs", "defaults"]), rng.choice(inner)), rand_value(rng)])
    elif mode == "mixed":
        # possibly ill-formed combinations (conflicts, three positionals, positional after keyword)
        for _ in range(rng.randint(1, 3)):
            c = rng.random()
            if c < 0.4:
                params.append(["pos", rdict()])
            elif c < 0.6:
                kk = rng.choice(["attrs", "defaults"])
                if not any(p[0] == "kwd" and p[1] == kk for p in params):   # str() of a dict is outside the model
                    params.append(["kwd", kk, rdict()])
            elif c < 0.8:
                params.append(["kw", "%s:%s" % (rng.choice(["attrs", "defaults"]), rng.choice(inner)), rand_value(rng)])
            else:
                params.append(["kw", rng.choice(KW_KEYS), rand_value(rng)])
    # extra keywords (repeats likely), spreads
    for _ in range(rng.randint(0, 4)):
        c = rng.random()
        if c < 0.75:
            v = rand_value(rng) if rng.random() < 0.35 else ["s", rand_text(rng, 6)]
            params.append(["kw", rng.choice(KW_KEYS[:6] if rng.random() < 0.7 else KW_KEYS), v])
        else:
            n = rng.randint(0, 3)
            pool = SPREAD_KEYS + (BAD_NAMES if bad else [])
            ks = list(dict.fromkeys(rng.choice(pool) for _ in range(n)))
            params.append(["spread", [[maybe_safe(k), rand_value(rng) if rng.random() < 0.3 else ["s", rand_text(rng, 6)]] for k in ks]])
    if mode != "mixed" and rng.random() < 0.03:
        rng.shuffle(params)
    return params


def exhaustive_tag_params():
    """Small systematic space: overlap patterns of one key across defaults / attrs / two keywords x value kinds."""
    vals = [["s", "a"], ["s", 'q"<'], ["safe", "<s>"], True, None, ["n", 5]]
    opt = [None] + vals
    out = []
    for d, a, k1, k2 in itertools.product(opt[:5] + [opt[6]], opt[:5] + [opt[6]], opt, opt[:4]):
        params = []
        params.append(["pos", [("class", a)] if a is not None or False else []])
        params.append(["pos", [("class", d), ("id", ["s", "i"])] if d is not None else [("id", ["s", "i"])]])
        if k1 is not None:
            params.append(["kw", "class", k1])
        if k2 is not None:
            params.append(["kw", "class", k2])
        out.append(params)
    # forms of passing the two dicts
    A, D = [("class", ["s", "A"]), ("x", ["s", "1"])], [("class", ["s", "D"]), ("y", ["s", "2"])]
    forms = [
        [["pos", A], ["pos", D]], [["kwd", "attrs", A], ["kwd", "defaults", D]], [["kwd", "defaults", D], ["kwd", "attrs", A]],
        [["kw", "attrs:class", ["s", "A"]], ["kw", "attrs:x", ["s", "1"]], ["kw", "defaults:class", ["s", "D"]], ["kw", "defaults:y", ["s", "2"]]],
        [["pos", A], ["kwd", "defaults", D]], [["pos", A], ["kw", "defaults:class", ["s", "D"]]],
        [["pos", A], ["kwd", "attrs", A]], [["pos", A], ["kw", "attrs:class", ["s", "Z"]]], [["kwd", "attrs", A], ["kw", "attrs:class", ["s", "Z"]]],
        [["pos", A], ["pos", D], ["pos", A]], [["kw", "class", ["s", "k"]], ["pos", A]], [["kw", "data-id", ["s", "k"]], ["pos", A]],
        [["spread", [["attrs", {"dict": A}], ["class", ["s", "k"]]]]], [["pos", None], ["pos", None]], [],
        [["kw", "attrs:class", ["s", "A"]], ["kw", "attrs:class", ["s", "B"]], ["kw", "class", ["s", "k"]]],
    ]
    # every pattern of repeats: all keyword sequences of length <= 5 over three names (one a non-identifier), the i-th
    # value being the letter i; with and without dictionaries that already hold two of the names
    for L in range(2, 6):
        for seq in itertools.product(["class", "id", "data-x"], repeat=L):
            if len(set(seq)) == L:
                continue   # no repeat
            kws = [["kw", k, ["s", "v%d" % i]] for i, k in enumerate(seq)]
            out.append(kws)
            if L <= 4:
                out.append([["pos", [("class", ["s", "A"])]], ["pos", [("id", ["s", "D"]), ("class", ["s", "d"])]]] + kws)
    # repeats whose values are not strings: str() of each is joined
    for v1, v2 in itertools.product(vals, repeat=2):
        out.append([["kw", "class", v1], ["kw", "class", v2]])
        out.append([["pos", [("class", ["s", "A"])]], ["kw", "class", v1], ["kw", "id", ["s", "i"]], ["kw", "class", v2]])
    # the same name reaching the merge with different key objects (plain / SafeString): the first one's mark stays
    for n1, n2 in ((["safe", "x y"], "x y"), ("x y", ["safe", "x y"]), (["safe", "x y"], ["safe", "x y"])):
        out.append([["spread", [[n1, ["s", "q"]]]], ["spread", [[n2, ["s", "r"]]]]])
        out.append([["pos", [(n1, ["s", "q"])]], ["pos", [(n2, ["s", "r"])]]])
        out.append([["pos", [(n1, ["s", "q"])]], ["spread", [[n2, ["s", "r"]]]]])
        out.append([["pos", []], ["pos", [(n1, ["s", "q"])]], ["spread", [[n2, ["s", "r"]]]]])
    for f in forms:
        for tail in ([], [["kw", "class", ["s", "k1"]]], [["kw", "id", ["s", "i"]], ["kw", "class", ["s", "k1"]], ["kw", "data-x", ["s", "d"]], ["kw", "class", ["n", 2]]]):
            out.append(f + tail)
    return out


def stream_tag(chk, thorough, corpus_params):
    cases = [(p, "corpus") for p in corpus_params] + [(p, "exhaustive") for p in exhaustive_tag_params()]
    for _ in range(25000 if thorough else 5000):
        cases.append((gen_tag_params(chk.rng), "random"))
    terms, kept = [], []
    for params, kind in cases:
        res, src = run_tag(params)
        flat = flat_params(params)
        replay = {"kind": "tag", "params": params, "template": src}
        drain_mutated(chk, replay)
        exp = tag_oracle(params)
        parsed = None
        keys = [k_text(k) for k, _ in flat if k is not None]
        nontriv = len(set(keys)) < len(keys) or (exp is not None and any(
            v_is_str(v) and any(c in v[1] for c in "\"'<>&") for _, v in exp[0]))
        chk.count(("tag", repr(params)), nontriv, kind="tag-" + kind + ("-err" if res[0] == "err" else ""),
                  sample={"template": src, "params": params, "result": res[1]} if kind == "random" and nontriv and len(params) > 2 else None)
        if any(k_safe(k) for k, _ in flat if k is not None) or any(
                k_safe(k2) for _, v in flat if isinstance(v, dict) for k2, _v2 in v["dict"]):
            chk.dist["tag:with-safe-key"] += 1
        if len(set(keys)) < len(keys):
            chk.dist["tag:repeated-keyword"] += 1
        if res[0] == "err":
            chk.dist["tag:" + res[1]] += 1
        if exp is not None:
            items, nonstr = exp
            bad_names = not all(name_ok(k) for k, v in items if not (v is None or v is False))
            if res[0] == "err":
                refused = res[1] == "ValueError" and bad_names
                if not (nonstr and res[1] == "TypeError") and not refused:
                    # root-cause class decided on the INPUT: the (fixed) index defect of merge_repeated_kwargs lives here
                    trig = TRIG_MERGE if in_merge_index_class(flat) else "c13-tag-raises"
                    chk.fail(trig, "well-formed {%% html_attrs %%} raised %s: %s" % (res[1], res[2]), replay)
            elif nonstr:
                pass  # statement silent (appending to / from a non-string); model still compared
            elif bad_names:
                chk.fail(TRIG_NAMES, "{% html_attrs %} emitted an attribute whose (non-safe) NAME cannot be written as one HTML attribute name "
                         "instead of refusing it", dict(replay, emitted=res[1]))
            else:
                parsed = check_roundtrip(chk, res[1], items, replay, "{% html_attrs %}")
        terms.append("(%s, %s, %s)" % (clist([tparam_term(k, v) for k, v in flat]), outcome_term(res), copt(parsed, attrs_term)))
        kept.append(replay)
    bad = C.coq_eval_cases("C13", "tag", IMPORTS, "tag_case", "check_tag", terms, shard=1500)
    for i in bad[:10]:
        chk.disagree("model html_attrs_tag != {% html_attrs %} render", kept[i])


# ---------------------------------------------------------------------------------------------
# stream: HISTORY - the same dictionary OBJECTS reach {% html_attrs %} several times
#   case: {"objects": [items ...], "calls": [[a_ref|None, d_ref|None, [[key, valuedesc] ...]] ...], "mode": separate|unrolled|loop}
#   separate: one Template render per call; unrolled: one template with all the tags; loop: one {% for %} over rows
#   (loop: same defaults reference and same keyword names in every call)
# ---------------------------------------------------------------------------------------------
SEP = "|~|"


def run_history(case):
    """-> (list of per-call results ("out", text) | ("err", cls, msg), or None when a single-template render raised: then
    the 2nd item is that error), objects after, objects before."""
    from django.template import Context, Template
    objs = [mk_dict(it) for it in case["objects"]]
    before = [describe_dict(o) for o in objs]
    calls, mode = case["calls"], case["mode"]

    def ref(r):
        return None if r is None else objs[r]
    results, whole_err = [], None
    if mode == "separate":
        for a, d, kws in calls:
            ctx = {"a": ref(a), "d": ref(d)}
            parts = []
            for j, (k, v) in enumerate(kws):
                ctx["v%d" % j] = mk_value(v)
                parts.append("%s=v%d" % (k, j))
            try:
                results.append(("out", str(Template("{% html_attrs a d " + " ".join(parts) + " %}").render(Context(ctx)))))
            except Exception as e:  # noqa
                results.append(("err", type(e).__name__, str(e)[:200]))
    else:
        if mode == "unrolled":
            ctx, src = {}, ""
            for i, (a, d, kws) in enumerate(calls):
                ctx["a%d" % i], ctx["d%d" % i] = ref(a), ref(d)
                parts = []
                for j, (k, v) in enumerate(kws):
                    ctx["v%d_%d" % (i, j)] = mk_value(v)
                    parts.append("%s=v%d_%d" % (k, i, j))
                src += "{% html_attrs a" + str(i) + " d" + str(i) + " " + " ".join(parts) + " %}" + SEP
        else:
            d0, keys = calls[0][1], [k for k, _ in calls[0][2]]
            rows = [{"a": ref(a), "v": [mk_value(v) for _, v in kws]} for a, _, kws in calls]
            ctx = {"rows": rows, "d": ref(d0)}
            src = "{% for row in rows %}{% html_attrs row.a d " + " ".join("%s=row.v.%d" % (k, j) for j, k in enumerate(keys)) + " %}" + SEP + "{% endfor %}"
        try:
            out = str(Template(src).render(Context(ctx)))
            pieces = out.split(SEP)
            results = [("out", t) for t in pieces[:-1]]
            if len(results) != len(calls) or pieces[-1] != "":
                whole_err = ("err", "OutputShape", out[:200])
        except Exception as e:  # noqa
            whole_err = ("err", type(e).__name__, str(e)[:200])
    return (None if whole_err else results), whole_err, [describe_dict(o) for o in objs], before


def hist_call_params(case, i):
    a, d, kws = case["calls"][i]
    return [["pos", None if a is None else case["objects"][a]], ["pos", None if d is None else case["objects"][d]]] + [["kw", k, v] for k, v in kws]


def gen_history(rng, mode):
    inner = ["class", "id", "data-id", "@click", "style", "title", ":href", "hidden", "disabled", "type"]
    plain_only = mode != "separate"     # a raised error would hide the other calls of a single template

    def val():
        if plain_only or rng.random() < 0.7:
            return ["s", rand_text(rng, 6)] if rng.random() < 0.8 else ["safe", rng.choice(["x", "<b>", "a&amp;b"])]
        return rand_value(rng)

    def rdict(minn=0):
        ks = list(dict.fromkeys(rng.choice(inner) for _ in range(rng.randint(minn, 3))))
        if not plain_only and rng.random() < 0.05:
            ks.append(rng.choice(BAD_NAMES[:6]))
        # (single-template modes: True / None / False only under names no keyword appends to - an error would hide the other calls)
        return [(["safe", k] if rng.random() < 0.03 else k,
                 rng.choice([True, None, False]) if plain_only and k not in KW_KEYS and rng.random() < 0.3 else val()) for k in ks]
    objects = [rdict(1)] + [rdict() for _ in range(rng.randint(1, 3))]
    ncalls = rng.randint(2, 4)
    shared_d = 0 if rng.random() < 0.8 else rng.choice([None] + list(range(len(objects))))
    keys = rng.sample(KW_KEYS, rng.randint(0, 2))
    calls = []
    for _ in range(ncalls):
        a = rng.choice([None] + list(range(len(objects))))
        d = shared_d if (mode == "loop" or rng.random() < 0.85) else rng.choice([None] + list(range(len(objects))))
        ks = keys if mode == "loop" else rng.sample(KW_KEYS, rng.randint(0, 2))
        calls.append([a, d, [[k, ["s", rand_text(rng, 5)] if plain_only or rng.random() < 0.8 else rand_value(rng)] for k in ks]])
    return {"objects": objects, "calls": calls, "mode": mode}


def exhaustive_histories():
    D = [("class", ["s", "d"]), ("id", ["s", "i"])]
    A1 = [("class", ["s", "a"]), ("hidden", True)]
    A2 = [("title", ["s", 't"<'])]
    objects = [D, A1, A2, []]
    out = []
    for mode in ("separate", "unrolled", "loop"):
        for L in (2, 3):
            for seq in itertools.product([1, 2, 3, None], repeat=L):
                # one defaults object shared by all calls, varying attrs
                out.append({"objects": objects, "calls": [[a, 0, []] for a in seq], "mode": mode})
                if L == 2:
                    # one attrs object shared, varying defaults (loop mode keeps the defaults reference: skip)
                    if mode != "loop":
                        out.append({"objects": objects, "calls": [[0, d, [["class", ["s", "k"]]]] for d in seq], "mode": mode})
                    # the same object as attrs AND defaults, then as defaults only
                    out.append({"objects": objects, "calls": [[seq[0], 0, [["class", ["s", "k"]]]], [seq[1], 0, [["class", ["s", "k"]]]]], "mode": mode})
    return out


def stream_hist(chk, thorough, corpus_cases):
    import copy
    rng = chk.rng
    cases = [(c, "corpus") for c in corpus_cases] + [(c, "exhaustive") for c in exhaustive_histories()]
    for _ in range(4000 if thorough else 500):
        cases.append((gen_history(rng, rng.choice(["separate", "separate", "unrolled", "loop"])), "random"))
    terms, kept = [], []
    for case, kind in cases:
        replay = dict(case, kind="hist")
        results, whole_err, after, before = run_history(case)
        MUTATED.clear()
        calls = case["calls"]
        shared = any(sum(1 for c in calls if c[1] == r and case["objects"][r]) >= 2 and len({repr(c[0]) for c in calls if c[1] == r}) >= 2
                     for r in range(len(case["objects"])))
        chk.count(("hist", repr(case)), shared, kind="hist-%s-%s" % (case["mode"], kind),
                  sample=dict(replay, results=[r[1] for r in results]) if results and shared and kind == "random" and len(calls) > 2 else None)
        # (1) the caller's dictionaries are unchanged
        if after != before:
            chk.fail(TRIG_MUTATED, "{% html_attrs %} changed a dictionary object it was given (defaults / attrs live on and reach the tag again)",
                     dict(replay, before=before, after=after))
        if whole_err is not None:
            chk.fail("c13-tag-raises", "history of well-formed {%% html_attrs %%} calls raised %s: %s" % (whole_err[1], whole_err[2]), replay)
            continue
        # (2) every render = the same call rendered alone on FRESH dictionaries (pure function of the original contents)
        for i, res in enumerate(results):
            params = hist_call_params(case, i)
            fresh, _src = run_tag(copy.deepcopy(params))
            MUTATED.clear()
            if fresh[:2] != res[:2]:
                chk.fail(TRIG_HISTORY, "call %d of a history sharing dictionary objects rendered differently from the same call on fresh "
                         "dictionaries (something an earlier call received leaked)" % (i + 1),
                         dict(replay, call=i, rendered=res[1], alone=fresh[1]))
            elif res[0] == "out":
                exp = tag_oracle(params)
                if exp is not None and not exp[1] and all(name_ok(k) for k, v in exp[0] if not (v is None or v is False)):
                    check_roundtrip(chk, res[1], exp[0], dict(replay, call=i), "{% html_attrs %} (history)")
        # model: run_heap on the original objects
        def kw_sorted(kws):
            return [kv for kv in kws if is_ident(kv[0])] + [kv for kv in kws if not is_ident(kv[0])]
        cterms = ["(%s, %s, %s)" % (copt(a, lambda n: "%d%%nat" % n), copt(d, lambda n: "%d%%nat" % n), dict_term(kw_sorted(kws)))
                  for a, d, kws in calls]
        try:
            final = clist([dict_term([(k, v) for k, v in o]) for o in after])
        except Exception:  # noqa  (a value that cannot be described: already reported as mutated)
            continue
        terms.append("(%s, %s, %s, %s)" % (clist([dict_term(o) for o in case["objects"]]), clist(cterms),
                                            clist([outcome_term(r) for r in results]), final))
        kept.append(replay)
    bad = C.coq_eval_cases("C13", "hist", IMPORTS, "hist_case", "check_hist", terms, shard=400)
    for i in bad[:10]:
        chk.disagree("model run_heap (history of html_attrs calls on shared dictionaries) != implementation", kept[i])


# ---------------------------------------------------------------------------------------------
# stream: TWINS - process-wide state: the same (name, text) rendered once as a SafeString and once as a plain str
#   within one process, in both orders, through attributes_to_string, the {% html_attrs %} tag (attrs dict, defaults dict,
#   keyword) and Python-passed slot content (string, function).  Every render must be the pure function of its OWN
#   arguments (escaped iff not safe) whatever was rendered before.  Runs FIRST (fresh process state) and again at the END
#   (after ~30k other renders), where the pairs of the first phase are rendered once more as well.
# ---------------------------------------------------------------------------------------------
TRIG_TWIN = "c13-twin-state"
TWIN_TEXTS = ['x" onmouseover="alert(1)', "Tom &amp; Jerry", "<b>", "a'b", "a&b", ">", "it&#x27;s", "&lt;&quot;"]
TWIN_SLOT_TEXTS = ["<b>x</b>", "Tom &amp; Jerry", 'q"\'', "a&amp;b", "<i>é</i> &lt;"]   # well-formed when emitted raw
TWIN_ORDERS = [("safe", "s"), ("s", "safe"), ("safe", "s", "safe"), ("s", "safe", "s")]
_twin_seen = []     # (path, name, text) of the first phase, rendered again at the end


def twin_paths():
    def ats(name, v):
        return ("ats", [(name, v)])

    def tag_attrs(name, v):
        return ("tag", [["pos", [(name, v)]]])

    def tag_defaults(name, v):
        return ("tag", [["pos", [("id", ["s", "i"])]], ["pos", [(name, v)]]])

    def tag_kw(name, v):
        return ("tag", [["kw", name, v]])

    def tag_spread(name, v):
        return ("tag", [["spread", [[name, v]]]])
    return {"ats": ats, "tag-attrs": tag_attrs, "tag-defaults": tag_defaults, "tag-kw": tag_kw, "tag-spread": tag_spread}


def stream_twins(chk, phase):
    rng = chk.rng
    paths = twin_paths()
    names = ["title", "class", "data-x"]
    texts = list(TWIN_TEXTS) + [t for t in (rand_text(rng, 8) for _ in range(12)) if any(c in t for c in "\"'<>&")][:4]
    seqs = []       # [(label, [(path, name, valuedesc) ...])]
    n = 0
    for text in texts:
        for order in TWIN_ORDERS:
            # same path for both twins, and the twins crossing between the direct call and the tag
            for plist in [[p] * len(order) for p in paths] + [["ats", "tag-attrs", "ats"][:len(order)], ["tag-kw", "ats", "tag-defaults"][:len(order)]]:
                n += 1
                # a text no earlier sequence used: the pair starts from a state that never saw it
                t = "%s #%s%d" % (text, phase, n)
                name = names[n % len(names)]
                seqs.append(("-".join(order), [(pth, name, [kind, t]) for pth, kind in zip(plist, order)]))
    if phase == "end":
        for pth, name, t in _twin_seen:
            seqs.append(("again", [(pth, name, ["s", t]), (pth, name, ["safe", t]), (pth, name, ["s", t])]))
    ats_terms, ats_kept, tag_terms, tag_kept = [], [], [], []
    for label, seq in seqs:
        history = []
        for pth, name, v in seq:
            kind, arg = paths[pth](name, v)
            if kind == "ats":
                r = run_ats(arg)
                res = ("out", r[1]) if r[0] == "out" else ("err", r[1], "")
            else:
                res, _src = run_tag(arg)
            MUTATED.clear()
            history.append({"path": pth, "name": name, "value": v, "result": res[1]})
            replay = {"kind": "twin", "sequence": [[p_, n_, v_] for p_, n_, v_ in seq], "upto": len(history), "history": history}
            chk.count(("twin", phase, pth, name, repr(v), len(history), label), True, kind="twin-%s-%s" % (phase, pth.split("-")[0]),
                      sample=dict(replay) if len(history) == 2 and len(chk.samples) < 6 and phase == "first" else None)
            want = '%s="%s"' % (name, v[1] if v[0] == "safe" else html.escape(v[1]))
            if pth == "tag-defaults":
                want = want + ' id="i"'    # defaults first, then the names only attrs has
            if res[0] != "out" or res[1] != want:
                chk.fail(TRIG_TWIN, "attribute %s rendered %s after its %s twin (same name, same text) was rendered in this process: not the pure "
                         "function of its own arguments" % ("marked safe" if v[0] == "safe" else "as a plain str",
                                                            "escaped" if v[0] == "safe" else "UNESCAPED or wrong",
                                                            "plain" if v[0] == "safe" else "safe"), dict(replay, expected=want))
            if kind == "ats":
                ats_terms.append("(%s, %s)" % (dict_term(arg), "Some %s" % cstr(res[1]) if res[0] == "out" else "None"))
                ats_kept.append(replay)
            else:
                tag_terms.append("(%s, %s, None)" % (clist([tparam_term(k, x) for k, x in flat_params(arg)]), outcome_term(res)))
                tag_kept.append(replay)
        if phase == "first" and len(seq) == 2:
            _twin_seen.append((seq[0][0], seq[0][1], seq[0][2][1]))
    # slot content: string and function, safe twin / plain twin of the same text, escape_slots_content on
    slot_terms, slot_kept = [], []
    sn = 0
    for text in TWIN_SLOT_TEXTS:
        for order in TWIN_ORDERS[:2] + ([TWIN_ORDERS[2]] if phase == "end" else []):
            for form in ("str", "fun"):
                sn += 1
                t = "%s<!--%s%d-->" % (text, phase, sn)
                history = []
                for kind in order:
                    content = [form, ["safe" if kind == "safe" else "p", t]]
                    res = run_slot(content, True, [])
                    history.append({"content": content, "result": res[1]})
                    replay = {"kind": "twin-slot", "content": content, "escape_slots_content": True, "hops": [], "history": history}
                    chk.count(("twin-slot", phase, repr(content), len(history), sn), True, kind="twin-%s-slot" % phase)
                    want = t if kind == "safe" else html.escape(t)
                    if res[0] != "out" or res[1] != want:
                        chk.fail(TRIG_TWIN, "slot content rendered differently after its safe / plain twin (same text) was rendered in this process",
                                 dict(replay, expected=want))
                    if res[0] == "out":
                        slot_terms.append(slot_term(content, True, [], res[1]))
                        slot_kept.append(replay)
    for tag, ctype, fn, terms, kept in (("twin_ats_" + phase, "ats_case", "check_ats", ats_terms, ats_kept),
                                        ("twin_tag_" + phase, "tag_case", "check_tag", tag_terms, tag_kept),
                                        ("twin_slot_" + phase, "slot_case", "check_slot", slot_terms, slot_kept)):
        bad = C.coq_eval_cases("C13", tag, IMPORTS, ctype, fn, terms, shard=1500)
        for i in bad[:5]:
            chk.disagree("model != implementation on a render that follows its safe / plain twin", kept[i])


# ---------------------------------------------------------------------------------------------
# stream: reader differential (model tokenizer vs html.parser) on well-formed attribute text
# ---------------------------------------------------------------------------------------------
def gen_attr_text(rng):
    parts = []
    for _ in range(rng.randint(0, 5)):
        name = rng.choice(GOOD_NAMES + ["a", "B", "x1"])
        form = rng.choice(["dq", "dq", "sq", "uq", "bare"])
        val = "".join(rng.choice(["a", "b", " ", "<", "'", '"', "=", "&amp;", "&lt;", "&gt;", "&quot;", "&#x27;", "&#39;", "&#x3C;",
                                  "&apos;", ";", "#", "é", "/", "&#233;"]) for _ in range(rng.randint(0, 6)))
        if form == "dq":
            parts.append('%s="%s"' % (name, val.replace('"', "")))
        elif form == "sq":
            parts.append("%s='%s'" % (name, val.replace("'", "")))
        elif form == "uq":
            v = re.sub(r"[\s\"'=<>`/]", "", val) or "v"
            parts.append("%s=%s" % (name, v))
        else:
            parts.append(name)
    sep = rng.choice([" ", " ", "  ", "\n", "\t "])
    return sep.join(parts) + rng.choice(["", "", " ", " /"])


def stream_parse(chk, thorough):
    terms, kept = [], []
    for _ in range(6000 if thorough else 1200):
        t = gen_attr_text(chk.rng)
        got, broke = parse_back(t)
        chk.count(("parse", t), "&" in t, kind="parse")
        if got is None:
            continue
        terms.append("(%s, %s)" % (cstr(t), attrs_term(got)))
        kept.append(t)
    bad = C.coq_eval_cases("C13", "parse", IMPORTS, "parse_case", "check_parse", terms, shard=2000)
    for i in bad[:10]:
        chk.disagree("model attribute tokenizer != html.parser", {"kind": "parse", "text": kept[i], "html.parser": parse_back(kept[i])[0]})


# ---------------------------------------------------------------------------------------------
# stream: slots
#   content: ["str", sval] | ["fun", sval] | ["slot", sval, escaped]   sval = ["p", text] | ["safe", text]
#   hops: [["repass", flag] | ["rewrap", flag] | ["dynamic"]]
# ---------------------------------------------------------------------------------------------
_slot_comps = {}


def slot_components():
    if _slot_comps:
        return _slot_comps
    from django.utils.safestring import mark_safe
    from django_components import Component, Slot, register, registry  # noqa

    class C13Chain(Component):
        template = "{% if inner is not None %}{{ inner|safe }}{% else %}<div>[[{% slot 's' default %}DEFAULT{% endslot %}]]</div>{% endif %}"

        def get_context_data(self, hops=()):
            if not hops:
                return {"inner": None}
            h, rest = hops[0], list(hops[1:])
            slots = self.input.slots
            if h[0] == "rewrap":
                slots = {k: Slot(v) for k, v in slots.items()}
            if h[0] == "dynamic":
                from django_components.components.dynamic import DynamicComponent
                out = DynamicComponent.render(kwargs={"is": C13Chain, "hops": rest}, slots=slots, render_dependencies=False)
            else:
                out = C13Chain.render(kwargs={"hops": rest}, slots=slots, escape_slots_content=h[1], render_dependencies=False)
            return {"inner": mark_safe(out)}
    C13Chain.__module__ = "verif_c13"
    _slot_comps["chain"] = C13Chain
    return _slot_comps


def mk_sval(d):
    from django.utils.safestring import mark_safe
    return mark_safe(d[1]) if d[0] == "safe" else d[1]


def mk_content(c):
    from django_components import Slot
    if c[0] == "str":
        return mk_sval(c[1])
    v = mk_sval(c[1])

    def fn(ctx, data, ref):
        return v
    if c[0] == "fun":
        return fn
    return Slot(fn, escaped=True, slot_name="s", component_name="user") if c[2] else Slot(fn)


def run_slot(content, flag, hops):
    comp = slot_components()["chain"]
    try:
        out = comp.render(kwargs={"hops": hops}, slots={"s": mk_content(content)}, escape_slots_content=flag, render_dependencies=False)
    except Exception as e:  # noqa
        return ("err", type(e).__name__ + ": " + str(e)[:200])
    m = re.search(r"\[\[(.*)\]\]", out, flags=re.S)
    if not m:
        return ("err", "no slot output in %r" % out)
    return ("out", m.group(1))


def slot_term(content, flag, hops, out):
    def sv(d):
        return "%s %s" % ("Safe" if d[0] == "safe" else "Plain", cstr(d[1]))
    if content[0] == "str":
        ct = "CStr (%s)" % sv(content[1])
    elif content[0] == "fun":
        ct = "CFun (%s)" % sv(content[1])
    else:
        ct = "CSlot (FUser (%s), %s)" % (sv(content[1]), C.cbool(content[2]))
    hs = []
    for h in hops:
        if h[0] == "dynamic":
            # DynamicComponent.render(...) normalises with the default flag (True), then renders the inner
            # component with escape_slots_content=False
            hs += ["Repass true", "Repass false"]
        else:
            hs.append("%s %s" % ("Repass" if h[0] == "repass" else "Rewrap", C.cbool(h[1])))
    return "(%s, %s, %s, %s)" % (ct, C.cbool(flag), clist(hs), cstr(out))


def slot_expected(content, flag, hops):
    """Statement: escaped exactly once unless safe / declared escaped / escape_slots_content=False at the entry.
    Only a Rewrap hop with the flag on (user code builds a fresh Slot(...) around the travelling slot and hands it
    on with escaping requested) may still escape a so-far unescaped plain function result - once."""
    text, safe = content[1][1], content[1][0] == "safe"
    if safe:
        return text
    if content[0] == "str":
        return html.escape(text) if flag else text
    escaped = flag and not (content[0] == "slot" and content[2])
    for h in hops:
        if h[0] == "rewrap" and h[1]:
            escaped = True
    return html.escape(text) if escaped else text


def stream_slot(chk, thorough):
    # (text, is well-formed HTML when emitted raw - the component's HTML post-processing refuses malformed markup)
    texts = [("plain", True), ("<b>x</b>", True), ("a&b", True), ('q"\'', True), ("&amp;", True), ("<i>é</i> &lt; <u>\"q\"</u>", True), ("", True),
             ("<script>alert(1)</script>", False), ("é<", False), ("</div>", False), ("<b", False)]
    wellformed = dict(texts)
    contents = []
    for t, _ in texts:
        for s in ("p", "safe"):
            contents += [["str", [s, t]], ["fun", [s, t]], ["slot", [s, t], False], ["slot", [s, t], True]]
    hopsets = [[]]
    prim = [["repass", True], ["repass", False], ["rewrap", True], ["rewrap", False], ["dynamic"]]
    for L in (1, 2):
        hopsets += [list(t) for t in itertools.product(prim, repeat=L)]
    rng = chk.rng
    for _ in range(300 if thorough else 40):
        hopsets.append([rng.choice(prim) for _ in range(rng.randint(3, 6))])
    cases = []
    for c in contents:
        for flag in (True, False):
            for hs in (hopsets if thorough or c[1][1] in ("<b>x</b>", "a&b", "&amp;") else hopsets[:6] + hopsets[-10:]):
                if wellformed[c[1][1]] or slot_expected(c, flag, hs) != c[1][1]:
                    cases.append((c, flag, hs))
    terms, kept = [], []
    for c, flag, hs in cases:
        res = run_slot(c, flag, hs)
        replay = {"kind": "slot", "content": c, "escape_slots_content": flag, "hops": hs}
        special = any(ch in c[1][1] for ch in "<>&\"'")
        chk.count(("slot", repr(replay)), special and len(hs) >= 1, kind="slot-hops%d" % min(len(hs), 3),
                  sample=dict(replay, emitted=res[1]) if special and len(hs) == 2 and len(chk.samples) < 5 else None)
        if res[0] == "err":
            chk.fail("c13-slot-raises", "render with Python-passed slot content raised: %s" % res[1], replay)
            continue
        exp = slot_expected(c, flag, hs)
        if res[1] != exp:
            twice = res[1] == html.escape(html.escape(c[1][1])) and res[1] != html.escape(c[1][1])
            chk.fail("c13-slot-escape", "slot content %s" % ("escaped twice" if twice else "not escaped as the statement demands"),
                     dict(replay, emitted=res[1], expected=exp))
        terms.append(slot_term(c, flag, hs, res[1]))
        kept.append(replay)
    bad = C.coq_eval_cases("C13", "slot", IMPORTS, "slot_case", "check_slot", terms, shard=2500)
    for i in bad[:10]:
        chk.disagree("model slot normalisation != Component.render", kept[i])


# ---------------------------------------------------------------------------------------------
# stream: wrap_component_js / wrap_component_css
# ---------------------------------------------------------------------------------------------
def ascii_lower(s):
    return s.translate(ASCII_LOWER)


def case_variants(word, rng, n):
    out = {word, word.upper(), word.capitalize()}
    for _ in range(n):
        out.add("".join(ch.upper() if rng.random() < 0.5 else ch for ch in word))
    return sorted(out)


def stream_wrap(chk, thorough, corpus):
    from django_components.dependencies import wrap_component_css, wrap_component_js

    class Dummy:
        pass
    Dummy.__name__ = "C13Dummy"
    rng = chk.rng
    cases = [(c["js"], c["content"], "corpus") for c in corpus]
    for js, word in ((True, "script"), (False, "style")):
        other = "style" if js else "script"
        for w in case_variants(word, rng, 60 if thorough else 16):
            for pre, post in (("", ">"), ("var a=1;", ">"), ("x", ""), ("", " >"), ("/*", "*/"), ("<", ">"), ("é", "\n>")):
                cases.append((js, pre + "</" + w + post, "endtag"))
            cases.append((js, "<" + w + ">", "lookalike"))          # start tag only: harmless
            cases.append((js, "< /" + w + ">", "lookalike"))
            cases.append((js, "</" + w[:-1] + ">", "lookalike"))    # truncated name
            cases.append((js, "<\\/" + w + ">", "lookalike"))
            cases.append((js, "</ " + w + ">", "lookalike"))
        for w in case_variants(other, rng, 4):
            cases.append((js, "a</" + w + ">b", "other-element"))
        # non-ASCII characters whose Python lower-casing yields ASCII letters, and look-alikes that must NOT match
        for s in ("</scrİpt>", "</ſcript>", "</Kcript>", "</sKript>", "</ſtyle>", "</SCRİPT>", "</ｓcript>",
                  "</scrıpt>", "</stŸle>"):
            cases.append((js, s, "unicode"))
        # lower() lengthens the text (U+0130 -> 2 code points): an end tag at the very end, after 1..8 such characters
        for n in range(1, 9):
            for post in ("", ">", " >"):
                cases.append((js, "\u0130" * n + "</" + word + post, "unicode-lengthening"))
                cases.append((js, "\u0130" * n + "</" + word.upper() + post, "unicode-lengthening"))
    alpha = ["<", "/", "s", "S", "c", "r", "i", "p", "t", "y", "l", "e", ">", " ", "x", "İ", "C", "R", "I", "P", "T", "Y", "L", "E"]
    for _ in range(20000 if thorough else 3000):
        n = rng.randint(0, 14)
        s = "".join(rng.choice(alpha) for _ in range(n))
        if rng.random() < 0.3:
            w = rng.choice(["script", "style"])
            s = s[:n // 2] + "</" + "".join(ch.upper() if rng.random() < 0.5 else ch for ch in w) + s[n // 2:]
        cases.append((rng.random() < 0.5, s, "random"))
    terms, kept = [], []
    for js, s, kind in cases:
        name = "script" if js else "style"
        try:
            out = (wrap_component_js if js else wrap_component_css)(Dummy, s)
            res = out
        except RuntimeError:
            res = None
        except Exception as e:  # noqa
            chk.fail("c13-wrap-raises", "wrap raised %s" % type(e).__name__, {"kind": "wrap", "js": js, "content": s})
            continue
        needle = "</" + name
        has_end = needle in ascii_lower(s)
        chk.count(("wrap", js, s), has_end, kind="wrap-" + kind,
                  sample={"element": name, "content": s, "result": "refused" if res is None else res} if kind == "endtag" and len(chk.samples) < 6 else None)
        replay = {"kind": "wrap", "js": js, "content": s}
        if res is not None:
            # direct oracle: the emitted element contains exactly the content: first end tag (ASCII case-insensitive,
            # as HTML matches it) is the one appended by the wrapper
            op = "<%s>" % name
            ok = res.startswith(op) and ascii_lower(res).find(needle, len(op)) == len(op) + len(s) and res[len(op):len(op) + len(s)] == s
            if not ok:
                trig = TRIG_ENDTAG if has_end and needle not in s else "c13-wrap-breaks-element"
                chk.fail(trig, "component %s containing an end tag of its own element was emitted: %r" % ("JS" if js else "CSS", res[:80]), replay)
        elif not has_end:
            chk.fail("c13-wrap-refuses-harmless", "component %s without any %s end tag was refused" % ("JS" if js else "CSS", needle), replay)
        terms.append("(%s, %s, %s)" % (C.cbool(js), cstr(s), copt(res, cstr)))
        kept.append(replay)
    bad = C.coq_eval_cases("C13", "wrap", IMPORTS, "wrap_case", "check_wrap", terms, shard=3000)
    for i in bad[:10]:
        chk.disagree("model wrap_js/wrap_css != implementation", kept[i])
    # Python lower(): which code points outside ASCII produce ASCII letters? (assumption of the model's py_lower1)
    odd = sorted(cp for cp in range(128, 0x110000) if any(ord(ch) < 128 for ch in chr(cp).lower()))
    chk.extra["nonascii_codepoints_lowercasing_into_ascii"] = ["U+%04X" % c for c in odd]
    if odd != [0x130, 0x212A] or "İ".lower() != "i̇" or "K".lower() != "k":
        chk.disagree("Python str.lower() maps other non-ASCII code points into ASCII than the model assumes", {"kind": "lower", "codepoints": odd})


def wrap_render_oracle(chk, thorough):
    """Real renders: a component with inlined JS / CSS; the document must contain the code as the text of one
    <script> / <style> element (html.parser, which switches to CDATA mode like a browser), or the render is refused."""
    from django_components import Component
    rng = chk.rng
    payloads = ["console.log('hi')", "var a = '<b>';", "if (a</script>/.test(b)) {}", "x</SCRIPT>y", "x</ScRiPt >", "a<script>b", "/* </style> */",
                "p{color:red}", "p:after{content:'</STYLE>'}", "x</Style\n>", "a</sty", "</scrip t>"]
    n = 0
    for i, payload in enumerate(payloads):
        for js in (True, False):
            name = "script" if js else "style"
            attrs = {"template": "<html><head></head><body><div>T</div></body></html>", "__module__": "verif_c13_wrap_%d_%d" % (i, js)}
            attrs["js" if js else "css"] = payload
            cls = type("C13Wrap%d%s" % (i, "J" if js else "S"), (Component,), attrs)
            replay = {"kind": "wrap-render", "js": js, "content": payload}
            has_end = ("</" + name) in ascii_lower(payload)
            try:
                out = cls.render()
            except RuntimeError:
                out = None
            except Exception as e:  # noqa
                chk.fail("c13-wrap-raises", "render raised %s: %s" % (type(e).__name__, e), replay)
                continue
            n += 1
            chk.count(("wrap-render", js, payload), has_end, kind="wrap-render")
            if out is None:
                if not has_end:
                    chk.fail("c13-wrap-refuses-harmless", "render refused harmless %s" % name, replay)
                continue
            p = _P()
            p.feed(out)
            p.close()
            texts, cur = [], None
            for ev in p.events:
                if ev[0] == "start" and ev[1] == name:
                    cur = ""
                elif ev[0] == "data" and cur is not None:
                    cur += ev[1]
                elif ev[0] == "end" and ev[1] == name and cur is not None:
                    texts.append(cur)
                    cur = None
            if payload not in texts:
                chk.fail(TRIG_ENDTAG if has_end else "c13-wrap-breaks-element",
                         "rendered document does not carry the component %s as the text of one <%s> element" % ("JS" if js else "CSS", name),
                         dict(replay, element_texts=texts[:5]))
    return n


# ---------------------------------------------------------------------------------------------
def load_corpus():
    out = {"ats": [], "tag": [], "wrap": [], "hist": []}
    if os.path.isdir(CORPUS):
        for f in sorted(os.listdir(CORPUS)):
            if f.endswith(".json"):
                c = json.load(open(os.path.join(CORPUS, f)))
                c = c.get("case", c)
                if c.get("kind") == "ats":
                    out["ats"].append([(k, v) for k, v in c["items"]])
                elif c.get("kind") == "tag":
                    out["tag"].append(c["params"])
                elif c.get("kind") == "hist":
                    out["hist"].append({"objects": [[(k, v) for k, v in o] for o in c["objects"]], "calls": c["calls"], "mode": c["mode"]})
                elif c.get("kind") in ("wrap", "wrap-render"):
                    out["wrap"].append(c)
    return out


def run(tier, seed):
    import djsetup
    import gen_constants
    djsetup.setup()
    gen_constants.generate(["C13"])   # coq/Gen/C13.v from the tree under test (anchors in Attrs/Proofs.v)
    chk = C.Check("C13", tier, seed)
    chk.prove()
    thorough = tier == "thorough"
    corpus = load_corpus()
    only = os.environ.get("VERIF_C13_STREAMS")  # development aid: comma-separated subset of streams
    def on(name):
        return only is None or name in only.split(",")
    if on("twin"):
        stream_twins(chk, "first")                      # process-wide state: must run before anything else renders
    if on("wrap"):
        stream_wrap(chk, thorough, corpus["wrap"])      # corpus witnesses (fixed defect e6d6b5a) run first
        wrap_render_oracle(chk, thorough)
    if on("ats"):
        stream_ats(chk, thorough, corpus["ats"])
    if on("tag"):
        stream_tag(chk, thorough, corpus["tag"])
    if on("hist"):
        stream_hist(chk, thorough, corpus["hist"])
    if on("esc"):
        stream_escape(chk, thorough)
    if on("parse"):
        stream_parse(chk, thorough)
    if on("slot"):
        stream_slot(chk, thorough)
    if on("twin"):
        stream_twins(chk, "end")
    chk.assumptions = [
        "reader = html.parser (Python 3.12) on `<div ATTRS>`; names compared ASCII-lower-cased (HTML attribute names are case-insensitive), as a multiset",
        "the model's reader is the WHATWG attribute tokenizer without CR/NUL input preprocessing; character references need the closing ';'",
        "attribute names that html.parser splits at non-ASCII white space (its regex \\s) although WHATWG does not are compared on the emitted text only",
        "SafeString values / SafeString attribute names / Slot(escaped=True) are the caller's declaration that the text is already HTML: emitted as given (a SafeString name is exempt from the name check; which key object a merged name keeps - the first inserted - is compared with the model only)",
        "attribute names: the code refuses (ValueError) empty names and names with a character of [\\x00-\\x20\\x7f-\\x9f\"'>/=&<]; the statement does not say whether such a name is refused or repaired - refusal is what the fix c3ea7ff chose; emitting such a name is reported as c13-attr-name-chars",
        "str.isidentifier / keyword.iskeyword verdicts are inputs of the model (they only decide the ORDER of extra attributes)",
        "values are str, SafeString, bool, None, int/float; dict-valued extra attributes and aggregate prefixes other than attrs:/defaults: are out of the model's scope (never generated)",
    ]
    if only is not None:
        for what, rp in chk.disagreements[:12]:
            print("DISAGREE", what, json.dumps(rp, default=repr)[:600])
    return chk.finish(
        rule="esc: all strings <= %d over 8 hostile symbols + random; ats: every value <= %d and every name <= %d over a 10-symbol hostile alphabet, "
             "every code point 0-49, 55-65, 120-169 (+3 high ones) alone and inside a name x valued / bare / SafeString key / omitted value, all 7^3 "
             "value-kind triples (also with an invalid plain and an invalid safe name), random dicts (6%% SafeString keys); tag: overlap patterns of one key "
             "across defaults/attrs/two keywords x 6 value kinds, ALL keyword sequences with a repeat of length <= 5 over 3 names (with and without "
             "dictionaries holding the names), repeats of non-string values, plain/SafeString key objects of one name meeting in the merge, 16 ways of "
             "passing the dicts x 3 tails, random param lists (positional, attrs=/defaults=, attrs:k/defaults:k, repeated keywords, spreads, non-identifier "
             "keys, invalid names, SafeString keys, ill-formed mixes); hist: the same attrs / defaults dict OBJECTS through 2-4 successive calls - all "
             "attrs sequences of length 2-3 over 4 objects with a shared defaults (or attrs) object x {separate renders, one template, for-loop} + 500 "
             "random histories; every call compared with the same call alone on fresh dicts, objects compared with their description before; twin: 12 "
             "hostile texts x {safe,plain / plain,safe / s,p,s / p,s,p} x 7 path combinations (attributes_to_string, tag attrs / defaults / keyword / "
             "spread, crossing) + slot string / function twins, each on a text no earlier render used, run first in a fresh process state and again "
             "last (+ the first phase's pairs once more); parse: random well-formed attribute text; slot: 11 texts x plain/safe x "
             "str/function/Slot/Slot(escaped) x flag x all hop chains <= 2 over {repass T/F, rewrap T/F, dynamic} + random longer; wrap: every listed context "
             "x letter-case variants of </script / </style, look-alikes, Unicode case-folding traps, random strings over the end-tag alphabet, 24 real "
             "renders. Non-trivial = value with a special character or an append (attrs), >= 2 calls with different attrs sharing one non-empty defaults object (hist), special characters travelling through >= 1 hop (slot), an end "
             "tag present (wrap)."
             % (5 if thorough else 4, 4 if thorough else 3, 3 if thorough else 2),
        explanation="Theorems of Props/C13.v re-checked by coqc; the model (escape, merge, tag-level param processing, attribute tokenizer, slot "
                    "normalisation, end-tag guard) is evaluated by vm_compute inside Coq on every generated case and compared with what the "
                    "implementation did; html.parser read-back, html.escape/unescape and an ASCII-case-insensitive scan are the direct property oracles.",
        extra_trusted=["modelled, not verified: django.utils.html.escape / conditional_escape / SafeString arithmetic / NodeList.render marking its result safe; "
                       "Python html.parser as the reference HTML reader; str.lower(); str.isidentifier"])


def replay(path):
    import djsetup
    djsetup.setup()
    r = json.load(open(path))
    case = r.get("case", r)
    print(json.dumps(r, indent=1)[:3000])
    k = case.get("kind")
    if k == "ats":
        items = [(a, b) for a, b in case["items"]]
        res = run_ats(items)
        print("impl:", res)
        if res[0] == "out":
            print("read back:", parse_back(res[1]))
            print("expected :", expected_attrs(items))
    elif k == "tag":
        res, src = run_tag(case["params"])
        print("template:", src)
        print("impl:", res)
        if res[0] == "out":
            print("read back:", parse_back(res[1]))
        print("statement:", tag_oracle(case["params"]))
    elif k == "hist":
        results, whole_err, after, before = run_history(case)
        print("per call:", results, whole_err)
        for i in range(len(case["calls"])):
            print(" call %d alone on fresh dicts:" % (i + 1), run_tag(hist_call_params(case, i))[0])
        print("objects before:", before)
        print("objects after :", after)
    elif k == "twin":
        paths = twin_paths()
        for pth, name, v in case["sequence"]:
            kind, arg = paths[pth](name, [v[0], v[1]])
            print(pth, name, v, "->", run_ats([(a, b) for a, b in arg]) if kind == "ats" else run_tag(arg)[0])
    elif k == "twin-slot":
        for h in case["history"]:
            print(h["content"], "->", run_slot(h["content"], True, []))
    elif k == "slot":
        print("impl:", run_slot(case["content"], case["escape_slots_content"], case["hops"]))
        print("statement:", slot_expected(case["content"], case["escape_slots_content"], case["hops"]))
    elif k in ("wrap", "wrap-render"):
        from django_components.dependencies import wrap_component_css, wrap_component_js

        class Dummy:
            pass
        try:
            print("impl:", (wrap_component_js if case["js"] else wrap_component_css)(Dummy, case["content"]))
        except RuntimeError as e:
            print("impl: refused (RuntimeError: %s)" % e)
    elif k == "esc":
        from django.utils.html import escape
        print("impl:", escape(case["s"]))
    elif k == "parse":
        print("html.parser:", parse_back(case["text"]))
    return 0
