"""C05 - inject() returns the nearest enclosing {% provide %} of the rendered structure.

Theorems: coq/Props/C05.v  (S: Core/Sem.v through Provide/Scope.v;  M: Provide/Model.v = perfutil/provide.py)
Correspondence, on every program (an exhaustive family of small provide shapes first, then seeded genprog programs with
provide blocks; both context behaviours):
  (i)   output / exception class of the implementation  vs  Core/Sem.v evaluated inside Coq;
        the value of every inject() call and the whole rendered structure vs a direct Python oracle on the program tree
        (c05_util.PyRef: providers scoped by the rendered structure only), and every inject() value vs the nearest enclosing
        ProvideNode of the RECORDED structure (independent of both);
  (ii)  the event trace recorded by wrapping perfutil.provide's functions as seen by provide.py / component.py (no source
        hooks) is fed to the M-model inside Coq: tables after every event, trace_of(recorded tree) = recorded order,
        well-formedness of the recorded tree (the hypothesis of the M-theorems), tables empty at the end;
  (iii) histories: several renders in one process without resetting anything - outcome of every render equals its solo
        outcome, successful renders leave the tables as they found them (empty when nothing failed before).
"""
import json
import os

import common as C
import core_run as R
import genprog as G
import c05_util as U
from c01 import fix_prog

IMPORTS_CORE = "From DJC Require Import Lib.Base Core.Syntax Core.Sem."
IMPORTS_TRACE = "From DJC Require Import Lib.Base Provide.Model."
CORPUS = os.path.join(C.VERIF, "corpus", "C05")
EMPTY = {"cache": [], "refs": [], "all": []}


# ----------------------------------------------------------------------------------------------------
# program families
# ----------------------------------------------------------------------------------------------------
def T(s):
    return ("text", s)


def comp(name, body=(), only=False, kw=()):
    return ("comp", name, list(kw), only, list(body))


def provide(key, val, body, extra=()):
    return ("provide", key, [("f", val)] + list(extra), list(body))


def provide_kw(key, kw, body):
    """a provide tag with the keyword arguments in exactly the written order"""
    return ("provide", key, list(kw), list(body))


def family_lib():
    """fixed library of the exhaustive family: consumers and wrappers"""
    def consumer(tag, data):
        return {"tpl": [T("(%s=" % tag)] + [("out", ("var", x)) for x, _ in data] + [T(")")], "data": data}
    slot = ("slot", "s", True, False, [], [])
    slot_d = ("slot", "s", True, False, [], [T("dflt"), comp("consd")])
    lib = [
        ("cons", consumer("c", [("v", ("inject", "pa", "f", None))])),
        ("consd", consumer("d", [("v", ("inject", "pa", "f", "D"))])),
        ("cons2", consumer("e", [("v", ("inject", "pa", "f", "D")), ("w", ("inject", "pb", "f", "DB"))])),
        ("consg", consumer("g", [("v", ("inject", "pa", "g", "D"))])),
        ("conse", consumer("z", [("v", ("inject", "pa", "f", ""))])),                                        # falsy default ""
        ("cons2e", consumer("y", [("v", ("inject", "pa", "f", "")), ("w", ("inject", "pb", "f", ""))])),
        # consumers that read several fields of one provider BY NAME (the separators keep the values apart in the output)
        ("consfg", {"tpl": [T("(fg="), ("out", ("var", "v")), T("/"), ("out", ("var", "w")), T(")")],
                    "data": [("v", ("inject", "pa", "f", "D")), ("w", ("inject", "pa", "g", "DG"))]}),
        ("cons3", {"tpl": [T("(fgh="), ("out", ("var", "v")), T("/"), ("out", ("var", "w")), T("/"), ("out", ("var", "x")), T(")")],
                   "data": [("x", ("inject", "pa", "h", "DH")), ("v", ("inject", "pa", "f", "D")), ("w", ("inject", "pa", "g", "DG"))]}),
        ("w0", {"tpl": [T("W["), slot, T("]")], "data": []}),
        ("wp", {"tpl": [T("W["), provide("pa", ("str", "in"), [slot]), T("]")], "data": []}),
        ("wd", {"tpl": [T("W["), slot_d, T("]")], "data": []}),
        ("wpd", {"tpl": [T("W["), provide("pa", ("str", "in"), [slot_d], extra=[("g", ("var", "dv"))]), T("]")], "data": [("dv", ("str", "G"))]}),
        ("wgf", {"tpl": [T("W["), provide_kw("pa", [("g", ("str", "ig")), ("f", ("str", "if"))], [slot]), T("]")], "data": []}),
        ("wl", {"tpl": [T("W["), ("for", "i", ("var", "two"), [slot, ("out", ("var", "i"))]), T("]")], "data": [("two", ("kw", "l"))]}),
        ("wn", {"tpl": [T("N["), comp("w0", [("fill", ("str", "s"), None, None, [T("!"), slot])]), T("]")], "data": []}),
        ("wpn", {"tpl": [T("N["), provide("pb", ("str", "inb"), [comp("wp", [("fill", ("str", "s"), None, None, [T("!"), slot])])]), T("]")], "data": []}),
    ]
    return lib


FAMLIB = family_lib()
WRAPPERS = ["w0", "wp", "wd", "wpd", "wl", "wn", "wpn"]


def c_lib(lib):
    return "[%s]" % "; ".join("(%s, {| c_tpl := %s; c_data := [%s] |})" % (
        G.q(n), G.c_tpls(cd["tpl"]), "; ".join("(%s, %s)" % (G.q(x), G.c_dexpr(d)) for x, d in cd["data"])) for n, cd in lib)


FAMLIB_DEF = "Definition famlib : list (str * cdef) := %s." % c_lib(FAMLIB)


def c_prog(p):
    """like genprog.c_prog; the family's library is defined once per case file"""
    if p["lib"] is not FAMLIB:
        return G.c_prog(p)
    ctx = "; ".join("(%s, %s)" % (G.q(x), G.c_value(v)) for x, v in p["ctx"])
    return "{| p_lib := famlib; p_page := %s; p_ctx := [%s]; p_mode := %s |}" % (
        G.c_tpls(p["page"]), ctx, "Isolated" if p["mode"] == "isolated" else "Django")


def wrap(w, body, only=False):
    kw = [("l", ("var", "plist"))] if w == "wl" else []
    return comp(w, body, only=only, kw=kw)


def family_bodies():
    """(label, page body) - the part placed inside 0..2 page-level providers"""
    out = []
    for c in ("cons", "consd", "cons2", "conse", "cons2e"):
        for n in (1, 2, 3):
            out.append(("sib%d-%s" % (n, c), [x for _ in range(n) for x in (comp(c), T("|"))]))
    out.append(("field-missing", [comp("consg"), comp("consd")]))
    for w in WRAPPERS:
        for c in ("cons", "cons2", "cons2e"):
            out.append(("%s[%s]" % (w, c), [wrap(w, [comp(c)])]))
        out.append(("%s[prov[cons]]" % w, [wrap(w, [T("!"), provide("pa", ("str", "fill"), [comp("cons")]), comp("consd")])]))
        out.append(("%s-only[consd]" % w, [wrap(w, [T("!"), comp("consd")], only=True)]))
        out.append(("%s[cons]+cons" % w, [wrap(w, [comp("consd")]), T("+"), comp("consd")]))
        out.append(("%s[]" % w, [wrap(w, [])]))
        out.append(("%s[named-fill]" % w, [wrap(w, [("fill", ("str", "s"), None, None, [T("!"), comp("consd"), comp("cons2")])])]))
    for w1 in ("w0", "wp", "wpn"):
        for w2 in ("wp", "wd", "wn"):
            out.append(("%s[%s[cons]]" % (w1, w2), [wrap(w1, [wrap(w2, [comp("consd")])])]))
    out.append(("loop[cons]", [("for", "i", ("var", "plist"), [provide("pa", ("var", "i"), [comp("consd"), comp("consd")]), comp("consd")])]))
    out.append(("loop[w0[cons]]", [("for", "i", ("var", "plist"), [wrap("w0", [comp("consd"), ("out", ("var", "i"))])])]))
    out.append(("if[prov]", [("if", ("var", "p1"), [provide("pa", ("str", "T"), [comp("cons")])], [comp("cons")]), ("if", ("var", "nope"), [comp("cons")], [comp("consd")])]))
    out.append(("with[prov]", [("with", "w", ("str", "WV"), [provide("pa", ("var", "w"), [comp("cons2"), comp("cons")])])]))
    return out


def family_wrappings():
    pv = ("var", "p1")
    return [
        ("none", lambda b: b),
        ("pa", lambda b: [provide("pa", pv, b, extra=[("g", ("str", "GG"))])]),
        ("pa(pa)", lambda b: [provide("pa", ("str", "o1"), [T("<"), provide("pa", ("str", "o2"), b), comp("consd"), T(">")])]),
        ("pb", lambda b: [provide("pb", ("str", "ob"), b)]),
        ("pa(pb)", lambda b: [provide("pa", ("str", "oa"), [provide("pb", pv, b), comp("cons2")])]),
    ]


def perm_pages():
    """providers with the SAME SET of 2-3 kwarg names written in DIFFERENT orders - within one program (siblings, shadowing,
    component template vs page, loop iterations) and, since all programs run in one process, across renders"""
    S = lambda s: ("str", s)   # noqa: E731
    fg = lambda a, b, body: provide_kw("pa", [("f", a), ("g", b)], body)   # noqa: E731
    gf = lambda a, b, body: provide_kw("pa", [("g", b), ("f", a)], body)   # noqa: E731
    c2, c3 = comp("consfg"), comp("cons3")
    out = [
        ("fg", [fg(S("A"), S("B"), [c2])]),
        ("gf", [gf(S("A2"), S("B2"), [c2])]),
        ("fg(gf)", [fg(S("A"), S("B"), [c2, gf(S("C"), S("D"), [c2, c2]), c2])]),
        ("gf(fg)", [gf(("var", "p1"), S("B"), [c2, fg(S("C"), ("var", "p1"), [c2]), c2])]),
        ("fgh|ghf|hfg", [provide_kw("pa", kw, [c3, c2]) for kw in (
            [("f", S("1")), ("g", S("2")), ("h", S("3"))], [("g", S("5")), ("h", S("6")), ("f", S("4"))], [("h", S("9")), ("f", S("7")), ("g", S("8"))])]),
        ("fg[wgf[c]]", [fg(S("A"), S("B"), [wrap("wgf", [c2]), c2])]),
        ("gf[wpd[c]]", [gf(S("A"), S("B"), [wrap("wpd", [c2]), c2])]),
        ("loop fg/gf", [("for", "i", ("var", "plist"), [fg(("var", "i"), S("x"), [c2]), gf(S("y"), ("var", "i"), [c2])])]),
        ("pb-gf", [provide_kw("pb", [("g", S("bg")), ("f", S("bf"))], [comp("cons2"), fg(S("A"), S("B"), [c2])])]),
    ]
    return out


def perm_programs():
    for mode in ("isolated", "django"):
        for label, body in perm_pages():
            yield ("perm/%s/%s" % (mode, label),
                   {"lib": FAMLIB, "page": [T("PAGE:")] + body + [T(":END")], "ctx": [("p1", "P1"), ("plist", ["I1", "I2"])], "mode": mode, "nerr": 1})


# provide tags fed through a dict spread: the order of the keyword arguments is the insertion order of the dict
SPREAD_CASES = [
    ("spread fg", '{% provide "pa" ...d_fg %}{% component "consfg" %}{% endcomponent %}{% endprovide %}'),
    ("spread gf", '{% provide "pa" ...d_gf %}{% component "consfg" %}{% endcomponent %}{% endprovide %}'),
    ("spread gf(fg)", '{% provide "pa" ...d_gf %}{% component "consfg" %}{% endcomponent %}{% provide "pa" ...d_fg %}{% component "consfg" %}{% endcomponent %}'
                      '{% endprovide %}{% endprovide %}'),
    ("spread hgf + kw", '{% provide "pa" ...d_hgf %}{% component "cons3" %}{% endcomponent %}{% endprovide %}{% provide "pa" f="k1" ...d_hg %}{% component "cons3" %}'
                        '{% endcomponent %}{% endprovide %}'),
]
SPREAD_CTX = {"d_fg": {"f": "sA", "g": "sB"}, "d_gf": {"g": "tB", "f": "tA"}, "d_hgf": {"h": "u3", "g": "u2", "f": "u1"}, "d_hg": {"h": "w3", "g": "w2"}}


FALSY = [("empty-str", ""), ("zero", 0), ("zero-float", 0.0), ("false", False), ("empty-tuple", ()), ("empty-list", []), ("empty-dict", {}),
         ("truthy", "T"), ("one", 1)]


def falsy_programs():
    """inject(key, default) with falsy defaults of several types (values outside the calculus: recorded-structure oracle and trace
    model only): outside every provider, inside a provider of ANOTHER key, inside a provider of the key (hit), and inject(key)
    without a default next to them"""
    lib = [("nodef", {"tpl": [T("(n="), ("out", ("var", "v")), T(")")], "data": [("v", ("inject", "pa", "f", None))]})]
    for name, val in FALSY:
        lib.append(("df-" + name, {"tpl": [T("(%s=" % name), ("out", ("var", "v")), T(")")], "data": [("v", ("inject", "pa", "f", val))]}))
    allc = [comp("df-" + name) for name, _ in FALSY]
    src_pages = [("outside", allc), ("other-key", [provide("pb", ("str", "ob"), allc)]), ("hit", [provide("pa", ("str", "A"), allc + [comp("nodef")])]),
                 ("other-key+nodef", [provide("pb", ("str", "ob"), allc[:2] + [comp("nodef")])])]
    for mode in ("isolated", "django"):
        for label, page in src_pages:
            yield ("falsy/%s/%s" % (mode, label), {"lib": lib, "page": [T("PAGE:")] + page + [T(":END")], "ctx": [], "mode": mode, "nerr": 1,
                                                   "nocalc": True, "expect": "err" if "nodef" in label else "ok"})


def family_programs():
    lib = FAMLIB
    for mode in ("isolated", "django"):
        for wl, wf in family_wrappings():
            for bl, body in family_bodies():
                page = [T("PAGE:")] + wf(list(body)) + [T(":END")]
                yield ("%s/%s/%s" % (mode, wl, bl),
                       {"lib": lib, "page": page, "ctx": [("p1", "P1"), ("plist", ["I1", "I2"])], "mode": mode, "nerr": 1})


def shape_programs(chk, n, mode):
    """random compositions of the family's building blocks: deep nesting, many consumers per provider"""
    r = chk.rng
    lib = FAMLIB

    WFIELDS = {"wp": "f", "wpn": "f", "wpd": "fg", "wgf": "fg"}

    def body(depth, keys, pf="fgh"):
        """keys: provide keys statically around; pf: fields of the statically nearest `pa` provider ("fgh" when there is none:
        the consumers then take their defaults)"""
        items = []
        for _ in range(r.randint(1, 3)):
            c = r.random()
            if depth >= 4 or c < 0.33:
                strict_ok = "pa" in keys or r.random() < 0.08
                cands = ["cons", "consd", "cons2", "conse", "cons2e"] if strict_ok else ["consd", "cons2", "conse", "cons2e"]
                if "g" in pf:
                    cands += ["consfg", "consfg"]
                if "h" in pf:
                    cands += ["cons3", "cons3"]
                items.append(comp(r.choice(cands)))
            elif c < 0.55:
                k = r.choice(["pa", "pa", "pb"])
                val = r.choice([("str", "v%d" % r.randrange(9)), ("var", "p1"), ("var", "i")])
                kw = [("f", val)]
                if r.random() < 0.6:     # 2-3 keyword arguments, written in a random order
                    kw += [(n, ("str", "%s%d" % (n, r.randrange(9)))) for n in (["g"], ["g", "h"])[r.random() < 0.5]]
                    r.shuffle(kw)
                items.append(provide_kw(k, kw, body(depth + 1, keys | {k}, "".join(n for n, _ in kw) if k == "pa" else pf)))
            elif c < 0.85:
                w = r.choice(WRAPPERS + ["wgf"])
                inner_keys = keys | ({"pa"} if w in WFIELDS else set())
                pf_in = WFIELDS.get(w, pf)
                style = r.random()
                if style < 0.15:
                    fb = []
                elif style < 0.6:
                    fb = [T("!")] + body(depth + 1, inner_keys, pf_in)
                else:
                    fb = [("fill", ("str", "s"), None, None, [T("!")] + body(depth + 1, inner_keys, pf_in))]
                items.append(wrap(w, fb, only=(mode == "isolated" and r.random() < 0.2)))
            elif c < 0.93:
                items.append(("for", "i", ("var", "plist"), body(depth + 1, keys, pf) + [("out", ("var", "i"))]))
            else:
                items.append(("if", ("var", r.choice(["p1", "nope"])), body(depth + 1, keys, pf), body(depth + 1, keys, pf)))
            items.append(T(r.choice("|,;")))
        return items
    for i in range(n):
        page = [T("PAGE:")] + body(0 if i >= n // 3 else 2, set()) + [T(":END")]
        yield ("shape-%s-%d" % (mode, i), {"lib": lib, "page": page, "ctx": [("p1", "P1"), ("plist", ["I1", "I2"][: r.randint(1, 2)])], "mode": mode, "nerr": 1})


def gen_programs(chk, n, mode):
    r = chk.rng
    for i in range(n):
        small = i < n // 3
        g = G.Gen(r, mode, ncomp=r.randint(1, 2) if small else r.randint(2, 4), collide=0.0, provide=r.choice([0.35, 0.5, 0.7]),
                  errors=0.02, depth=2 if small else 3, only=0.12 if mode == "isolated" else 0.0, loops=0.3)
        prog = g.program()
        # a third of the inject defaults become the falsy string ""
        prog["lib"] = [(n, dict(cd, data=[(x, (d[0], d[1], d[2], "") if d[0] == "inject" and d[3] is not None and r.random() < 0.33 else d)
                                         for x, d in cd["data"]])) for n, cd in prog["lib"]]
        yield ("gen-%s-%d" % (mode, i), prog)


# ----------------------------------------------------------------------------------------------------
# static facts about a program
# ----------------------------------------------------------------------------------------------------
def all_nodes(prog):
    return G.flatten(prog["page"]) + [t for _, cd in prog["lib"] for t in G.flatten(cd["tpl"])]


def possible_kinds(prog):
    ks = {"ETemplateSyntax"}
    nodes = all_nodes(prog)
    if any(t[0] == "comp" and t[1] not in dict(prog["lib"]) for t in nodes):
        ks.add("ENotRegistered")
    injects = [d for _, cd in prog["lib"] for _, d in cd["data"] if d[0] == "inject"]
    if any(d[3] is None for d in injects):
        ks.add("EKey")
    provs = [t for t in nodes if t[0] == "provide"]
    if any(any(p[1] == d[1] and d[2] not in dict(p[2]) for p in provs) for d in injects):
        ks.add("EAttribute")
    return ks


def iter_nodes(nodes):
    for n in nodes:
        yield n
        for m in iter_nodes(n.children):
            yield m


def tree_stats(nodes, acc=None, path=()):
    """from the recorded structure: per provider the number of consumers that injected from it"""
    acc = acc if acc is not None else {"hits": {}, "provs": 0, "comps": 0, "deferred": 0, "shadow": 0, "extract": 0, "inj2": 0}
    for n in nodes:
        if n.kind == "prov":
            acc["provs"] += 1
            acc["extract"] += 1 if n.extract else 0
            if any(p.key == n.key for p in path if p.kind == "prov"):
                acc["shadow"] += 1
            tree_stats(n.children, acc, path + (n,))
        else:
            acc["comps"] += 1
            acc["deferred"] += 0 if n.root else 1
            acc["inj2"] += len(n.inj2)
            for r in n.results:
                if r[1] == "hit":
                    acc["hits"][r[3]] = acc["hits"].get(r[3], 0) + 1
            tree_stats(n.children, acc, path + (n,))
    return acc


# ----------------------------------------------------------------------------------------------------
# direct oracle on the RECORDED structure: inject() = nearest enclosing ProvideNode with that key
# ----------------------------------------------------------------------------------------------------
def check_recorded_nearest(nodes, path=()):
    """returns list of (component id, key, expected, observed)"""
    bad = []
    for n in nodes:
        if n.kind == "prov":
            bad += check_recorded_nearest(n.children, path + (n,))
            continue
        for r in n.results:
            key = r[0]
            near = next((p for p in reversed(path) if p.kind == "prov" and p.key == key), None)
            if near is None:
                # outside every provider of the key: the given default (that very object), or KeyError when none was given
                ok = (r[1] == "default" and r[3]) or (r[1] == "KeyError" and not r[3])
                if not ok:
                    bad.append((n.id, key, "no enclosing provider of this key: the given default, or KeyError if none was given", r[1:]))
            else:
                if r[1] != "hit" or r[2] != near.payload or r[3] != near.id:
                    bad.append((n.id, key, {"provider": near.id, "payload": near.payload}, r[1:]))
        bad += check_recorded_nearest(n.children, path + (n,))
    return bad


# ----------------------------------------------------------------------------------------------------
# one render: implementation + recorder + oracles
# ----------------------------------------------------------------------------------------------------
class Ctx:
    def __init__(self, chk):
        self.chk = chk
        self.core_terms, self.core_meta = [], []
        self.trace_terms, self.trace_meta = [], []
        self.solo = {}
        import time
        self.t_last = time.time()


def describe(prog):
    return {"mode": prog["mode"], "ctx": prog["ctx"], "page": G.d_tpls(prog["page"]),
            "components": {n: {"template": G.d_tpls(cd["tpl"]), "data": cd["data"]} for n, cd in prog["lib"]}}


class _NoProvider:
    pass


_SENT = _NoProvider()


def rehook_attrs(cname, cd):
    """on_render_before of a generated component: inject every key of its get_context_data once more (with a default), i.e.
    in the deferred phase, when the provider around the component tag may have exited long ago"""
    injects = [d for _, d in cd["data"] if d[0] == "inject"]
    if not injects:
        return {}

    def on_render_before(self, context, template):
        for d in injects:
            self.inject(d[1], _SENT)
    return {"on_render_before": on_render_before}


def make_gcd(data):
    """get_context_data of a generated component. Unlike core_run's, inject() is handed the program's default ITSELF
    (also a falsy one: "", 0, False, (), [], {}), as user code would"""
    def get_context_data(self, **kwargs):
        out = {}
        for x, d in data:
            if d[0] == "kw":
                out[x] = kwargs.get(d[1], "")
            elif d[0] == "str":
                out[x] = d[1]
            else:
                _, key, field, dflt = d
                if dflt is None:
                    out[x] = getattr(self.inject(key), field)
                else:
                    r = self.inject(key, dflt)
                    out[x] = getattr(r, field) if hasattr(r, "_fields") else r
        return out
    return get_context_data


def class_attrs(rehook):
    def attrs(cname, cd):
        a = {"get_context_data": make_gcd(cd["data"])}
        if rehook:
            a.update(rehook_attrs(cname, cd))
        return a
    return attrs


def render_page(prog, dynamic=False, rehook=False):
    """prog["raw"] = (template source, context dict): a page outside the calculus (dict spreads), rendered as written"""
    import djsetup
    from django.template import Context, Template
    with djsetup.components_settings(context_behavior=prog["mode"]):
        classes, cleanup = R.build(prog, dynamic, extra_attrs=class_attrs(rehook))
        try:
            if prog.get("raw"):
                src, ctx = prog["raw"][0], {k: dict(v) for k, v in prog["raw"][1].items()}
            else:
                src, ctx = G.d_tpls(prog["page"], dynamic), dict(prog["ctx"])
            return R.outcome_of(lambda: Template(src).render(Context(ctx)), limit=15.0)
        finally:
            cleanup()


def render_recorded(prog, dynamic=False, rehook=False):
    rec = U.RECORDER
    rec.reset()
    init = rec.tables()
    o = render_page(prog, dynamic=dynamic, rehook=rehook)
    return o, init, rec.tables(), list(rec.events), list(rec.roots)


def run_one(cx, label, prog, dynamic=False, keep_tables=False, count=True, rehook=False):
    """renders prog once; applies the direct oracles; queues the Coq cases. Returns the outcome."""
    chk = cx.chk
    rec = U.RECORDER
    o, init, final, events, roots = render_recorded(prog, dynamic, rehook)
    replay = {"label": label, "program": prog, "dynamic": dynamic, "rehook": rehook, "source": describe(prog), "implementation": o}
    variant = "dynamic" if dynamic else "page"
    # unexpected exception classes / hangs
    if o[0] == "err" and o[1].startswith("other:"):
        chk.fail("c05-unexpected-exception", "render raised %s" % o[1][6:], replay)
    # (O1) every inject() value = nearest enclosing provider of the recorded structure
    bad = check_recorded_nearest(roots)
    if bad:
        chk.fail("c05-inject-not-nearest-enclosing-provider",
                 "inject() did not return the data of the nearest enclosing {%% provide %%} of the rendered structure: %r" % (bad[:3],),
                 dict(replay, mismatches=bad[:5], structure=[n.to_obj() for n in roots]))
    # (O2) the whole structure and every inject() value vs the oracle on the program tree
    raw = bool(prog.get("raw") or prog.get("nocalc"))
    exp = U.PyRef(prog, rehook=rehook).run() if not raw else None
    if prog.get("raw") and o[0] == "err":
        chk.fail("c05-spread-provider-raised", "a page whose provide tags take their keyword arguments from a dict spread raised %s" % o[1], replay)
    if prog.get("nocalc") and (o[0], o[1] if o[0] == "err" else "") != (("err", "EKey") if prog["expect"] == "err" else ("ok", "")):
        chk.fail("c05-default-or-keyerror", "inject(key, default) outside every provider of the key: expected %s, got %r" % (
            "KeyError from the component without a default" if prog["expect"] == "err" else "every given default (falsy ones too)", o[:2]), replay)
    if not dynamic and not raw:
        if o[0] == "ok" and exp[0] == "ok":
            got, want = U.canon_recorded(roots), U.canon_expected(exp[2])
            if got != want:
                chk.fail("c05-inject-differs-from-program-oracle",
                         "rendered structure / inject() values differ from the nearest-provider oracle computed on the program tree",
                         dict(replay, recorded=got, expected=want))
        elif o[0] != exp[0] and not (o[0] == "err" and o[1].startswith("other:")):
            chk.fail("c05-outcome-differs-from-program-oracle",
                     "implementation %s but the program-tree oracle %s" % (o[:2] if o[0] == "err" else "rendered", exp[:2] if exp[0] == "err" else "renders"),
                     dict(replay, oracle=exp[:2]))
    # (O3) tables: a successful render leaves them as it found them; from empty tables they end empty
    table_raise = any(t is None for _, t in events)
    if o[0] == "ok" and final != init:
        chk.fail("c05-tables-residue-after-successful-render",
                 "provide_cache / provide_references / all_reference_ids differ from their state before a successful render",
                 dict(replay, before=init, after=final))
    if table_raise:
        chk.fail("c05-table-code-raised", "an operation of perfutil/provide.py raised while rendering",
                 dict(replay, events=[e for e, t in events if t is None]))
    if o[0] == "err" and final != init:
        chk.dist["failed-render-left-table-entries(C06)"] += 1
    # Coq cases
    if not (o[0] == "err" and o[1].startswith("other:")) and not dynamic and not raw:
        cx.core_terms.append("(%s, %s)" % (c_prog(prog), R.c_outcome(o)))
        cx.core_meta.append((label, prog, o))
    cx.trace_terms.append(U.c_trace_case(init, events, roots if o[0] == "ok" else None, o[0] == "ok" and init == EMPTY))
    cx.trace_meta.append((label, prog, dynamic, o, [(e, t) for e, t in events], [n.to_obj() for n in roots], init))
    if count:
        st = tree_stats(roots)
        nontriv = o[0] == "ok" and any(v >= 2 for v in st["hits"].values())
        feats = G.features(prog)
        d0 = chk.dist
        d0["providers-with->=2-kwargs"] += sum(1 for n in iter_nodes(roots) if n.kind == "prov" and len(n.payload) >= 2)
        small = len(G.d_tpls(prog["page"])) < 420 and sum(len(G.d_tpls(cd["tpl"])) for _, cd in prog["lib"]) < 900
        chk.count(json.dumps([prog, dynamic, rehook], sort_keys=True, default=list), nontriv,
                  kind="%s/%s/%s" % (prog["mode"], variant, "err" if o[0] == "err" else "ok"),
                  sample={"label": label, "mode": prog["mode"], "page": G.d_tpls(prog["page"]),
                          "components": {n: G.d_tpls(cd["tpl"]) for n, cd in prog["lib"] if any(t[0] == "comp" and t[1] == n for t in all_nodes(prog))},
                          "output": o[1][:200], "events": len(events)} if nontriv and small and label.startswith(("gen", "shape")) else None)
        d = chk.dist
        d["events-total"] += len(events)
        d["providers-rendered"] += st["provs"]
        d["providers-in-fill-extraction"] += st["extract"]
        d["components-rendered"] += st["comps"]
        d["components-deferred"] += st["deferred"]
        d["providers-shadowing-same-key"] += st["shadow"]
        d["providers-with->=2-consumers"] += sum(1 for v in st["hits"].values() if v >= 2)
        d["inject-hits"] += sum(st["hits"].values())
        d["inject-in-deferred-phase"] += st["inj2"]
        for f in feats:
            if f.startswith("provide") or f in ("inject", "comp-only", "comp-in-loop", "slot-in-fill"):
                d["feature:" + f] += 1
    if final != EMPTY and not keep_tables:
        rec.clear_tables()     # residue of a failed render (C06's subject) must not leak into the next, independent case
    return o


def coq_eval(*a, **k):
    """coq_eval_cases, retried once: on the shared box a coqc process is occasionally killed (rc=-9) under memory pressure"""
    try:
        return C.coq_eval_cases(*a, **k)
    except C.HarnessError as e:
        if "rc=-9" not in str(e) and "rc=137" not in str(e):
            raise
        import time
        time.sleep(20)
        return C.coq_eval_cases(*a, **k)


def flush(cx, tag):
    """evaluate the queued cases inside Coq (reference renderer on the programs, table model on the traces, concurrently)"""
    import threading
    import time
    chk = cx.chk
    t0 = time.time()
    chk.extra.setdefault("phase_wall_s", {})["render:" + tag] = round(t0 - cx.t_last, 1)
    res = {}

    def core():
        terms, meta = cx.core_terms, cx.core_meta
        if not terms:
            res["core"] = []
            return
        bad = coq_eval("C05", tag + "c", IMPORTS_CORE, "core_case", "check_core", terms, shard=60, extra_defs=FAMLIB_DEF)
        maybe = [i for i in bad if meta[i][2][0] == "err" and meta[i][2][1] in possible_kinds(meta[i][1]) and len(possible_kinds(meta[i][1])) > 1]
        nok = 0
        if maybe:
            still = coq_eval("C05", tag + "l", IMPORTS_CORE, "core_case", "check_core_lenient", [terms[i] for i in maybe], shard=60,
                                     extra_defs=FAMLIB_DEF)
            ok = set(maybe) - {maybe[i] for i in still}
            nok = len(ok)
            bad = [i for i in bad if i not in ok]
        res["core"], res["ambiguous"] = bad, nok

    def trace():
        res["trace"] = coq_eval("C05", tag + "t", IMPORTS_TRACE, "trace_case", "check_trace", cx.trace_terms, shard=60) if cx.trace_terms else []

    errs = []

    def guarded(f):
        def g():
            try:
                f()
            except BaseException as e:   # re-raised in the main thread
                errs.append(e)
        return g
    ths = [threading.Thread(target=guarded(core)), threading.Thread(target=guarded(trace))]
    if chk.tier == "thorough":      # one after the other: half the number of concurrent coqc processes
        for t in ths:
            t.start()
            t.join()
    else:
        for t in ths:
            t.start()
        for t in ths:
            t.join()
    if errs:
        raise errs[0]
    chk.dist["error-class-order-ambiguous"] += res.get("ambiguous", 0)
    meta = cx.core_meta
    for i in sorted(res["core"], key=lambda i: len(json.dumps(meta[i][1], default=list)))[:8]:
        label, prog, o = meta[i]
        chk.fail("c05-output-differs-from-reference",
                 "rendered output / exception differs from the reference semantics Core/Sem.v (provider scoping by rendered structure)",
                 {"label": label, "program": prog, "source": describe(prog), "implementation": o, "oracle": U.PyRef(prog).run()[:2]})
    for i in sorted(res["trace"], key=lambda i: len(cx.trace_meta[i][4]))[:8]:
        label, prog, dynamic, o, events, tree, init = cx.trace_meta[i]
        chk.disagree("recorded provide/inject event trace differs from the M-model of perfutil/provide.py "
                     "(tables after some event, order of the deferred schedule, or well-formedness of the recorded tree)",
                     {"label": label, "program": prog, "dynamic": dynamic, "source": describe(prog), "implementation": o,
                      "initial_tables": init, "events": events, "recorded_tree": tree})
    cx.core_terms, cx.core_meta = [], []
    cx.trace_terms, cx.trace_meta = [], []
    cx.t_last = time.time()
    chk.extra["phase_wall_s"]["coq:" + tag] = round(cx.t_last - t0, 1)


# ----------------------------------------------------------------------------------------------------
# histories
# ----------------------------------------------------------------------------------------------------
def run_histories(cx, pool, n_hist, length):
    """pool: list of (label, prog, solo outcome). Renders sequences without resetting the tables in between."""
    chk = cx.chk
    rec = U.RECORDER
    r = chk.rng
    for h in range(n_hist):
        rec.clear_tables()
        seq = [r.choice(pool) for _ in range(length)]
        if h % 2 == 0:
            seq = [s for s in seq if s[2][0] == "ok"] or seq[:1]       # half of the histories consist of successful renders only
        seq = seq + [seq[0]]                                            # ... and end by repeating their first render
        failed_before = False
        for k, (label, prog, solo) in enumerate(seq):
            before = rec.tables()
            o = run_one(cx, "hist%d.%d:%s" % (h, k, label), prog, keep_tables=True, count=False)
            after = rec.tables()
            chk.evaluations += 1
            chk.dist["history-renders"] += 1
            if o != solo:
                chk.fail("c05-history-changes-outcome", "a render gives a different result after earlier renders in the same process",
                         {"history": [s[0] for s in seq[:k + 1]], "programs": [s[1] for s in seq[:k + 1]], "solo": solo, "in_history": o})
            if o[0] == "ok" and not failed_before and after != EMPTY:
                chk.fail("c05-tables-not-empty-between-renders", "tables not empty after a history of successful renders",
                         {"history": [s[0] for s in seq[:k + 1]], "programs": [s[1] for s in seq[:k + 1]], "tables": after})
            failed_before = failed_before or o[0] == "err"
            if failed_before and after != EMPTY:
                chk.dist["history-renders-with-residue-of-failed-render"] += 1
        rec.clear_tables()


# ----------------------------------------------------------------------------------------------------
def corpus_programs():
    out = []
    if os.path.isdir(CORPUS):
        for f in sorted(os.listdir(CORPUS)):
            if f.endswith(".json"):
                d = json.load(open(os.path.join(CORPUS, f)))
                out.append(("corpus:" + f, fix_prog(d["program"])))
    return out


def run(tier, seed):
    import djsetup
    djsetup.setup()
    djsetup.patch_ids()
    chk = C.Check("C05", tier, seed)
    chk.prove()
    U.RECORDER.install()
    U.RECORDER.clear_tables()
    cx = Ctx(chk)
    pool = []
    perm_pool = []
    # corpus first (witnesses of fixed defects), then the exhaustive family of small shapes, then random programs
    for label, prog in corpus_programs():
        o = run_one(cx, label, prog)
        pool.append((label, prog, o))
    fam = list(family_programs())
    for i, (label, prog) in enumerate(fam):
        o = run_one(cx, label, prog, rehook=(i % 2 == 1 and prog["mode"] == "isolated"))
        pool.append((label, prog, o))
    # providers passing the same set of 2-3 names in different orders (tags, shadowing, loops, dict spreads); every program of the
    # run shares one process, so the first order seen anywhere is followed by the others
    for rep in range(2):
        for i, (label, prog) in enumerate(perm_programs()):
            o = run_one(cx, "%s#%d" % (label, rep), prog, rehook=(rep == 1 and prog["mode"] == "isolated"))
            pool.append((label, prog, o))
            perm_pool.append((label, prog, o))
        for mode in ("isolated", "django"):
            for label, src in (SPREAD_CASES if rep == 0 else SPREAD_CASES[::-1]):
                prog = {"lib": FAMLIB, "page": [T(src)], "ctx": [], "mode": mode, "nerr": 0, "raw": (src, SPREAD_CTX)}
                run_one(cx, "%s/%s#%d" % (label, mode, rep), prog)
    for label, prog in falsy_programs():
        run_one(cx, label, prog)
    n = 1500 if tier == "thorough" else 260
    for mode in ("isolated", "django"):
        for i, (label, prog) in enumerate(gen_programs(chk, n, mode)):
            # every second isolated-mode program also injects in the deferred phase (on_render_before). Not in django mode:
            # there self.input.context is the caller's live Context, whose provide layers are gone by then; the documented
            # place of inject() is get_context_data, which is what the property observes
            o = run_one(cx, label, prog, rehook=(i % 2 == 1 and mode == "isolated"))
            pool.append((label, prog, o))
            if i % 3 == 0:
                od = run_one(cx, label + "/dynamic", prog, dynamic=True)
                pk = possible_kinds(prog)
                same = (od == o) or (od[0] == "err" and o[0] == "err" and od[1] in pk and o[1] in pk)
                if not same:
                    chk.fail("c05-dynamic-variant-differs", "rendering through {% component \"dynamic\" is=.. %} differs from the plain tag",
                             {"label": label, "program": prog, "source": describe(prog), "plain": o, "dynamic": od})
    nshape = 800 if tier == "thorough" else 120
    for mode in ("isolated", "django"):
        for i, (label, prog) in enumerate(shape_programs(chk, nshape, mode)):
            o = run_one(cx, label, prog, rehook=(i % 2 == 1 and mode == "isolated"))
            pool.append((label, prog, o))
    run_histories(cx, pool, 120 if tier == "thorough" else 40, 4)
    run_histories(cx, perm_pool, 30 if tier == "thorough" else 10, 3)      # histories of permuted-order providers only
    flush(cx, "all")
    U.RECORDER.clear_tables()
    chk.assumptions = [
        "programs are drawn from the calculus of coq/Core/Syntax.v; provide keys are identifiers; provided values are strings; get_context_data is "
        "generated (kwargs, constants, inject(key[, default]).field); variable names do not collide (C03's subject); `only` is exercised in isolated "
        "mode by the random programs and in both modes by the exhaustive family (whose `only` bodies read no variables - django+`only` variable scoping is C03's subject)",
        "the 6-character ids are replaced by a counter (uniqueness of ids is assumed, DESIGN section 10); the recorder wraps the names through which provide.py and component.py "
        "reach perfutil/provide.py (managed_provide_cache, register/unregister_provide_reference, set_provided_context_var, Component.inject, "
        "Component._gen_component_renderer); calls perfutil/provide.py makes internally (unregister from the except-branch) are part of the PFail step",
        "exception classes are compared exactly when the program has one potential error source; with several, deferred rendering may surface another one first "
        "and only 'raises' is compared; table residue after a FAILED render is C06's subject: it is counted in the evidence, not alarmed on, and the tables are "
        "reset before the next independent case (never inside a history)",
    ]
    return chk.finish(
        rule="corpus; exhaustive family: %d small programs = {isolated, django} x 5 page-level provider wrappings (none / pa / pa shadowing pa / pb / pb inside pa) x %d bodies "
             "(1-3 sibling consumers of 5 kinds incl. inject defaults \"\" (falsy), 7 wrapper components [provider around the slot, consumer in the slot default, slot in a loop, pass-through slot in a nested "
             "fill] with consumers in implicit / named fills, provider inside the fill, `only`, siblings after the wrapper, wrapper in wrapper, loops, if/with); then (twice) 18 programs whose providers pass the SAME SET of 2-3 keyword names in DIFFERENT written orders (siblings, "
             "shadowing inner provider, component template vs page, loop iterations) with consumers reading every field by name, and 8 pages whose provide tags take their keyword "
             "arguments from dict spreads of different insertion order (outside the calculus: recorded-structure oracle and trace model only); 8 pages with inject defaults "
             "\"\" 0 0.0 False () [] {} (outside every provider / inside a provider of another key / of the key; outside the calculus); then %d seeded (a third of the inject defaults \"\") "
             "genprog programs per context behaviour with provide blocks at page level, in component templates, around slots, inside fills and loops (every 3rd also through the "
             "dynamic component); then %d random compositions per context behaviour of the family's blocks (nesting depth <= 5, several consumers per provider, provide tags with 1-3 keyword arguments in random order, loops, `only` in "
             "isolated mode); then %d histories (+ 10/30 histories drawn from the permuted-order programs only) of 2-5 renders in one process. Non-trivial = a successful render in which one provider is injected from by >= 2 component "
             "instances. Distinct = distinct program text and variant." % (len(fam), len(family_bodies()), n, nshape, 120 if tier == "thorough" else 40),
        explanation="18 theorems of Props/C05.v re-checked. Every render: output vs Core/Sem.v inside Coq; rendered structure and every inject() value vs the Python oracle on the "
                    "program tree and vs the nearest enclosing ProvideNode of the recorded structure; recorded event trace replayed on the Coq model of perfutil/provide.py "
                    "(tables after every event, deferred order = trace_of(recorded tree), wf_page(recorded tree), empty at the end).",
        extra_trusted=["modelled, not verified: Django's template engine and Context (inject keys travel as context entries; the model sees the ids a component's context carries as the `vis` "
                       "argument of CReg, read from context.flatten() by the recorder); Python set/dict semantics of the three tables; contextlib.contextmanager",
                       "the Python oracle c05_util.PyRef (a direct evaluator of the program tree with providers passed down the rendered structure) and the recorder are part of the harness"])


def replay(path):
    import djsetup
    djsetup.setup()
    djsetup.patch_ids()
    U.RECORDER.install()
    r = json.load(open(path))
    case = r["case"]
    print(r.get("trigger") or r.get("kind"), "-", r.get("what"))
    progs = [case["program"]] if "program" in case else case.get("programs", [])
    for p in progs:
        prog = fix_prog(p)
        print("mode:", prog["mode"], "ctx:", prog["ctx"])
        for n, cd in prog["lib"]:
            print("component", n, "data", cd["data"])
            print("   ", G.d_tpls(cd["tpl"]))
        print("page:", G.d_tpls(prog["page"]))
        o, init, final, events, roots = render_recorded(prog, dynamic=bool(case.get("dynamic")), rehook=bool(case.get("rehook")))
        print("implementation:", o)
        print("program-tree oracle:", U.PyRef(prog, rehook=bool(case.get("rehook"))).run()[:2])
        print("inject() vs nearest recorded provider:", check_recorded_nearest(roots) or "all equal")
        for e, t in events:
            print("   ", e, t)
        print("tables before:", init, "after:", final)
        if "programs" not in case:
            U.RECORDER.clear_tables()
    return 0
