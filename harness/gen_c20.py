"""Literals of the loader functions the Discover model depends on -> coq/Gen/C20.v (anchored in Props/C20.v).

Every str/int constant (doc-strings excluded, ast.walk order) of _search_dirs, _filepath_to_python_module and
get_component_files is emitted; an edit of "_", "__init__.py", ".__init__", the slice length 9, "..", or the glob
pattern "**/*" in the source therefore breaks an `Example ..._anchor` of Props/C20.v on the next run.
"""
import ast
import inspect
import textwrap

from gen_constants import generator, coq_str_list


def _consts(fn):
    f = ast.parse(textwrap.dedent(inspect.getsource(fn))).body[0]
    body = f.body
    if body and isinstance(body[0], ast.Expr) and isinstance(getattr(body[0], "value", None), ast.Constant) \
            and isinstance(body[0].value.value, str):
        body = body[1:]
    out = []
    for st in body:
        for n in ast.walk(st):
            if isinstance(n, ast.Constant) and isinstance(n.value, (str, int)) and not isinstance(n.value, bool):
                out.append(n.value)
    return out


@generator
def gen_C20():
    from django_components.util import loader
    lines = []
    for name, fn in (("search_dirs", loader._search_dirs), ("to_module", loader._filepath_to_python_module),
                     ("get_files", loader.get_component_files)):
        cs = _consts(fn)
        lines.append("Definition %s_strs : list str := %s." % (name, coq_str_list([c for c in cs if isinstance(c, str)])))
        lines.append("Definition %s_ints : list Z := [%s]." % (name, "; ".join("(%d)%%Z" % c for c in cs if isinstance(c, int))))
    return "\n".join(lines) + "\n"
