"""C04 - exactly the JS/CSS of the rendered components is delivered, once, in order.

Model: coq/Deps/Model.v   Theorems: coq/Props/C04.v   Constants: coq/Gen/C04.v (harness/gen_c04.py)
Correspondence, every run:
  0. corpus (witnesses of the two repaired defects) through the direct oracle;
  1. matcher level: hand matchers vs COMPONENT_COMMENT_REGEX.sub / SCRIPT_NAME_REGEX.match / PLACEHOLDER_REGEX.sub;
  2. pipeline level: _process_dep_declarations + render_dependencies on synthetic documents (odd markers,
     malformed data, unknown classes, Media tags without URL, placeholders with 0..n id attributes);
  3. end to end: generated pages (nesting, loops, slots, inheritance, shared Media files, non-ASCII class names),
     document / fragment, four rendering paths; direct property oracle on the final HTML and the model on the
     intermediate content (emit side), the dependency tokens and the final bytes.
"""
import itertools
import json
import os
import re
import time

import common as C
import c04_util as U
from common import clist, copt, cstr

IMPORTS = "From DJC Require Import Lib.Base Deps.Model."
CORPUS = os.path.join(C.VERIF, "corpus", "C04")


# ================================================================================================
# 1. matcher level
# ================================================================================================
def marker_strings(rng, n_random):
    """Byte strings around the marker syntax."""
    slots = [
        [b"<!--", b"<!-", b"<!---"],
        [b" ", b"", b"\n\t ", b"\x0b\x0c\r", b"\xa0", b"\x1c"],
        [b"_RENDERED", b"_RENDERE", b"RENDERED"],
        [b" ", b"", b"  "],
        [b"a_1,x,,", b"a", b"", b"a>b", b"\xd0\x9a_1,i,0a,", b"a,b -->", b"--", b"a\x85b"],
        [b" ", b"", b"\n "],
        [b"-->", b"->", b"--", b"--->"],
    ]
    out = []
    for combo in itertools.product(*[range(len(s)) for s in slots]):
        if sum(1 for c in combo if c != 0) <= 2:
            out.append(b"".join(s[c] for s, c in zip(slots, combo)))
    toks = [b"<!--", b" ", b"\n", b"_RENDERED", b"a", b",", b">", b"-->", b"-", b"<", b"x,1,,", b"\xd0\x9a", b"<!-- _RENDERED a,b,, -->", b"!"]
    for L in range(0, 3):
        for seq in itertools.product(toks, repeat=L):
            out.append(b"".join(seq))
    for _ in range(n_random):
        out.append(b"".join(rng.choice(toks) for _ in range(rng.randint(3, 14))))
    return out


def part_strings(rng, n_random, maxlen=5):
    out = []
    alpha = [b"a", b"g", b",", b"_", b" ", b">", b"\n", b"\xc3"]
    for L in range(0, maxlen):
        for seq in itertools.product(alpha, repeat=L):
            out.append(b"".join(seq))
    fields = [
        [b"A_1a2b3c", b"", b"a b", b"a>", b"\xd0\x9a\xd0\xbd_0", b"a.b-c/d", b"a\n"],
        [b"a0Zz_9", b"", b"a-b", b"\xc3\xa9", b"a\n"],
        [b"", b"0af9", b"0AF", b"g", b"\n"],
        [b"", b"12ab", b"xyz", b"1\n", b"\n", b"1\n\n", b"\n1"],
    ]
    for combo in itertools.product(*fields):
        out.append(b",".join(combo))
    out += [b"a,b,c", b"a,b,,,", b"a,b,,,\n", b",,,", b"a,b,,\n"]
    for _ in range(n_random):
        out.append(b",".join(rng.choice(f) for f in fields[:rng.randint(2, 4)] + [fields[3]] * rng.randint(0, 2)))
    return out


def ph_strings(rng, n_random):
    ids = [b' data-djc-id-a1B2c3=""', b' data-djc-id-______=""', b' data-djc-id-a1b2c=""', b' data-djc-id-a1b2c3d=""',
           b' data-djc-id-a1b2c3', b' data-djc-id-a1-2c3=""', b' data-djc-id-\xc3\xa91b2c=""']
    csss = [b"", b' data-djc-css-0a1b2c=""', b' data-djc-css-0a1b2=""', b' data-djc-css-0a1b2c="" data-djc-css-0a1b2c=""']
    out = []
    for css in csss:
        for nid in range(0, 4):
            for idv in (ids[:1] if nid != 1 else ids):
                attrs = css + idv * nid
                for order in (0, 1):
                    a = attrs if order == 0 else idv * nid + css
                    for end in (b">", b"/>", b" >", b"//>", b""):
                        out.append(b'<link name="CSS_PLACEHOLDER"' + a + end)
                    for end in (b"></script>", b"/></script>", b"> </script>", b">", b"></script"):
                        out.append(b'<script name="JS_PLACEHOLDER"' + a + end)
    out += [b'<link name="JS_PLACEHOLDER">', b'<script name="CSS_PLACEHOLDER"></script>', b'<link  name="CSS_PLACEHOLDER">',
            b'<LINK name="CSS_PLACEHOLDER">', b'<link name="CSS_PLACEHOLDER" data-djc-scope-abc123="">']
    base = [o for o in out if len(o) < 90]
    for _ in range(n_random):
        out.append(b"".join(rng.choice([rng.choice(base), b"<p>", b"x", b"<link name=", b'"', b">"]) for _ in range(rng.randint(2, 4))))
    return out


def url_strings(rng, n_random):
    """Tag texts around the src= / href= attribute syntax (str; non-ASCII only as letters, see Model.v find_attr)."""
    pres = ["<script", "<link", "", "<script data-x=\"1\"", "<script async", "x"]
    befores = [" ", " data-", " x", " _", " -", "\n", "\t", "=", "\"", " é", " 9", "/", " data-src=\"lazy\" ", " data-href=\"lazy\"  "]
    names = ["src", "href", "SRC", "sr", "srcset", "hre"]
    eqs = ["=\"", "='", "=", " = \"", "=\"\""]
    vals = ["s/a.js", "", "a b", "a'b", "a\nb", "x=\"y", "é.css", "a\" src=\"b.js"]
    ends = ["\"", "", "\" defer", "\"></script>", "\" src=\"second.js\">", "' href=\"h.css\">"]
    out = []
    slots = [pres, befores, names, eqs, vals, ends]
    for combo in itertools.product(*[range(len(x)) for x in slots]):
        if sum(1 for c in combo if c != 0) <= 2:
            out.append("".join(x[c] for x, c in zip(slots, combo)))
    toks = ["src=\"", "href=\"", " ", "-", "a", "\"", "data-", "<script", ">", "x.js", "=", "é"]
    for L in range(0, 4):
        for seq in itertools.product(toks, repeat=L):
            out.append("".join(seq))
    for _ in range(n_random):
        out.append("".join(rng.choice(toks + befores + vals) for _ in range(rng.randint(2, 9))))
    return out


def matcher_level(chk, thorough, batches):
    import django_components.dependencies as D
    rng = chk.rng

    def batch(tag, case_type, fn, terms, shard, strs, what, kind):
        batches.append((tag, case_type, fn, terms, shard, None,
                        lambda i: chk.disagree(what, {"kind": kind, "bytes": list(strs[i])})))
    # markers
    strs = marker_strings(rng, 6000 if thorough else 1200)
    terms = []
    for s in strs:
        found = []
        out = D.COMPONENT_COMMENT_REGEX.sub(lambda m: (found.append(m.group("data")), b"")[1], s)
        terms.append("(%s, %s, %s)" % (cstr(s), clist([cstr(d) for d in found]), cstr(out)))
        chk.count(("marker", s), len(found) >= 1 and len(out) > 0, kind="matcher:marker")
    batch("marker", "marker_case", "check_marker", terms, 450, strs, "hand matcher != COMPONENT_COMMENT_REGEX.sub", "marker")
    # parts
    strs = part_strings(rng, 4000 if thorough else 800, 5 if thorough else 4)
    terms = []
    for s in strs:
        m = D.SCRIPT_NAME_REGEX.match(s)
        g = None if m is None else "(%s, %s, %s, %s)" % tuple(cstr(m.group(k)) for k in ("comp_cls_hash", "id", "js", "css"))
        terms.append("(%s, %s)" % (cstr(s), copt(g)))
        chk.count(("part", s), m is not None, kind="matcher:part")
    batch("part", "part_case", "check_part", terms, 700, strs, "hand matcher != SCRIPT_NAME_REGEX.match", "part")
    # placeholders
    strs = ph_strings(rng, 3000 if thorough else 600)
    terms = []
    for s in strs:
        n = [0]

        def rep(m):
            n[0] += 1
            return b"C" if D.CSS_PLACEHOLDER_NAME_B in m[0] else b"J"
        out = D.PLACEHOLDER_REGEX.sub(rep, s)
        terms.append("(%s, %s)" % (cstr(s), cstr(out)))
        chk.count(("ph", s), n[0] >= 1, kind="matcher:placeholder")
    batch("ph", "ph_case", "check_ph", terms, 400, strs, "hand matcher != PLACEHOLDER_REGEX.sub", "placeholder")
    # src= / href= attribute of a Media tag
    ustrs = url_strings(rng, 2000 if thorough else 500)
    terms, cases = [], []
    for t in ustrs:
        for kind, rx in (("js", D.src_pattern), ("css", D.href_pattern)):
            m = rx.search(t.strip())
            terms.append("(%s, %s, %s)" % (U.c_kind(kind), cstr(t.strip().encode()), copt(None if m is None else cstr(m.group(1).encode()))))
            cases.append(t.encode())
            chk.count(("url", kind, t), m is not None and t.strip().count("=") >= 2, kind="matcher:url-attr")
    batch("url", "url_case", "check_url", terms, 900, cases, "hand matcher != src_pattern / href_pattern .search", "url-attr")


# ================================================================================================
# 2. pipeline level (synthetic documents over a fixed zoo of classes)
# ================================================================================================
def build_zoo():
    from django.utils.safestring import mark_safe
    from django_components import Component
    from django_components.dependencies import cache_component_css, cache_component_css_vars, cache_component_js, cache_component_js_vars

    def mk(name, base=Component, **attrs):
        attrs.setdefault("template", "<b>%s</b>" % name)
        attrs["__module__"] = U.fake_module("verif_c04_zoo")
        return type(name, (base,), attrs)
    A = mk("ZooA", js="/*A*/", css=".a{}", Media=type("Media", (), {"js": ["z/a.js", "z/s.js"], "css": {"all": ["z/a.css"], "print": ["z/p.css", "z/a.css"]}}))
    B = mk("ZooB", js="/*B*/", css=None, Media=type("Media", (), {"js": ["z/s.js", "z/b.js", mark_safe('<script src="z/a.js" async></script>')], "css": ["z/b.css"]}))
    Cc = mk("ZooC", base=A, js=None, css=".c{}", Media=type("Media", (), {"js": ["z/c.js"], "css": {"print": ["z/a.css"]}}))
    D_ = mk("Зоопарк", js="  ", css=".d{}")                       # blank js counts as none
    E = mk("ZooE", js=None, css=None)                             # nothing at all
    F = mk("Zoo_F9", js="/*F*/", css=".f{}", Media=type("Media", (), {"js": [mark_safe("<script>inline()</script>")]}))  # tag without URL
    G = mk("动物园", js="/*G*/", css=None, Media=type("Media", (), {"js": ["https://cdn.x/g.js", "/abs/g.js", "z/q&r.js"], "css": {"screen": ["z/g.css"]}}))
    H = mk("ZooH", js="var s='</body>';", css=".h::after{content:'</head >'}")      # end-tag text inside the generated blocks
    zoo = [A, B, Cc, D_, E, F, G, H]
    hashes = {}
    for cls in zoo:
        cache_component_js(cls)
        cache_component_css(cls)
        hashes[cls] = (cache_component_js_vars(cls, {"k": 1}), cache_component_css_vars(cls, {"c": 2}))
    return zoo, hashes


def synth_docs(rng, zoo, hashes, n_random):
    """Yield (content bytes, pieces) ; pieces = list of ('text', b) | ('mark', cls_index, valid) | ('ph', kind)."""
    def marker(ci, ws=(b" ", b" ", b" "), js=b"", css=b"", rid=b"a1B2c3", h=None):
        h = zoo[ci]._class_hash.encode() if h is None else h
        return b"<!--" + ws[0] + b"_RENDERED" + ws[1] + h + b"," + rid + b"," + js + b"," + css + ws[2] + b"-->"
    texts = [b"", b"x", b"<p>t</p>", b"<!-- c -->", b"</head>", b"</body>", b"<head>", b"<body>", b"</body\n>", b"</head >", b"_RENDERED", b"<!--", b" -->", b"\xc3\xa9"]
    phs = [b'<link name="CSS_PLACEHOLDER">', b'<link name="CSS_PLACEHOLDER"/>', b'<script name="JS_PLACEHOLDER"></script>',
           b'<link name="CSS_PLACEHOLDER" data-djc-id-a00001="" data-djc-id-a00002="">',
           b'<script name="JS_PLACEHOLDER" data-djc-css-0a1b2c="" data-djc-id-a00001="" data-djc-id-a00002="" data-djc-id-a00003=""></script>',
           b'<script name="JS_PLACEHOLDER" data-djc-id-a0001=""></script>',
           b'<link name="CSS_PLACEHOLDER" data-djc-id-a00001="" data-djc-id-a00002="" data-djc-css-0a1b2c=""/>',
           b'<script name="JS_PLACEHOLDER" data-djc-id-a00001="" data-djc-css-0a1b2c="" data-djc-id-a00002=""></script>']
    bad_markers = [b"<!-- _RENDERED nohash -->", b"<!-- _RENDERED a,b,c,d,e -->", b"<!-- _RENDERED Nope_000000,a1b2c3,, -->",
                   b"<!-- _RENDERED ZooA_zzzzzz,a-b,, -->", b"<!-- _RENDERED x,y,G, -->", b"<!--_RENDERED x,y,, -->", b"<!-- _RENDERED x,y,,-->",
                   b"<!-- _RENDERED a b,y,, -->"]
    n = len(zoo)

    def doc(parts):
        return b"".join(parts)
    # exhaustive: every sequence of <= 3 class markers (7 classes) in a standard shell, both placeholder settings
    for L in range(0, 4):
        for seq in itertools.product(range(n), repeat=L):
            if L == 3 and len(set(seq)) == 3 and rng.random() < 0.6:
                continue
            body = b"".join(marker(ci) + b"<i>%d</i>" % ci for ci in seq)
            yield b"<html><head></head><body>" + body + b"</body></html>", ("seq", seq)
    # targeted
    for ci in range(n):
        js_h, css_h = hashes[zoo[ci]]
        for js in {b"", (js_h or "").encode()}:
            for css in {b"", (css_h or "").encode()}:
                yield b"<head></head><body>" + marker(ci, js=js, css=css) + marker(ci) + b"</body>", ("inputs", ci)
        yield marker(ci, ws=(b"\n\t", b"  ", b"\r\n")) + b"x" + marker((ci + 1) % n, rid=b"_"), ("ws", ci)
    for bm in bad_markers:
        yield b"<body>" + marker(0) + bm + marker(1) + b"</body>", ("bad", bm.decode())
        yield bm, ("bad", bm.decode())
    for ph in phs:
        yield b"<head>" + ph + b"</head><body>" + marker(0) + marker(1) + b"</body>", ("ph", ph.decode())
        yield ph + marker(2) + ph, ("ph", ph.decode())
    # end-tag text inside the inserted JS / CSS (class 7): the search for </head> / </body> must not look there
    for ph in phs[:3]:
        yield b"<head>" + marker(7) + b"</head><body>" + ph + b"x</body>", ("endtag-in-block", ph.decode())
        yield ph + b"<body>" + marker(7) + marker(0) + b"</body></head>", ("endtag-in-block", ph.decode())
        yield b"<head></head>" + ph + ph + marker(7) + b"<body></body>", ("endtag-in-block", ph.decode())
    # random
    for _ in range(n_random):
        parts = []
        for _ in range(rng.randint(1, 9)):
            r = rng.random()
            if r < 0.45:
                ci = rng.randrange(n)
                if rng.random() < 0.15:
                    ci = rng.choice([0, 1, 2, 6])
                js_h, css_h = hashes[zoo[ci]]
                parts.append(marker(ci, ws=rng.choice([(b" ", b" ", b" ")] * 4 + [(b"\n", b"\t ", b"  ")]),
                                    js=(js_h or "").encode() if rng.random() < 0.2 else b"",
                                    css=(css_h or "").encode() if rng.random() < 0.2 else b"",
                                    rid=rng.choice([b"a1B2c3", b"zzzzzz", b"0"])))
            elif r < 0.8:
                parts.append(rng.choice(texts))
            elif r < 0.95:
                parts.append(rng.choice(phs))
            else:
                parts.append(rng.choice(bad_markers))
        yield doc(parts), ("random",)


def standins(final, js_b, css_b):
    fb = U.b(final)
    js_s = b"\x01" if js_b else b""
    css_s = b"\x02" if css_b else b""
    if js_b:
        fb = fb.replace(js_b, js_s)
    if css_b:
        fb = fb.replace(css_b, css_s)
    return fb, js_s, css_s


def pipeline_level(chk, thorough, batches):
    from django_components import render_dependencies
    zoo, hashes = build_zoo()
    tbl = [(cls._class_hash, U.cinfo_of(cls)) for cls in zoo]
    tbl_term = U.c_table(tbl)
    extra = "Definition zoo : list (str * cinfo) := %s." % tbl_term
    pipe_terms, asm_terms, pipe_cases, asm_cases = [], [], [], []
    by_hash = {cls._class_hash: cls for cls in zoo}
    for content, label in synth_docs(chk.rng, zoo, hashes, 2500 if thorough else 300):
        for typ in ("document", "fragment"):
            outcome, js_b, css_b = U.run_process(content, typ)
            nontriv = outcome[0] == "ok" and len([t for t in outcome[2] + outcome[3] if t[0] in ("inline", "media")]) >= 2 and label[0] != "seq" or \
                (label[0] == "seq" and len(label[1]) > len(set(label[1])) >= 1)
            chk.count(("pipe", typ, content), nontriv, kind="pipeline:" + label[0] + ":" + outcome[0],
                      sample={"type": typ, "content": content.decode("utf-8", "replace"), "outcome": outcome[0]} if label[0] == "random" and nontriv else None)
            pipe_terms.append("(%s, zoo, %s, %s)" % (U.c_rtype(typ), cstr(content), U.c_outcome(outcome)))
            pipe_cases.append((typ, content))
            if label[0] == "seq" and outcome[0] != "ok" and not (outcome[0] == "missingurl" and 5 in label[1]):
                chk.fail("c04-process-exception", "_process_dep_declarations fails on a document of valid markers of live classes: %r" % (outcome,),
                         {"kind": "pipe", "type": typ, "content": content.decode()})
            # direct oracle on well-formed sequences: inline JS/CSS once, first-appearance order; no marker left
            if label[0] == "seq" and outcome[0] == "ok":
                order = U.first_occ(list(label[1]))
                for kind, toks in (("js", outcome[2]), ("css", outcome[3])):
                    exp = [getattr(zoo[i], kind).strip() for i in order if U.nonempty_str(getattr(zoo[i], kind))] if typ == "document" else []
                    got = [t[2] for t in toks if t[0] == "inline" and t[1] == kind]
                    if got != exp:
                        chk.fail("c04-inline-order", "inline %s differs from first-appearance order of the rendered classes" % kind,
                                 {"kind": "pipe", "type": typ, "content": content.decode(), "expected": exp, "got": got})
                if b"_RENDERED" in outcome[1]:
                    chk.fail("c04-marker-survives", "render marker survives", {"kind": "pipe", "type": typ, "content": content.decode()})
            if outcome[0] == "ok":
                final = render_dependencies(content, typ)
                if label[0] == "endtag-in-block":
                    fb, js_s, css_s = U.b(final), js_b, css_b          # the real blocks, not stand-ins
                else:
                    fb, js_s, css_s = standins(final, js_b, css_b)
                asm_terms.append("(%s, %s, %s, %s, %s)" % (U.c_rtype(typ), cstr(outcome[1]), cstr(js_s), cstr(css_s), cstr(fb)))
                asm_cases.append((typ, content))
    batches.append(("pipe", "pipe_case", "check_pipe", pipe_terms, 110, extra, lambda i: chk.disagree(
        "model process != _process_dep_declarations", {"kind": "pipe", "type": pipe_cases[i][0], "content": pipe_cases[i][1].decode("utf-8", "replace")})))
    batches.append(("asm", "asm_case", "check_asm", asm_terms, 250, None, lambda i: chk.disagree(
        "model assemble != render_dependencies", {"kind": "asm", "type": asm_cases[i][0], "content": asm_cases[i][1].decode("utf-8", "replace")})))
    return zoo  # keep the classes alive until the Coq comparison is over


# ================================================================================================
# 3. end to end
# ================================================================================================
def classify(prog, what):
    """Stable trigger string of an oracle failure, decidable on the input (root-cause class of the program)."""
    cs = prog["classes"]
    # a class that can be rendered without producing any html (its marker is then all that tells the page about it)
    if what in ("inline", "media", "fragment", "marker") and any(c.get("root") in U.EMPTY_ROOTS for c in cs):
        return "c04-rendered-without-html"
    # a placeholder tag in some component template + a component with CSS variables: the placeholder may become a root element
    # that carries a data-djc-css attribute behind its data-djc-id attributes (notes/fixes/C04-placeholder-css-attr-order.patch)
    if any(c.get("cssdata") and U.nonempty_str(c.get("css")) for c in cs) and U.has_node({"page": [], "classes": cs}, ("jsdep", "cssdep")):
        return "c04-placeholder-css-attr-order"
    raw = [f[1] for c in cs for f in list(c["mjs"]) + (c["mcss"] if isinstance(c["mcss"], list) else []) if isinstance(f, list)]
    if what in ("media", "fragment") and any(re.search(r'[\w-](src|href)="', t) for t in raw):
        return "c04-media-url-attr-name"
    if what == "core" and prog.get("entry") == "DynamicComponent.render":
        return "c04-dynamic-double-postprocess"
    if any(any(ord(ch) > 127 for ch in c["name"]) for c in cs) and what in ("marker", "inline", "media", "fragment"):
        return "c04-nonascii-classname"
    if what == "placeholder" and U.has_node({"page": [], "classes": cs}, ("jsdep", "cssdep")):
        return "c04-placeholder-multi-id"
    return "c04-e2e-" + what


def e2e_oracle(chk, bu, typ, path, final, rec):
    """Direct property oracle on the final HTML of one rendering path. Returns the visible instance sequence."""
    prog = bu.prog
    seq, nJ, nC = U.visible(final)
    ref = bu.reference()
    if ref is not None:
        # some class of the program can be rendered without producing html: the rendered instances (document order) come from
        # the reference rendering; the instances that produce html must be the ones visible here
        head = seq[:1] if seq[:1] == ["P"] else []
        if seq != head + [x for x, v in ref if v]:
            chk.disagree("visible instances of the real render != html-producing instances of the reference render",
                         dict(rec, visible=seq, reference=ref))
        seq = head + [x for x, _ in ref]
    order = [bu.clsof(x) for x in U.first_occ(seq)]
    idx_order = [x for x in U.first_occ(seq) if x not in ("P", "D")]

    def fail(what, msg, **kw):
        chk.fail(classify(dict(prog, entry=path), what), msg, dict(rec, **kw))
    if "_RENDERED" in final:
        fail("marker", "render marker comment survives in the output")
    if "_PLACEHOLDER" in final:
        fail("placeholder", "dependency placeholder element survives in the output")
    if "djc-render-id" in final:
        fail("placeholder", "nested-component placeholder <template djc-render-id> survives in the output")
    try:
        els = U.find_elements(final)
    except ValueError as e:
        fail("parse", "cannot parse script/style/link elements of the output: %s" % e)
        return seq
    js_files = U.first_occ([f for i in idx_order for f in bu.declared(i, "js")])
    css_files = U.first_occ([f for i in idx_order for f in bu.declared(i, "css")])
    exp_js_files = sorted({U.media_url(f) for f in js_files})
    exp_css_files = sorted({U.media_url(f) for f in css_files})
    # expected inline code: Python's own MRO rule on the generated program (not what Component.js / .css return)
    inl = {c: {"js": bu.inline(c, "js"), "css": bu.inline(c, "css")} for c in order}
    exp_js = [inl[c]["js"] for c in order if inl[c]["js"] is not None]
    exp_css = [inl[c]["css"] for c in order if inl[c]["css"] is not None]
    if typ == "document":
        has_body = prog["shell"] in ("full", "spaced", "nohead")
        has_head = prog["shell"] in ("full", "spaced", "nobody")
        kj = nJ if nJ else (1 if has_body else 0)
        kc = nC if nC else (1 if has_head else 0)
        got_js = [t[2] for t in els if t[0] == "inline" and t[1] == "js" and t[2] != ""]
        got_css = [t[2] for t in els if t[0] == "inline" and t[1] == "css" and t[2] != ""]
        if got_js != exp_js * kj:
            fail("inline", "inline JS is not 'each rendered class once, in first-appearance order' (x%d insertion points)" % kj, expected=exp_js * kj, got=got_js)
        if got_css != exp_css * kc:
            fail("inline", "inline CSS is not 'each rendered class once, in first-appearance order' (x%d insertion points)" % kc, expected=exp_css * kc, got=got_css)
        got_jf = sorted(t[2][0][1] if t[2][0] else "?" for t in els if t[0] == "media" and t[1] == "js")
        got_cf = sorted(t[2][0][1] if t[2][0] else "?" for t in els if t[0] == "media" and t[1] == "css")
        if got_jf != sorted(exp_js_files * kj):
            fail("media", "Media JS files are not 'every file of the rendered classes exactly once'", expected=sorted(exp_js_files * kj), got=got_jf)
        if got_cf != sorted(exp_css_files * kc):
            fail("media", "Media CSS files are not 'every file of the rendered classes exactly once'", expected=sorted(exp_css_files * kc), got=got_cf)
        ncore = sum(1 for t in els if t[0] == "core")
        if ncore != kj:
            # exactly one core manager script per place where the JS block is written (also on DynamicComponent.render(), fixed 41a2c66)
            fail("core", "core script count %d != insertion points %d" % (ncore, kj))
        # the same, on the raw BYTES of the final document (what theorem final_html_counts speaks about): every inline
        # script / style and every Media URL attribute occurs copies(k) times as a byte string
        for c in order:
            for kind, k, tagname in (("js", kj, "script"), ("css", kc, "style")):
                body = inl[c][kind]
                if body is not None:
                    x = "<%s>%s</%s>" % (tagname, body, tagname)
                    same = sum(1 for c2 in order if inl[c2][kind] == body)
                    if final.count(x) != k * same:
                        fail("inline", "byte string %r occurs %d times in the final document, expected %d" % (x, final.count(x), k * same))
        for kind, k, files in (("js", kj, js_files), ("css", kc, css_files)):
            for f in files:
                x = U.media_attr(f, kind)
                if final.count(" " + x) != k:
                    fail("media", "byte string %r occurs %d times in the final document, expected %d" % (x, final.count(" " + x), k))
    else:
        execs = [t for t in els if t[0] == "exec"]
        if [t for t in els if t[0] != "exec"] or len(execs) > 1:
            fail("fragment", "fragment output contains inlined script/style/link elements", got=[t[0] for t in els])
        ex = execs[0][1] if execs else {"loadedCssUrls": [], "loadedJsUrls": [], "toLoadCssTags": [], "toLoadJsTags": []}
        if execs and not final.rstrip().endswith("</script>"):
            fail("fragment", "loader declaration is not at the end of the fragment")
        for kind, key, files, have in (("js", "toLoadJsTags", exp_js_files, [c for c in order if inl[c]["js"] is not None]),
                                       ("css", "toLoadCssTags", exp_css_files, [c for c in order if inl[c]["css"] is not None])):
            urls = [t[0] for t in ex[key]]
            got_files = sorted(u[1] for u in urls if u and u[0] == "media")
            got_cls = [u[1] for u in urls if u and u[0] == "cache" and u[3] is None and u[2] == kind]
            other = [u for u in urls if not u or (u[0] == "cache" and (u[3] is not None or u[2] != kind))]
            if got_files != files:
                fail("fragment", "fragment declares Media %s files != files of the rendered classes, once each" % kind, expected=files, got=got_files)
            if got_cls != [c._class_hash for c in have]:
                fail("fragment", "fragment declares component %s of classes != rendered classes (first-appearance order, once)" % kind,
                     expected=[c._class_hash for c in have], got=got_cls)
            allowed = {c._class_hash for c in order}
            if any(not u or u[1] not in allowed for u in other):
                fail("fragment", "fragment declares a URL that belongs to no rendered class", got=other)
        if ex["loadedCssUrls"] or ex["loadedJsUrls"]:
            fail("fragment", "fragment marks URLs as already loaded", got=[ex["loadedJsUrls"], ex["loadedCssUrls"]])
    return seq


def run_prog(chk, prog, typs, paths, terms, label, coq=True):
    """Render one program through the given paths; oracle on each; model cases appended to `terms`."""
    for ft in U.features(prog):
        chk.dist["feature:" + ft] += 1
    with U.Built(prog) as bu:
        for typ in typs:
            finals = {}
            for path in paths:
                if path == "middleware" and typ != "document":
                    continue
                rec = {"kind": "e2e", "program": prog, "type": typ, "path": path}
                del bu.inst[:]
                try:
                    with U.EmitRecorder() as er:
                        mid, final = U.render_paths(bu, typ, path)
                except Exception as e:  # noqa
                    chk.fail(classify(prog, "exception"), "rendering raised %s: %s" % (type(e).__name__, str(e)[:300]), rec)
                    continue
                final = str(final)
                finals[path] = final
                seq = e2e_oracle(chk, bu, typ, path, final, dict(rec, final=final[:4000]))
                ninst = len(seq)
                ncls = len(set(seq))
                nontriv = ninst > ncls >= 2
                chk.count(("e2e", json.dumps(prog, sort_keys=True), typ, path), nontriv, kind="e2e:%s:%s:%s" % (label, typ, path.split("(")[0][:14]),
                          sample={"page": U.page_src(prog), "classes": [c["name"] for c in prog["classes"]], "type": typ, "path": path,
                                  "instances": seq} if nontriv and label == "random" else None)
                # ---- the instances that were CREATED (get_context_data calls of the generated classes; independent of markers and
                # of the visible text) are the rendered instances the oracle used
                if sorted(map(str, bu.inst)) != sorted(str(x) for x in seq if x != "D"):
                    chk.disagree("component instances created during the render (get_context_data calls) != instances of the document",
                                 dict(rec, created=list(bu.inst), instances=seq))
                # ---- emit side: one call of insert_component_dependencies_comment per rendered instance ----
                exp_hashes = [(bu.page2_cls if (x == "P" and path == U.PATHS[4]) else bu.clsof(x))._class_hash for x in seq]
                if path == U.PATHS[5]:
                    exp_hashes = [bu.clsof("D")._class_hash] + exp_hashes
                if sorted(c[0] for c in er.calls) != sorted(exp_hashes):
                    chk.disagree("calls of insert_component_dependencies_comment != component instances visible in the document (one call per rendered instance)",
                                 dict(rec, calls=[c[:2] for c in er.calls], visible=seq))
                if mid is None:
                    continue
                mid = str(mid)
                with_page = path.startswith("Component.render")
                if U.visible(mid)[0] != U.visible(final)[0]:
                    chk.fail(classify(prog, "visible"), "render_dependencies changed the visible text", rec)
                mseq = seq
                cut = U.cut_at_markers(mid, er.calls)
                if isinstance(cut, str):
                    chk.disagree("rendered content is not text/marker/.../text of the recorded calls: " + cut, rec)
                    continue
                pieces, tail = cut
                if [p[0] for _, p in pieces] != [bu.clsof(x)._class_hash for x in mseq]:
                    chk.disagree("markers in document order != component instances visible in the document", dict(rec, visible=mseq))
                import django_components.dependencies as D
                for (h, rid, jsh, cssh, lit) in er.calls:
                    if lit != D.COMPONENT_DEPS_COMMENT.format(data="%s,%s,%s,%s" % (h, rid, jsh, cssh)):
                        chk.disagree("marker text written by insert_component_dependencies_comment != COMPONENT_DEPS_COMMENT.format(hash,id,js,css)",
                                     dict(rec, marker=lit))
                if not coq:
                    continue
                outcome, js_b, css_b = U.run_process(mid, typ)
                if outcome[0] != "ok":
                    chk.fail(classify(prog, "exception"), "_process_dep_declarations failed on rendered content: %r" % (outcome,), rec)
                    terms["pipe"].append("(%s, %s, %s, %s)" % (U.c_rtype(typ), U.c_table(bu.table(with_page)), cstr(U.b(mid)), U.c_outcome(outcome)))
                    terms["pipe_cases"].append(rec)
                    continue
                text = outcome[1].decode("utf-8")
                if text != "".join(t for t, _ in pieces) + tail:
                    chk.fail(classify(prog, "marker"), "content returned by _process_dep_declarations != the rendered content minus the recorded markers", rec)
                    continue
                ph_pieces, ph_tail = U.cut_at_placeholders(text)
                fb, js_s, css_s = standins(final, js_b, css_b)
                terms["page"].append(U.c_page_case(typ, bu.table(with_page), pieces, tail, (ph_pieces, ph_tail) if ph_pieces else None,
                                                   outcome[2], outcome[3], js_s, css_s, fb))
                terms["page_cases"].append(rec)
            # the paths must deliver the same document (ids are deterministic)
            ref = finals.get(U.PATHS[0])
            if ref is not None and U.PATHS[1] in finals and U.norm_ids(finals[U.PATHS[1]]) != U.norm_ids(ref):
                chk.fail("c04-path-middleware", "middleware output differs from render_dependencies()", {"kind": "e2e", "program": prog, "type": typ})
            if U.PATHS[2] in finals and U.PATHS[3] in finals and U.norm_ids(finals[U.PATHS[2]]) != U.norm_ids(finals[U.PATHS[3]]):
                chk.fail("c04-path-component-render", "Component.render() differs from Component.render(render_dependencies=False) + render_dependencies()",
                         {"kind": "e2e", "program": prog, "type": typ})


def small_programs():
    """Exhaustive small pages: small class libraries (with / without js, css, shared Media files, named slots, Media.extend
    variants), every page of <= 3 (<= 2) uses drawn from a list of atoms."""
    def cls(name, js, css, mjs, mcss, tpl=None, base=None, root="div", **kw):
        return dict({"name": name, "base": base, "js": js, "css": css, "mjs": mjs, "mcss": mcss, "jsdata": False, "cssdata": False,
                     "root": root, "tpl": tpl or []}, **kw)
    variants = [
        [cls("Aa", "/*a*/", ".a{}", ["s/a.js", "s/sh.js"], {"all": ["s/a.css"]}, tpl=[["slot", []]]), cls("Bb", "/*b*/", None, ["s/sh.js"], None)],
        [cls("Aa", None, ".a{}", [], ["s/sh.css"], tpl=[["slot", [["c", 1, None]]]]), cls("Bb", "/*b*/", ".b{}", ["s/b.js"], {"print": ["s/sh.css"]})],
        [cls("Ünï", "/*u*/", None, ["s/u.js"], None, tpl=[["slot", []]]), cls("Sub", None, ".s{}", ["s/s.js"], None, base=0, root="text")],
    ]
    atoms = [["c", 0, None], ["c", 1, None], ["c", 0, [["c", 1, None]]], ["for", 2, [["c", 0, None]]], ["if", False, [["c", 1, None]]],
             ["c", 1, [["c", 0, None]]]]
    for vi, classes in enumerate(variants):
        for L in range(0, 4 if vi == 0 else 3):
            for seq in itertools.product(range(len(atoms)), repeat=L):
                for shell, jp, cp in (("full", 0, 0), ("none", 1, 1)) if L < 3 else (("full", 0, 0),):
                    yield {"classes": classes, "page": [atoms[i] for i in seq], "shell": shell, "js_ph": jp, "css_ph": cp}
    # named slots / named fills / the dynamic component
    classes = [cls("Aa", "/*a*/", ".a{}", ["s/a.js"], {"screen": ["s/a.css"], "print": ["s/a.css"]},
                   tpl=[["slot", []], ["for", 2, [["nslot", "n1", [["c", 1, None]]]]]]),
               cls("__9", "/*b*/", ".b{}", ["s/a.js", "s/b.js"], {"all": ["s/a.css"]}),
               cls("Unused_", "/*never*/", ".never{}", ["s/never.js"], ["s/never.css"])]
    atoms = [["c", 0, None], ["cf", 0, [["n1", [["c", 1, None]], None]]], ["cf", 0, [["d", [["c", 1, None]], None], ["n1", [], None]]],
             ["dyn", 0, None, "name"], ["dyn", 1, None, "var"], ["dynf", 0, [["n1", [["c", 0, None]], "yes"], ["zz", [["c", 2, None]], None]]],
             ["for", 0, [["c", 2, None]]], ["cf", 0, [["n1", [["c", 2, None]], "no"]]]]
    for L in range(0, 3):
        for seq in itertools.product(range(len(atoms)), repeat=L):
            for shell, jp, cp in (("full", 0, 0), ("nohead", 1, 0)):
                yield {"classes": classes, "page": [atoms[i] for i in seq], "shell": shell, "js_ph": jp, "css_ph": cp}
    # inheritance chain with shared files, Media.extend = False / [list], two bases
    classes = [cls("Base", "/*base*/", None, ["s/x.js", "s/sh.js"], {"all": ["s/x.css"]}),
               cls("Mid", None, ".m{}", ["s/m.js", "s/sh.js"], None, base=0),
               cls("Leaf", "/*leaf*/", None, ["s/sh.js"], {"print": ["s/x.css"]}, base=1, extend=False),
               cls("Pick", None, None, ["s/p.js"], {"print": ["s/x.css"]}, base=0, extend=[2]),
               cls("Two", "/*two*/", None, [], None, base=1, base2=3),
               cls("Deep", None, None, [], None, base=4)]
    atoms = [["c", i, None] for i in range(6)]
    for L in range(0, 3):
        for seq in itertools.product(range(len(atoms)), repeat=L):
            yield {"classes": classes, "page": [atoms[i] for i in seq], "shell": "full", "js_ph": 0, "css_ph": 0}


def mi_programs():
    """Multiple inheritance of the INLINE members: class Card(L, B); for each of js / css / template every choice of who defines
    it (Card itself, the first base, the second base, both bases, nobody), without and with a common root class (diamond)."""
    def cls(name, js, css, tpl, mjs, base=None, base2=None):
        return {"name": name, "base": base, "base2": base2, "js": js, "css": css, "mjs": mjs, "mcss": None, "jsdata": False, "cssdata": False,
                "root": "div", "tpl": tpl}
    who = ("own", "L", "B", "both", "none")
    for diamond in (False, True):
        for wj, wc, wt in itertools.product(who, who, who):
            if wt == "none" and not diamond:
                continue            # nobody provides a template: not renderable
            d = lambda w, x, v: v if w in x else None   # noqa: E731
            L = cls("Look", d(wj, ("L", "both"), "/*L*/"), d(wc, ("L", "both"), ".l{}"), d(wt, ("L", "both"), [["t", "l"]]), ["s/l.js"])
            B = cls("Behaviour", d(wj, ("B", "both"), "/*B*/"), d(wc, ("B", "both"), ".b{}"), d(wt, ("B", "both"), [["t", "b"]]), ["s/b.js", "s/l.js"])
            card = cls("Card", d(wj, ("own",), "/*card*/"), d(wc, ("own",), ".card{}"), d(wt, ("own",), []), [])
            if diamond:
                root = cls("Root", "/*root*/", ".root{}", [["t", "r"]], ["s/r.js"])
                L["base"], B["base"] = 0, 0
                card["base"], card["base2"] = 1, 2
                classes, k = [root, L, B, card], 3
            else:
                card["base"], card["base2"] = 0, 1
                classes, k = [L, B, card], 2
            yield {"classes": classes, "page": [["c", k, None], ["c", k, None]], "shell": "full", "js_ph": 0, "css_ph": 0}


def ghost_programs():
    """Components that ARE rendered but produce no html in that render (behaviour-only template, white space, guard false,
    inherited empty template), carrying js / css / Media of their own: every page of <= 2 uses."""
    def cls(name, root, js, css, mjs, mcss=None, tpl=None, **kw):
        return dict({"name": name, "base": None, "js": js, "css": css, "mjs": mjs, "mcss": mcss, "jsdata": False, "cssdata": False,
                     "root": root, "tpl": tpl if tpl is not None else []}, **kw)
    classes = [cls("Track", "comment", "/*track*/", ".track{}", ["s/track.js", "s/sh.js"], {"all": ["s/track.css"]}),
               cls("Keys", "ws", "/*keys*/", None, ["s/keys.js"]),
               cls("Banner", "guard", "/*banner*/", ".banner{}", ["s/banner.js"], ["s/banner.css"], tpl=[["c", 3, None]]),
               cls("Vis", "div", "/*vis*/", None, ["s/sh.js"]),
               dict(cls("SubTrack", "comment", None, None, ["s/sub.js"]), base=0, tpl=None)]
    atoms = [["c", 0, None], ["c", 1, None], ["c", 2, None, "yes"], ["c", 2, None, "no"], ["c", 3, None], ["c", 4, None],
             ["cf", 0, [["zz", [["c", 3, None]], None]]], ["dyn", 0, None, "name"], ["for", 2, [["c", 2, None, "no"]]], ["c", 3, [["c", 1, None]]]]
    for L in range(0, 3):
        for seq in itertools.product(range(len(atoms)), repeat=L):
            for shell, jp, cp in (("full", 0, 0), ("none", 1, 1)) if L < 2 else (("full", 0, 0),):
                yield {"classes": classes, "page": [atoms[i] for i in seq], "shell": shell, "js_ph": jp, "css_ph": cp}


def load_corpus():
    out = []
    if os.path.isdir(CORPUS):
        for f in sorted(os.listdir(CORPUS)):
            if f.endswith(".json"):
                out.append((f, json.load(open(os.path.join(CORPUS, f)))))
    return out


def new_terms():
    return {k: [] for k in ("page", "page_cases", "pipe", "pipe_cases")}


PAGE_BITS = {1: "emit-side hypotheses (clean text, well-formed records of the recorded calls)", 2: "placeholder hypotheses",
             4: "model process != _process_dep_declarations", 8: "model assemble != render_dependencies"}


def e2e_batches(chk, terms, tag, batches):
    def bad_page(i):
        d = U.page_diag("C04", IMPORTS, [terms["page"][i]])
        bits = [PAGE_BITS[b] for b in PAGE_BITS if d and d[0] & b]
        chk.disagree("rendered page: model != implementation: " + ("; ".join(bits) or "page_diag not evaluated"), terms["page_cases"][i])
    batches.append((tag + "page", "page_case", "check_page", terms["page"], 40, None, bad_page))
    batches.append((tag + "pipe", "pipe_case", "check_pipe", terms["pipe"], 60, None,
                    lambda i: chk.disagree("model process != _process_dep_declarations on a rendered page", terms["pipe_cases"][i])))


def eval_all(chk, batches):
    bad = U.eval_batches("C04", IMPORTS, [b[:6] for b in batches if b[3]])
    for b in batches:
        for i in bad.get(b[0], [])[:8]:
            b[6](i)


def run(tier, seed):
    import djsetup
    djsetup.setup()
    djsetup.patch_ids()
    import gen_constants
    gen_constants.generate(["C04"])
    import warnings
    from django.forms.widgets import MediaOrderConflictWarning
    warnings.simplefilter("ignore", MediaOrderConflictWarning)
    chk = C.Check("C04", tier, seed)
    phase = {}
    t_ = [time.time()]

    def lap(name):
        phase[name] = round(time.time() - t_[0], 1)
        t_[0] = time.time()
    chk.prove()
    lap("prove")
    thorough = tier == "thorough"
    # ---- 0. corpus first ----
    terms = new_terms()
    for name, case in load_corpus():
        run_prog(chk, case["program"], case.get("types", ["document", "fragment"]), case.get("paths", U.PATHS), terms, "corpus")
    lap("corpus")
    # ---- 1. matchers ----
    batches = []
    matcher_level(chk, thorough, batches)
    lap("matchers")
    # ---- 2. pipeline on synthetic documents ----
    keep = pipeline_level(chk, thorough, batches)
    lap("pipeline")
    # ---- 3. end to end ----
    for n, prog in enumerate(small_programs()):
        L = len(prog["page"])
        run_prog(chk, prog, ["document", "fragment"], [U.PATHS[0], U.PATHS[2]], terms, "small",
                 coq=(L <= 1 or (L == 2 and (thorough or n % 4 == 0))))
    for n2, prog in enumerate(mi_programs()):
        run_prog(chk, prog, ["document", "fragment"], U.PATHS if n2 % 3 == 0 else [U.PATHS[0], U.PATHS[2]], terms, "multi-inherit",
                 coq=(thorough or n2 % 5 == 0))
    chk.extra["programs_multiple_inheritance"] = n2 + 1
    for n3, prog in enumerate(ghost_programs()):
        run_prog(chk, prog, ["document", "fragment"], U.PATHS if n3 % 3 == 0 else [U.PATHS[0], U.PATHS[2]], terms, "no-html-output",
                 coq=(thorough or n3 % 4 == 0))
    chk.extra["programs_without_html_output"] = n3 + 1
    lap("e2e-small-render")
    nrand = 6000 if thorough else 900
    for k in range(nrand):
        prog = U.gen_prog(chk.rng)
        if k % 3 == 0:
            paths = U.PATHS
        else:
            paths = [U.PATHS[0 if k % 2 else 3], chk.rng.choice([U.PATHS[1], U.PATHS[2], U.PATHS[4], U.PATHS[4], U.PATHS[5]])]
        run_prog(chk, prog, ["document", "fragment"] if k % 2 == 0 else [chk.rng.choice(["document", "fragment"])], paths, terms, "random",
                 coq=(k % (2 if thorough else 4) == 0))
    lap("e2e-random-render")
    e2e_batches(chk, terms, "e2e", batches)
    eval_all(chk, batches)
    lap("coq-eval")
    chk.extra["phase_wall_s"] = phase
    chk.extra["cases_evaluated_in_coq"] = {b[0]: len(b[3]) for b in batches}
    chk.extra["program_counts"] = {"exhaustive_small": n + 1, "random": nrand}
    chk.extra["programs"] = n + 1 + nrand
    del keep
    chk.assumptions = [
        "the page's visible text identifies component instances ([[i]] written by each generated template, [[D]] in front of each {% component \"dynamic\" %} tag); "
        "'first appearance in the document' is read from it",
        "EMIT SIDE (not proved, tested on every generated page): the content handed to render_dependencies is text, marker, ..., text with exactly one marker per rendered "
        "component instance, written by one call of insert_component_dependencies_comment (class hash, render id, input hashes) in front of that instance's HTML; the harness "
        "wraps that function, compares the recorded calls with the visible instances, cuts the content at the recorded markers and evaluates check_page inside Coq "
        "(theorem rendered_page_hypotheses_checked: a true result establishes the hypotheses of harvest_emit_roundtrip / final_html_counts for that page)",
        "document mode inserts at a {% component_*_dependencies %} placeholder, else before </body> (JS) / </head> (CSS); with neither, nothing is inserted (documented); "
        "with k placeholders of a kind everything is inserted k times (documented) - the oracle expects exactly k copies, k computed from the page source",
        "class names are Python identifiers (any Unicode letters); names that are not identifiers (type('a b', ...)) are outside the statement",
        "component js/css and page text contain no marker / placeholder look-alikes ('_RENDERED', '_PLACEHOLDER')",
        "the component media cache still holds the scripts when render_dependencies runs (no eviction between render and post-processing)",
        "which files a class delivers: its own Media plus the Media of the classes Media.extend selects (absent/True: all bases, False: none, list: those classes) - the direct oracle "
        "computes this set from the generated program; the model reads the per-class tag lists from comp_cls().media (their composition is property C16); Django's "
        "Media.render_js/render_css/merge are trusted",
        "a Media entry without any URL (SafeString tag without src/href) makes render_dependencies raise an explanatory RuntimeError: not a 'file from the Media', outside the "
        "statement; modelled as ErrMissingUrl, counted under pipeline:*:missingurl, no alarm",
        "the core manager script (django_components.min.js) is expected exactly once per place where the JS block is written, on every path "
        "(DynamicComponent.render() included since fix 41a2c66)",
    ]
    return chk.finish(
        rule="matchers: skeleton mutations + token sequences + seeded random byte strings for the three regexes; pipeline: every sequence of <=3 markers over an 8-class zoo "
             "(sampled at 3 distinct), input-hash / whitespace / malformed / unknown-class / URL-less-tag / placeholder / end-tag-text-inside-the-inserted-blocks variants, seeded "
             "random piece sequences, both types; end to end: exhaustive small pages over 5 class libraries (two-class libraries with <=3 uses from 6 atoms; named slots + named "
             "fills + dynamic component + unused class with <=2 uses from 8 atoms; inheritance chain with Media.extend False/[list], two bases, shared files with <=2 uses of 6 "
             "classes) + %d seeded random programs (1-5 classes, some never rendered; nesting, loops incl. 0 iterations, default and named slots (also in loops), implicit and "
             "named fills (also under if), the dynamic component by name and by class, inheritance chains, two bases, Media.extend False/[list], shared Media files, dict css "
             "with one file under several media types, SafeString tags, ASCII / '_'-heavy / digit / non-ASCII class names, placeholders in pages and in component roots, "
             "7 shells with/without <head>/<body>) x document/fragment x 6 rendering paths (template+render_dependencies, middleware, Component.render, "
             "Component.render(render_dependencies=False)+render_dependencies, Component.render(slots=prerendered HTML), DynamicComponent.render). "
             "Every render goes through the direct oracle; a deterministic part of them additionally through the model inside Coq (coverage.cases_evaluated_in_coq). "
             "Non-trivial = a class rendered more than once next to another class (e2e) / >=2 delivered assets or a repeated class (pipeline) / >=1 match with residue (matchers). "
             "Distinct = distinct (input, type, path)." % nrand,
        explanation="Theorems of Props/C04.v re-checked by coqc (matchers anchored to the regex pattern strings generated from /repo); the model is evaluated by vm_compute inside "
                    "Coq: re.sub/match results, _process_dep_declarations tokens, final bytes of render_dependencies (masked end-tag search included), and for rendered pages "
                    "check_page = hypotheses of the theorems (content = text/marker/.../text of the recorded calls, clean text, well-formed records; marker-free text = "
                    "text/placeholder/.../text) + model process + model assemble; independent direct oracle on the final HTML (inline JS/CSS once in first-appearance order, "
                    "Media files once incl. inherited per Media.extend, nothing from unrendered classes, fragment declares the same set, no marker/placeholder left) and on its "
                    "raw bytes (every inline script/style string and every Media URL attribute occurs copies(k) times - the quantity of theorem final_html_counts).",
        extra_trusted=["modelled, not verified: Python re (three hand matchers + the end-tag matcher, differentially tested every run), Django Media.render_js/render_css/merge and "
                       "static(), djc_core_html_parser (adds data-djc-id attributes), json/base64 of the loader script (decoded by the harness), the component media cache; "
                       "the serialisation of tags to bytes is a parameter `ser` of theorem final_html_counts (hypothesis: every tag starts with '<' and no occurrence of the "
                       "counted string runs out of a tag)",
                       "harness/gen_c04.py (prints the regex pattern strings as Coq literals)"])


def replay(path):
    import djsetup
    djsetup.setup()
    djsetup.patch_ids()
    r = json.load(open(path))
    case = r.get("case", r)
    print(json.dumps({k: v for k, v in r.items() if k != "case"}, indent=1)[:2000])
    if case.get("kind") == "e2e" or "program" in case:
        prog = case["program"]
        print("page:", U.page_src(prog))
        for i, c in enumerate(prog["classes"]):
            print("class %d %s: %s" % (i, c["name"], U.class_tpl(i, c)))
        chk = C.Check("C04", "quick", 0)
        run_prog(chk, prog, [case["type"]] if "type" in case else ["document", "fragment"], [case["path"]] if "path" in case else U.PATHS,
                 new_terms(), "replay", coq=False)
        with U.Built(prog) as bu:
            for typ in ([case["type"]] if "type" in case else ["document", "fragment"]):
                mid, final = U.render_paths(bu, typ, case.get("path", U.PATHS[0]))
                print("--- intermediate:", mid)
                print("--- final (%s):" % typ, final)
        for trig, what, _ in chk.failures:
            print("ORACLE FAILURE [%s]: %s" % (trig, what))
        return 1 if chk.failures else 0
    if case.get("kind") in ("pipe", "asm"):
        from django_components import render_dependencies
        keep = build_zoo()
        print("content:", case["content"])
        print("process:", U.run_process(case["content"].encode(), case["type"])[0])
        print("final:", render_dependencies(case["content"], case["type"]))
        del keep
    else:
        print(json.dumps(case, indent=1)[:3000])
    return 0
