"""Helpers of the C06 check: tracing / fault injection on the implementation, program decoration,
render-tree reconstruction from a fault-free trace, residue observation, Coq printers.

Instrumentation is harness-side only (no source hooks): the generated Component classes carry hooks at
get_context_data / inject / on_render_before / on_render_after; templates carry a custom tag, a custom filter
and a block tag that discards its body's output; four library functions are wrapped (the wrappers delegate to
the originals) to see provide bodies, slot regions and the end of a component's renderer.
"""
import gc
import re
import signal
import weakref
from contextlib import contextmanager

import common as C
import core_run as R
import genprog as G

PREFIX = "An error occured while rendering components "
COMMENT_RE = re.compile(r"<!-- _RENDERED [^>]*? -->")
DJCID_RE = re.compile(r' data-djc-id-\w+(="")?')
RID_RE = re.compile(r'djc-render-id="\w+"')


class Boom(Exception):
    """The custom exception class raised by the faulting callback."""


# The library (and Django) catch / re-raise several builtin families internally, so the injected exception is drawn
# per run from user subclasses of each of them; the caller must receive the very same object of the very same class.
class BoomType(TypeError):
    pass


class BoomKey(KeyError):
    pass


class BoomAttr(AttributeError):
    pass


class BoomValue(ValueError):
    pass


class BoomRich(Exception):
    """a user exception with state of its own and a custom __str__"""

    def __init__(self, *args):
        super().__init__(*args)
        self.amount = 42
        self.detail = {"why": ["x", 1]}

    def __str__(self):
        return "rich(%s)" % self.amount


def _make_tse():
    from django.template import TemplateSyntaxError

    class BoomTSE(TemplateSyntaxError):
        pass
    return BoomTSE


FAULT_CLASSES = ["Boom", "BoomType", "BoomKey", "BoomAttr", "BoomTSE", "BoomValue", "BoomRich"]
_fault_cls = {}


def fault_class(name):
    if not _fault_cls:
        _fault_cls.update({"Boom": Boom, "BoomType": BoomType, "BoomKey": BoomKey, "BoomAttr": BoomAttr,
                           "BoomValue": BoomValue, "BoomRich": BoomRich, "BoomTSE": _make_tse()})
    return _fault_cls[name]


class RenderTimeout(BaseException):
    pass


def _alarm(signum, frame):
    raise RenderTimeout()


# arg variants of the raised exception: name -> constructor args
ARG_VARIANTS = {
    "str": ("boom",),
    "str2": ("first line\nsecond line",),
    "int": (42,),
    "none": (),
    "tuple": ((1, "two"),),
    "nonearg": (None,),
}


def original_text(exc):
    """what component_error_message regards as the original message: str(args[0]), or str(err)"""
    if len(exc.args) and exc.args[0] is not None:
        return str(exc.args[0])
    return str(exc)


# ------------------------------------------------------------------------------------------------
# Tracer
# ------------------------------------------------------------------------------------------------
class Tracer:
    def __init__(self):
        self.installed = False
        self.enabled = True
        self.reset(None, "str")
        self.alloc = []          # render ids / provide ids in allocation order (kept across a history)

    def reset(self, target, variant, keep_alloc=False, cls="Boom"):
        self.count = 0
        self.target = target
        self.variant = variant
        self.cls = cls
        self.raised = None
        self.raised_text = None
        self.events = []
        self.instances = []
        if not keep_alloc:
            self.alloc = []

    # -- the callback point ---------------------------------------------------------------------
    def point(self, kind, rid=None):
        idx = self.count
        self.count += 1
        self.events.append(("P", kind, rid))
        if self.target is not None and idx == self.target:
            exc = fault_class(self.cls)(*ARG_VARIANTS[self.variant])
            exc.c06_payload = ("payload", idx)
            self.raised = exc
            self.raised_text = original_text(exc)
            raise exc

    # -- hooks handed to core_run.build -----------------------------------------------------------
    def comp_hook(self, kind, comp):
        from django_components.context import _COMPONENT_CONTEXT_KEY, _INJECT_CONTEXT_KEY_PREFIX
        rid = comp.id
        if kind == "get_context_data":
            ctx = comp.input.context
            parent = ctx.get(_COMPONENT_CONTEXT_KEY, None) or None
            vis = sorted(v for k, v in ctx.flatten().items() if k.startswith(_INJECT_CONTEXT_KEY_PREFIX))
            self.alloc.append(rid)
            self.instances.append((rid, comp))
            self.events.append(("C", rid, comp.name, parent, vis))
            self.point("gcd", rid)
        else:
            self.point("inject", rid)

    def extra_attrs(self, cname, cd):
        tr = self

        def on_render_before(self, context, template):
            tr.events.append(("B", self.id))
            tr.point("before", self.id)

        def on_render_after(self, context, template, content):
            tr.events.append(("A", self.id))
            tr.point("after", self.id)
            return None
        return {"on_render_before": on_render_before, "on_render_after": on_render_after}

    # -- wrappers around four library functions (delegating) ---------------------------------------
    def install(self):
        if self.installed:
            return
        import django_components.component as comp_mod
        import django_components.provide as prov_mod
        import django_components.slots as slots_mod
        from django.template import Library, Node, engines
        tr = self

        orig_set = prov_mod.set_provided_context_var

        def set_provided_context_var(context, key, provided_kwargs):
            pid = orig_set(context, key, provided_kwargs)
            if tr.enabled:
                tr.alloc.append(pid)
                tr.events.append(("V+", pid))
            return pid
        prov_mod.set_provided_context_var = set_provided_context_var

        orig_managed = prov_mod.managed_provide_cache

        @contextmanager
        def managed_provide_cache(provide_id):
            with orig_managed(provide_id):
                try:
                    yield
                finally:
                    if tr.enabled:
                        tr.events.append(("V-", provide_id))
        prov_mod.managed_provide_cache = managed_provide_cache

        orig_slot = slots_mod.add_slot_to_error_message

        @contextmanager
        def add_slot_to_error_message(component_name, slot_name):
            if tr.enabled:
                tr.events.append(("S+", "%s(slot:%s)" % (component_name, slot_name)))
            with orig_slot(component_name, slot_name):
                try:
                    yield
                finally:
                    if tr.enabled:
                        tr.events.append(("S-",))
        slots_mod.add_slot_to_error_message = add_slot_to_error_message

        orig_extract = slots_mod._extract_fill_content

        def _extract_fill_content(*a, **kw):
            if tr.enabled:
                tr.events.append(("X+",))
            try:
                return orig_extract(*a, **kw)
            finally:
                if tr.enabled:
                    tr.events.append(("X-",))
        slots_mod._extract_fill_content = _extract_fill_content

        orig_attrs = comp_mod.set_component_attrs_for_js_and_css

        def set_component_attrs_for_js_and_css(*a, **kw):
            res = orig_attrs(*a, **kw)
            cid = kw.get("component_id", a[1] if len(a) > 1 else None)
            if tr.enabled:
                tr.events.append(("E", cid, sorted(res[1].keys())))
            return res
        comp_mod.set_component_attrs_for_js_and_css = set_component_attrs_for_js_and_css

        lib = Library()

        @lib.simple_tag
        def c06p():
            tr.point("tag")
            return ""

        @lib.filter
        def c06f(value):
            tr.point("filter")
            return value
        lib.filter("c06g", c06f)

        class DropNode(Node):
            def __init__(self, nodelist):
                self.nodelist = nodelist

            def render(self, context):
                tr.events.append(("D+",))
                try:
                    self.nodelist.render(context)
                finally:
                    tr.events.append(("D-",))
                return ""

        @lib.tag
        def c06drop(parser, token):
            nodelist = parser.parse(("endc06drop",))
            parser.delete_first_token()
            return DropNode(nodelist)

        eng = engines["django"].engine
        eng.template_builtins.append(lib)
        self.installed = True


TR = Tracer()


# ------------------------------------------------------------------------------------------------
# Tables
# ------------------------------------------------------------------------------------------------
def tables():
    from django_components.perfutil import component as pc
    from django_components.perfutil import provide as pp
    return [pc.component_context_cache, pc.component_renderer_cache, pc.child_component_attrs,
            pp.provide_cache, pp.provide_references, pp.all_reference_ids]


TABLE_NAMES = ["component_context_cache", "component_renderer_cache", "child_component_attrs",
               "provide_cache", "provide_references", "all_reference_ids"]


def table_keys():
    return [sorted(t.keys()) if isinstance(t, dict) else sorted(t) for t in tables()]


def clear_tables():
    for t in tables():
        t.clear()


# ------------------------------------------------------------------------------------------------
# Program decoration: callback points, element wrappers, discarded regions
# ------------------------------------------------------------------------------------------------
def _has_fill(ts):
    """does this component-tag body collect fills (text beside them is an error)?"""
    for t in ts:
        k = t[0]
        if k == "fill":
            return True
        if k == "if" and (_has_fill(t[2]) or _has_fill(t[3])):
            return True
        if k in ("for", "with") and _has_fill(t[3]):
            return True
    return False


def decorate(prog, rng, p_point=0.22, p_wrap=0.3, p_drop=0.06, p_sanitize=0.85, p_extract=0.4, p_input=0.25):
    """insert `{% c06p %}` / `{{ ""|c06f }}` points, `<b>..</b>` wrappers around component tags and
    `{% c06drop %}` regions into the templates of a genprog program (as raw text nodes).
    With probability p_sanitize the program's own error sources (required slots, inject without default) are
    defused so that its fault-free run succeeds; the others exercise renders that fail by themselves."""
    sanitize = rng.random() < p_sanitize
    def pt():
        return ("text", rng.choice(["{% c06p %}", '{{ "."|c06f }}']))

    def ts(l, text_ok):
        out = []
        for t in l:
            if text_ok and rng.random() < p_point:
                out.append(pt())
            t2 = t1(t, text_ok)
            if t2[0] == "comp" and text_ok:
                c = rng.random()
                if c < p_wrap:
                    attrs = ' {% html_attrs class="w"|c06f %}' if rng.random() < p_input else ""
                    out.extend([("text", "<b%s>" % attrs), t2, ("text", "</b>")])
                    continue
                if c < p_wrap + p_drop:
                    out.extend([("text", "{% c06drop %}"), t2, ("text", "{% endc06drop %}")])
                    continue
            out.append(t2)
        if text_ok and rng.random() < p_point:
            out.append(pt())
        return out

    def xp(e, text_ok):
        """in a fill-collecting tag body (outside fill contents) expressions are evaluated during fill discovery:
        pipe some of them through the callback filter"""
        if text_ok or rng.random() >= p_extract:
            return e
        # genprog spells a tag-argument variable whose name hashes to 0 mod 3 as "{{ name }}"; pick the alias of the
        # filter for which the synthesized expression keeps its bare spelling
        for f in ("c06f", "c06g"):
            x = G.d_expr(e) + "|" + f
            if sum(map(ord, x)) % 3 != 0:
                return ("var", x)
        return e

    def piped(e):
        """the expression piped through the callback filter (keeping genprog's bare spelling, see xp)"""
        for f in ("c06f", "c06g"):
            x = G.d_expr(e) + "|" + f
            if sum(map(ord, x)) % 3 != 0:
                return ("var", x)
        return e

    def kwin(kw, spread=False):
        """tag INPUTS: user code (the callback filter) runs while the library resolves the tag's parameters"""
        out = [(k_, piped(e) if rng.random() < p_input else e) for k_, e in kw]
        if spread and rng.random() < p_input / 2:
            # `...c06sp|c06f` spreads an empty mapping of the page context through the filter (the key of this entry is
            # printed verbatim by genprog: ` ...c06sp|c06f zz="1"`)
            out.append(("...c06sp|c06f zz", ("str", "1")))
        return out

    def t1(t, text_ok):
        k = t[0]
        if k == "if":
            return ("if", xp(t[1], text_ok), ts(t[2], text_ok), ts(t[3], text_ok))
        if k in ("for", "with"):
            return (k, t[1], xp(t[2], text_ok), ts(t[3], text_ok))
        if k == "slot":
            return ("slot", t[1], t[2], t[3] and not sanitize, kwin(t[4]), ts(t[5], text_ok))
        if k == "fill":
            return ("fill", xp(t[1], text_ok), t[2], t[3], ts(t[4], True))
        if k == "comp":
            return ("comp", t[1], kwin(t[2], spread=True), t[3], ts(t[4], not _has_fill(t[4])))
        if k == "provide":
            return ("provide", t[1], kwin(t[2]), ts(t[3], text_ok))
        return t
    q = dict(prog)
    q["page"] = ts(prog["page"], True)
    def data(dl):
        if not sanitize:
            return dl
        return [(x, ("inject", d[1], d[2], "DFx") if d[0] == "inject" and d[3] is None else d) for x, d in dl]
    q["lib"] = [(n, {"tpl": ts(cd["tpl"], True), "data": data(cd["data"])}) for n, cd in prog["lib"]]
    if not any(k_ == "c06sp" for k_, _ in q["ctx"]):
        q["ctx"] = list(q["ctx"]) + [("c06sp", {})]
    return q


def has_drop_with_component(prog):
    src = G.d_tpls(prog["page"]) + "".join(G.d_tpls(cd["tpl"]) for _, cd in prog["lib"])
    return bool(re.search(r"\{% c06drop %\}\{% component", src))


# ------------------------------------------------------------------------------------------------
# Sentinels
# ------------------------------------------------------------------------------------------------
class Sent(str):
    """a str that can be weakly referenced: stands for an object the caller passes into a render"""


class CallVar:
    """a callable context variable: Django calls it whenever a template (or a tag input) resolves the name"""

    def __init__(self, value):
        self.value = value

    def __call__(self):
        TR.point("callable")
        return self.value


def callvar(name, v, acc):
    """every third string variable of the page context (by name) is handed over as a callable"""
    if isinstance(v, str) and sum(map(ord, name)) % 3 == 1:
        c = CallVar(v)
        acc.append(c)
        return c
    return v


def sentinelize(v, acc):
    if isinstance(v, str):
        s = Sent(v)
        acc.append(s)
        return s
    if isinstance(v, list):
        return [sentinelize(x, acc) for x in v]
    if isinstance(v, dict):
        return {k: sentinelize(x, acc) for k, x in v.items()}
    return v


# ------------------------------------------------------------------------------------------------
# Jobs: one way of rendering one program
# ------------------------------------------------------------------------------------------------
class Job:
    """kind 'page': Template(page).render(Context(ctx)); kind 'python': the page's single component through
    Component.render(context, kwargs, slots=functions); kind 'dynamic': page with {% component "dynamic" is=.. %}"""

    def __init__(self, prog, kind):
        self.prog, self.kind = prog, kind
        self.classes = None
        self.cleanup = None
        self.tpl = None

    def __enter__(self):
        import djsetup
        from django.template import Template
        self.cm = djsetup.components_settings(context_behavior=self.prog["mode"])
        self.cm.__enter__()
        self.classes, self.cleanup = R.build(self.prog, dynamic=(self.kind == "dynamic"), hook=TR.comp_hook,
                                             extra_attrs=TR.extra_attrs)
        if self.kind in ("page", "dynamic"):
            self.tpl = Template(G.d_tpls(self.prog["page"], self.kind == "dynamic"))
        else:
            self.app = R.python_variant_applicable(self.prog)
        return self

    def __exit__(self, *a):
        self.cleanup()
        self.cm.__exit__(*a)

    def render(self, ctx, sentinels):
        if self.kind in ("page", "dynamic"):
            return self.tpl.render(ctx)
        cname, kwargs, slots = self.app
        kw = {k: sentinelize(v, sentinels) for k, v in kwargs.items()}

        def mk(v):
            def fn(c, data, ref):
                TR.point("slotfn")
                return v
            sentinels.append(fn)
            return fn
        sl = {k: mk(v) for k, v in slots.items()}
        inst = self.classes[cname]()
        return inst.render(context=ctx, kwargs=kw, slots=sl, render_dependencies=False)


def canon(out):
    return RID_RE.sub("", DJCID_RE.sub("", COMMENT_RE.sub("", out)))


def ctx_fingerprint(ctx):
    """what the caller can see of its Context object: layers (keys per layer) and the render_context depth"""
    return [[sorted(str(k) for k in d.keys()) for d in ctx.dicts], len(ctx.render_context.dicts)]


def run_once(job, target, variant, keep_alloc=False, limit=30.0, again=False, cls="Boom"):
    """one render of `job` with callback invocation `target` raising (None: nobody raises).
    again: afterwards the job is rendered once more, fault-free, with the SAME Context object (tracing off);
    its canonical output is reported as obs['again'].  Returns a dict of observations (JSON-able)."""
    from django.template import Context
    TR.reset(target, variant, keep_alloc=keep_alloc, cls=cls)
    sentinels = []
    ctx = Context({k: callvar(k, sentinelize(v, sentinels), sentinels) for k, v in job.prog["ctx"]})
    d0 = len(ctx.render_context.dicts)
    n0 = len(ctx.dicts)
    fp0 = ctx_fingerprint(ctx)
    obs = {"target": target, "variant": variant, "cls": cls}
    signal.signal(signal.SIGALRM, _alarm)
    signal.setitimer(signal.ITIMER_REAL, limit)
    try:
        try:
            out = job.render(ctx, sentinels)
            obs["res"] = "ok"
            obs["out"] = canon(out)
            del out
        finally:
            signal.setitimer(signal.ITIMER_REAL, 0)
    except RenderTimeout:
        # wall-clock watchdog (loaded machine / a looping program): not a C06 matter, reported as inconclusive
        obs["res"] = "timeout"
    except RecursionError:
        obs["res"] = "other"
        obs["exc"] = "RecursionError"
    except Exception as e:  # noqa
        if TR.raised is not None and e is TR.raised:
            # the user's exception object reached the caller
            obs["res"] = "boom"
            obs["same_object"] = True
            obs["exact_class"] = type(e) is fault_class(cls)
            obs["state_kept"] = getattr(e, "c06_payload", None) == ("payload", target) and \
                (cls != "BoomRich" or (getattr(e, "amount", None) == 42 and getattr(e, "detail", None) == {"why": ["x", 1]}))
            obs["components"] = list(getattr(e, "_components", []) or [])
            obs["args"] = [a if isinstance(a, (str, int, type(None))) else repr(a) for a in e.args]
            obs["nargs"] = len(e.args)
            obs["orig_text"] = TR.raised_text
        else:
            obs["res"] = "other"
            obs["exc"] = "%s.%s" % (type(e).__module__, type(e).__name__)
            obs["msg"] = str(e)[:300]
            obs["components"] = list(getattr(e, "_components", []) or [])
    obs["npoints"] = TR.count
    obs["fired"] = TR.raised is not None
    obs["rc"] = len(ctx.render_context.dicts) - d0
    obs["cd"] = len(ctx.dicts) - n0
    fp1 = ctx_fingerprint(ctx)
    obs["ctx_same"] = fp1 == fp0
    if fp1 != fp0:
        obs["ctx_before"], obs["ctx_after"] = fp0, fp1
    obs["meta"] = sorted(rid for rid, inst in TR.instances if len(inst._metadata_stack))
    obs["events"] = TR.events
    obs["alloc"] = list(TR.alloc)
    TR.instances = []
    TR.raised = None
    TR.events = []
    obs["tables"] = table_keys()
    if again and obs["res"] != "timeout":
        # a later render with the very same Context object
        saved = (TR.target, TR.count, list(TR.alloc))
        TR.target = None
        TR.enabled = False
        signal.setitimer(signal.ITIMER_REAL, limit)
        try:
            try:
                obs["again"] = canon(job.render(ctx, sentinels))
            finally:
                signal.setitimer(signal.ITIMER_REAL, 0)
        except RenderTimeout:
            obs["again"] = None
        except Exception as e:  # noqa
            obs["again"] = "ERR:" + type(e).__name__
        TR.enabled = True
        TR.events = []
        TR.instances = []
        TR.target, TR.count, TR.alloc = saved
        obs["tables_after_again"] = table_keys()
        obs["ctx_same_after_again"] = ctx_fingerprint(ctx) == fp0
    wr = [weakref.ref(s) for s in sentinels]
    obs["nsent"] = len(wr)
    del sentinels, ctx
    alive = sum(1 for w in wr if w() is not None)
    if alive:
        gc.collect(1)      # the render's objects are young: a young-generation pass usually suffices
        alive = sum(1 for w in wr if w() is not None)
        if alive:
            gc.collect()
            alive = sum(1 for w in wr if w() is not None)
    obs["alive"] = alive
    return obs


# ------------------------------------------------------------------------------------------------
# Render tree from a fault-free trace
# ------------------------------------------------------------------------------------------------
class TraceError(Exception):
    pass


class Labels:
    def __init__(self):
        self.ix = {}

    def name(self, s):
        return "LName %s" % C.cN(self._i("n:" + s))

    def slot(self, s):
        return "LSlot %s" % C.cN(self._i("s:" + s))

    def slot_ix(self, s):
        return self._i("s:" + s)

    def name_ix(self, s):
        return self._i("n:" + s)

    def _i(self, k):
        if k not in self.ix:
            self.ix[k] = len(self.ix)
        return self.ix[k]

    def lbl(self, s):
        """label of one element of err._components"""
        return self.slot(s) if "(slot:" in s else self.name(s)


class TreeBuilder:
    """items := list of
         ("point",) | ("slot", label_ix, items) | ("provide", items) | ("drop", items)
         | ("comp", isroot, node)   node = dict(rid, name, np, vis, mask, up, rootel, body)"""

    def __init__(self, events, labels):
        self.ev = events
        self.pos = 0
        self.labels = labels

    def peek(self):
        return self.ev[self.pos] if self.pos < len(self.ev) else ("EOF",)

    def take(self, kind):
        e = self.peek()
        if e[0] != kind:
            raise TraceError("expected %s at %d, got %r" % (kind, self.pos, e))
        self.pos += 1
        return e

    def top(self):
        items, pending = self.body(lambda e: e[0] == "EOF", [], [], False)
        if pending:
            raise TraceError("nested component at page level")
        return items

    def body(self, stop, avail, anc, dropped):
        items, pending = [], []
        while True:
            e = self.peek()
            if stop(e):
                return items, pending
            k = e[0]
            if k == "EOF":
                raise TraceError("unexpected end of trace")
            if k == "P":
                if e[1] not in ("tag", "filter", "slotfn", "callable"):
                    raise TraceError("component hook %r outside its place at %d" % (e, self.pos))
                self.pos += 1
                items.append(("point",))
            elif k == "S+":
                self.pos += 1
                b, p = self.body(lambda x: x[0] == "S-", avail, anc, dropped)
                self.take("S-")
                items.append(("slot", self.labels.slot_ix(e[1]), b))
                pending.extend(p)
            elif k == "V+":
                self.pos += 1
                b, p = self.body(lambda x: x[0] == "V-" and x[1] == e[1], avail + [e[1]], anc, dropped)
                self.take("V-")
                items.append(("provide", b))
                pending.extend(p)
            elif k == "X+":
                self.pos += 1
                b, p = self.body(lambda x: x[0] == "X-", avail, anc, dropped)
                self.take("X-")
                items.append(("extract", b))
                pending.extend(p)
            elif k == "D+":
                self.pos += 1
                b, p = self.body(lambda x: x[0] == "D-", avail, anc, True)
                self.take("D-")
                items.append(("drop", b))
            elif k == "C":
                self.pos += 1
                _, rid, name, parent, vis = e
                np_ = 0
                while self.peek()[0] == "P" and self.peek()[1] in ("gcd", "inject") and self.peek()[2] == rid:
                    np_ += 1
                    self.pos += 1
                if not set(vis) <= set(avail):
                    raise TraceError("component %s sees provides %r outside %r" % (rid, vis, avail))
                node = {"rid": rid, "name": name, "np": np_, "vis": [a for a in avail if a in vis],
                        "mask": [a in vis for a in avail], "up": 0, "rootel": False, "body": []}
                if parent is None or not anc:
                    if parent is not None:
                        raise TraceError("page-level component %s has parent %s" % (rid, parent))
                    self.deferred(node, [])
                    items.append(("comp", True, node))
                else:
                    if parent not in anc:
                        raise TraceError("parent %s of %s is not on the host chain %r" % (parent, rid, anc))
                    node["up"] = anc.index(parent)
                    items.append(("comp", False, node))
                    if not dropped:
                        pending.append(node)
            else:
                raise TraceError("unexpected event %r at %d" % (e, self.pos))

    def deferred(self, node, anc):
        rid = node["rid"]
        b = self.take("B")
        if b[1] != rid:
            raise TraceError("renderer of %s expected at %d, got %r" % (rid, self.pos - 1, b))
        p = self.take("P")
        if p[1] != "before":
            raise TraceError("on_render_before expected, got %r" % (p,))
        items, pending = self.body(lambda x: x[0] == "E" and x[1] == rid, node["vis"], [rid] + anc, False)
        e = self.take("E")
        for ch in pending:
            ch["rootel"] = ch["rid"] in e[2]
        node["body"] = items
        for ch in pending:
            self.deferred(ch, [rid] + anc)
        a = self.take("A")
        if a[1] != rid:
            raise TraceError("closing item of %s expected, got %r" % (rid, a))
        p = self.take("P")
        if p[1] != "after":
            raise TraceError("on_render_after expected, got %r" % (p,))


def c_items(items, labels):
    out = "INil"
    for it in reversed(items):
        out = "ICons (%s) (%s)" % (c_item(it, labels), out)
    return out


def c_item(it, labels):
    k = it[0]
    if k == "point":
        return "IPoint"
    if k == "slot":
        return "ISlot %s (%s)" % (C.cN(it[1]), c_items(it[2], labels))
    if k == "provide":
        return "IProvide (%s)" % c_items(it[1], labels)
    if k == "drop":
        return "IDrop (%s)" % c_items(it[1], labels)
    if k == "extract":
        return "IExtract (%s)" % c_items(it[1], labels)
    _, isroot, n = it
    return "IComp %s %s %s %s (Comp %s %s (%s))" % (
        C.cbool(isroot), C.cbool(n["rootel"]), C.cnat(n["up"]), C.clist([C.cbool(b) for b in n["mask"]]),
        C.cN(labels.name_ix(n["name"])), C.cnat(n["np"]), c_items(n["body"], labels))


def tree_size(items):
    n = 0
    for it in items:
        n += 1
        if it[0] in ("slot",):
            n += tree_size(it[2])
        elif it[0] in ("provide", "drop", "extract"):
            n += tree_size(it[1])
        elif it[0] == "comp":
            n += tree_size(it[2]["body"])
    return n


def tree_features(items, depth=0, acc=None):
    acc = acc if acc is not None else {"comps": 0, "nested": 0, "inline_roots": 0, "provides": 0, "slots": 0,
                                       "drops": 0, "points": 0, "maxdepth": 0, "rootel": 0, "vis": 0}
    for it in items:
        k = it[0]
        if k == "point":
            acc["points"] += 1
        elif k == "slot":
            acc["slots"] += 1
            tree_features(it[2], depth, acc)
        elif k == "provide":
            acc["provides"] += 1
            tree_features(it[1], depth, acc)
        elif k == "drop":
            acc["drops"] += 1
            tree_features(it[1], depth, acc)
        elif k == "extract":
            acc["extract_points"] = acc.get("extract_points", 0) + sum(1 for x in it[1] if x[0] == "point")
            tree_features(it[1], depth, acc)
        else:
            acc["comps"] += 1
            n = it[2]
            if not it[1]:
                acc["nested"] += 1
            elif depth > 0:
                acc["inline_roots"] += 1
            if n["rootel"]:
                acc["rootel"] += 1
            if n["vis"]:
                acc["vis"] += 1
            acc["maxdepth"] = max(acc["maxdepth"], depth + 1)
            tree_features(n["body"], depth + 1, acc)
    return acc


# ------------------------------------------------------------------------------------------------
# Observation -> Coq term
# ------------------------------------------------------------------------------------------------
def umsg_lines(variant, cls="Boom"):
    exc = fault_class(cls)(*ARG_VARIANTS[variant])
    return original_text(exc).split("\n")


def c_umsg(variant, cls="Boom"):
    return C.clist(["MUser %s" % C.cN(i) for i in range(len(umsg_lines(variant, cls)))])


def c_msg(obs, labels):
    """the observed message as model lines"""
    orig = obs["orig_text"].split("\n")

    def user(line):
        return "MUser %s" % C.cN(orig.index(line) if line in orig else 99)
    if obs["nargs"] == 1 and isinstance(obs["args"][0], str) and obs["args"][0].startswith(PREFIX):
        lines = obs["args"][0].split("\n")
        head = lines[0][len(PREFIX):]
        if head.endswith(":"):
            head = head[:-1]
        comps = [x for x in head.split(" > ")] if head else []
        return C.clist(["MPrefix %s" % C.clist([labels.lbl(x) for x in comps])] + [user(x) for x in lines[1:]])
    # untouched: the lines of the original text
    txt = obs["orig_text"] if obs["nargs"] != 1 or not isinstance(obs["args"][0], str) else obs["args"][0]
    return C.clist([user(x) for x in txt.split("\n")])


def c_obs(obs, labels, alloc=None):
    alloc = alloc if alloc is not None else obs["alloc"]
    rank = {rid: i for i, rid in enumerate(alloc)}

    def ids(l):
        return C.clist([C.cN(rank.get(x, 9000 + i)) for i, x in enumerate(l)])
    if obs["res"] == "ok":
        out = "BOk"
    elif obs["res"] == "boom":
        out = "BUser %s %s" % (C.clist([labels.lbl(x) for x in obs["components"]]), c_msg(obs, labels))
    else:
        out = "BOther"
    t = obs["tables"]
    return "(mkObs (%s) %s %s %s %s %s %s %s %s %s)" % (out, ids(t[0]), ids(t[1]), ids(t[2]), ids(t[3]), ids(t[4]), ids(t[5]),
                                                      ids(obs["meta"]), C.cnat(max(0, obs["rc"])), C.cnat(max(0, obs.get("cd", 0))))


def c_fault(target):
    return "None" if target is None else "(Some %s)" % C.cnat(target)


# ------------------------------------------------------------------------------------------------
# Direct property oracle on one observation
# ------------------------------------------------------------------------------------------------
def oracle(obs):
    """list of (what, detail) for every clause of the property that fails on this observation"""
    bad = []
    if obs["res"] == "timeout":
        return bad
    if any(obs["tables"]):
        bad.append(("residue", {n: k for n, k in zip(TABLE_NAMES, obs["tables"]) if k}))
    if obs["meta"] or obs["rc"] != 0:
        bad.append(("stacks", {"_metadata_stack not empty for": obs["meta"], "render_context growth": obs["rc"]}))
    if not obs.get("ctx_same", True):
        bad.append(("caller-context", {"before": obs.get("ctx_before"), "after": obs.get("ctx_after")}))
    if "tables_after_again" in obs and (any(obs["tables_after_again"]) and not any(obs["tables"])):
        bad.append(("residue", {"after the later render with the same Context": obs["tables_after_again"]}))
    if obs["alive"]:
        bad.append(("sentinel-alive", {"alive": obs["alive"], "of": obs["nsent"]}))
    if obs["res"] == "boom":
        if not (obs["same_object"] and obs["exact_class"] and obs.get("state_kept", True)):
            bad.append(("exception-replaced", {"same_object": obs["same_object"], "exact_class": obs["exact_class"],
                                               "attributes_kept": obs.get("state_kept")}))
        comps = obs["components"]
        if comps:
            exp = [PREFIX + " > ".join(comps) + ":\n" + obs["orig_text"]]
        else:
            exp = [a if isinstance(a, (str, int, type(None))) else repr(a) for a in ARG_VARIANTS[obs["variant"]]]
        if obs["args"] != exp:
            bad.append(("message", {"args": obs["args"], "expected": exp}))
    elif obs["res"] == "other" and obs["fired"]:
        bad.append(("exception-replaced", {"user code raised": obs.get("cls"), "caller got": obs.get("exc"), "msg": obs.get("msg")}))
    return bad


def strip_obs(obs):
    """observation without the bulky trace (for replay files)"""
    return {k: v for k, v in obs.items() if k not in ("events",)}
