"""coq/Gen/C01M.v: the internal Context keys of /repo's django_components, read from the source on every run and
anchored against the model's constants in Props/C01M.v (a renamed key breaks a proof obligation)."""
import common as C
from gen_constants import generator


@generator
def gen_C01M():
    from django_components.context import _COMPONENT_CONTEXT_KEY, _INJECT_CONTEXT_KEY_PREFIX
    from django_components.slots import DEFAULT_SLOT_KEY, FILL_GEN_CONTEXT_KEY
    return ("Definition component_context_key : str := %s.\n"
            "Definition inject_key_prefix : str := %s.\n"
            "Definition fill_gen_key : str := %s.\n"
            "Definition default_slot_key : str := %s.\n") % (
        C.cstr(_COMPONENT_CONTEXT_KEY), C.cstr(_INJECT_CONTEXT_KEY_PREFIX), C.cstr(FILL_GEN_CONTEXT_KEY), C.cstr(DEFAULT_SLOT_KEY))
