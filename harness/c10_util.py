"""C10 helpers: generators of stock templates / families, family <-> flattened programs, and the worker
processes that run the implementation.

Workers (run as `python c10_util.py <mode> <in.json> <out.json>`; one process per configuration, because
django_components.apps.ready() patches django.template.base.Template and replaces django.template.base.tag_re
process-wide):
  stock-patched  django_components installed (COMPONENTS.multiline_tags given); the ORIGINAL Template.compile_nodelist /
                 Template.render are saved BEFORE django.setup() and swapped back in for the "stock" side
  stock-pure     django_components never imported (INSTALLED_APPS = ()); tag_re recompiled with DOTALL on request
  comp           component programs: family program vs flattened program
"""
import json
import os
import re
import sys

# =================================================================================================
# quote balance (the premise of C10a), mirrors Lexer/Model.v qstep/qrun and Stock/Model.v balancedb
# =================================================================================================


def balanced(contents):
    st = None          # None = outside strings, (q, esc) inside
    for c in contents:
        if st is None:
            if c in "'\"":
                st = (c, False)
        else:
            q, esc = st
            if esc:
                st = (q, False)
            elif c == q:
                st = None
            elif c == "\\":
                st = (q, True)
    return st is None


# =================================================================================================
# custom tag library used by generated stock templates ({% load c10tags %})
# =================================================================================================
try:
    from django import template as _dt
    register = _dt.Library()

    @register.simple_tag
    def c10join(*args, **kwargs):
        return "<%s|%s>" % (",".join(str(a) for a in args), ",".join("%s=%s" % kv for kv in sorted(kwargs.items())))

    @register.simple_tag(takes_context=True)
    def c10ctx(context, key):
        return "{%s}" % context.get(key, "-")

    class _UpperNode(_dt.Node):
        def __init__(self, nodelist, arg):
            self.nodelist, self.arg = nodelist, arg

        def render(self, context):
            with context.push(c10inner=self.arg.resolve(context) if self.arg is not None else ""):
                return "^" + self.nodelist.render(context).upper() + "$"

    @register.tag
    def c10upper(parser, token):
        bits = token.split_contents()
        arg = parser.compile_filter(bits[1]) if len(bits) > 1 else None
        nodelist = parser.parse(("endc10upper",))
        parser.delete_first_token()
        return _UpperNode(nodelist, arg)

    @register.filter
    def c10wrap(value, arg="*"):
        return "%s%s%s" % (arg, value, arg)

    @register.simple_tag
    def c10boom(msg="boom"):
        raise ValueError(msg)
except Exception:  # pragma: no cover  (django missing: generators still usable)
    register = None


# =================================================================================================
# G2: rich stock template families (sources only)
# =================================================================================================
CTX_POOL = {
    "x": "<b>x&y</b>", "y": 7, "z": "", "name": "Ann", "items": ["a", "<i>", "c"], "empty": [], "pairs": [[1, "p"], [2, "q"]],
    "d": {"k": "dv", "n": 3}, "flag": True, "off": False, "none": None, "safe": {"__safe__": "<u>s</u>"},
    "quote": "it's \"q\"", "pct": "50%}", "tpl": "c10/inc0.html", "num": 41,
}

QUOTED_ARGS = ['"a b"', "'c d'", '"it\'s"', "'say \\'hi\\''", '"x\\"y"', '"%"', "'}}'", '"{{"', '"{# #}"', '" "', '""', "'% }'",
               '"a\nb"', "'{%'", '"<&>"']
# arguments that contain a percent-brace inside quotes / unbalanced quotes: OUTSIDE the premise of C10a
UNPREMISED_ARGS = ['"a %} b"', "'%}'", '"open', "'x", '"a\\"', "it's"]


class StockGen:
    def __init__(self, rng, multiline=False, errors=0.15, unpremised=0.06):
        self.r = rng
        self.multiline = multiline
        self.p_err = errors
        self.p_unprem = unpremised
        self.templates = {}
        self.n = 0
        self.features = set()
        self.allow_super = False

    def ws(self):
        if self.multiline and self.r.random() < 0.5:
            self.features.add("multiline-tag")
            return self.r.choice(["\n", "\n  ", " \n"])
        return " "

    def tag(self, inner):
        w1, w2 = self.ws(), self.ws()
        return "{%" + w1 + inner.replace(" ", self.r.choice([" ", " ", w1]), 1) + w2 + "%}"

    def qarg(self, in_var=False):
        if self.r.random() < self.p_unprem:
            self.features.add("unpremised-quote")
            return self.r.choice(UNPREMISED_ARGS)
        self.features.add("quoted-arg")
        while True:
            a = self.r.choice(QUOTED_ARGS)
            if not (in_var and "}}" in a):
                return a

    def var(self):
        return self.r.choice(["x", "y", "z", "name", "d.k", "d.n", "items.0", "none", "safe", "quote", "pct", "num", "missing", "flag"])

    def expr(self, in_var=False):
        r = self.r
        v = self.var()
        c = r.random()
        if c < 0.35:
            return v
        if c < 0.5:
            return v + "|" + r.choice(["upper", "lower", "length", "safe", "escape", "title", "capfirst", "default_if_none:'n'"])
        if c < 0.7:
            return v + "|default:" + self.qarg(in_var)
        if c < 0.8:
            return v + "|add:" + r.choice(["1", "y", '"s"'])
        if c < 0.9:
            return v + "|c10wrap:" + self.qarg(in_var)
        return self.qarg(in_var)

    def cond(self):
        r = self.r
        c = r.random()
        if c < 0.3:
            return self.var()
        if c < 0.5:
            return "%s == %s" % (self.var(), self.qarg())
        if c < 0.65:
            return "%s and not %s" % (self.var(), self.var())
        if c < 0.8:
            return "%s in items" % self.qarg()
        if c < 0.9:
            return "y > %d or %s" % (r.randrange(10), self.var())
        return "%s|length >= 2" % self.var()

    def text(self):
        c = self.r.random()
        if c < 0.08:
            return self.r.choice(["{", "{ %", "{{", "{#", "{%"])          # openers as text: they can swallow what follows
        if c < 0.5:
            return self.r.choice(["T", "<p>", " ", "\n", "a&b", "%", "}", "% }", "'", '"', "line\n", "x%}y", "é", ".", "#}", "}}", "%}"])
        return "t%d" % self.r.randrange(100)

    def nodes(self, depth, in_for=False, blocks=None, in_block=False):
        out = []
        for _ in range(self.r.randint(1, 4)):
            out.append(self.node(depth, in_for, blocks, in_block))
        return "".join(out)

    def node(self, depth, in_for, blocks, in_block):
        r = self.r
        kinds = ["text", "text", "var", "var", "comment", "firstof", "custom"]
        if depth > 0:
            kinds += ["if", "for", "with", "filter", "autoescape", "include", "upper", "spaceless", "verbatim", "ifchanged"]
            if blocks is not None:
                kinds += ["block", "block"]
        if in_for:
            kinds += ["cycle", "forloop"]
        if in_block and self.allow_super:
            kinds += ["super"]
        if r.random() < self.p_err:
            kinds = ["error"]
        k = r.choice(kinds)
        self.features.add(k)
        d = depth - 1
        if k == "text":
            return self.text()
        if k == "var":
            return "{{ %s }}" % self.expr(True)
        if k == "comment":
            return r.choice(["{# c #}", "{# {% if %} #}", self.tag("comment") + "x{{ y }}" + self.tag("endcomment")])
        if k == "firstof":
            return self.tag("firstof %s %s %s" % (self.var(), self.var(), self.qarg()))
        if k == "custom":
            c = r.random()
            if c < 0.4:
                return self.tag("c10join %s %s k=%s" % (self.expr(), self.qarg(), self.var()))
            if c < 0.7:
                return self.tag('c10ctx "%s"' % r.choice(["x", "c10inner", "w1", "y"]))
            return self.tag("c10join")
        if k == "if":
            s = self.tag("if " + self.cond()) + self.nodes(d, in_for, blocks, in_block)
            if r.random() < 0.3:
                s += self.tag("elif " + self.cond()) + self.nodes(d, in_for, blocks, in_block)
            if r.random() < 0.5:
                s += self.tag("else") + self.nodes(d, in_for, blocks, in_block)
            return s + self.tag("endif")
        if k == "for":
            head = r.choice(["for i in items", "for i in items reversed", "for a, b in pairs", "for i in empty", "for k, v in d.items", "for i in missing"])
            s = self.tag(head) + self.nodes(d, True, blocks, in_block)
            if r.random() < 0.4:
                s += self.tag("empty") + self.nodes(d, in_for, blocks, in_block)
            return s + self.tag("endfor")
        if k == "with":
            head = r.choice(["with w1=%s" % self.expr(), "with w1=%s w2=%s" % (self.expr(), self.qarg()), "with %s as w1" % self.var()])
            return self.tag(head) + self.nodes(d, in_for, blocks, in_block) + "{{ w1 }}" + self.tag("endwith")
        if k == "filter":
            f = r.choice(["upper", "lower|capfirst", "force_escape", "c10wrap:" + self.qarg(), "cut:" + self.qarg()])
            return self.tag("filter " + f) + self.nodes(d, in_for, blocks, in_block) + self.tag("endfilter")
        if k == "autoescape":
            return self.tag("autoescape " + r.choice(["on", "off"])) + self.nodes(d, in_for, blocks, in_block) + self.tag("endautoescape")
        if k == "upper":
            return self.tag("c10upper " + self.expr()) + self.nodes(d, in_for, blocks, in_block) + "{{ c10inner }}" + self.tag("endc10upper")
        if k == "spaceless":
            return self.tag("spaceless") + "<p> " + self.nodes(d, in_for, blocks, in_block) + " </p> <b> </b>" + self.tag("endspaceless")
        if k == "verbatim":
            nm = r.choice(["", " vb", ' "q"'])
            return self.tag("verbatim" + nm) + r.choice(["{{ x }}", "{% if %}", "{% endverbatim %}" if nm else "raw"]) + self.tag("endverbatim" + nm)
        if k == "ifchanged":
            return self.tag("ifchanged") + "{{ y }}" + self.tag("endifchanged")
        if k == "cycle":
            return r.choice([self.tag("cycle 'a' 'b' %s" % self.qarg()), self.tag('cycle "r1" "r2" as cyc silent') + "{{ cyc }}",
                             self.tag("cycle 'x' 'y' as c2") + self.tag("resetcycle c2")])
        if k == "forloop":
            return "{{ forloop.%s }}" % r.choice(["counter", "counter0", "first", "last", "revcounter", "parentloop.counter"])
        if k == "super":
            return "{{ block.super }}"
        if k == "block":
            free = [b for b in ["main", "side", "foot", "head", "extra"] if b not in blocks]
            if not free:
                return self.text()
            nm = r.choice(free)
            blocks.append(nm)
            end = r.choice(["endblock", "endblock " + nm])
            return self.tag("block " + nm) + self.nodes(d, in_for, blocks, True) + self.tag(end)
        if k == "include":
            name = self.new_template(d, family=r.random() < 0.3)
            extra = r.choice(["", "", " with w1=%s" % self.expr(), " with w1=%s only" % self.qarg(), " only"])
            tgt = '"%s"' % name if r.random() < 0.8 else r.choice(["tpl", "'%s'" % name])
            return self.tag("include %s%s" % (tgt, extra))
        # error sources: syntax errors, unknown tags/filters, runtime errors
        self.features.add("error")
        return r.choice([
            self.tag("nosuchtag %s" % self.qarg()), self.tag("if x") + "unclosed", self.tag("endif"), "{{ x|nosuchfilter }}",
            "{{ x|default }}", self.tag('include "c10/missing.html"'), self.tag("for a, b in items") + "{{ a }}" + self.tag("endfor"),
            self.tag("c10boom %s" % self.qarg()), self.tag("block main") + self.tag("endblock") + self.tag("block main") + self.tag("endblock"),
            "{{ }}", self.tag("with") + self.tag("endwith"), "{{ x|add:nosuch|c10wrap:1:2 }}", self.tag("extends 'c10/missing.html'"),
            "{{ block.super }}", self.tag("cycle"), self.tag("firstof"), self.tag("load nosuchlib"), self.tag("include"),
            self.tag("widthratio y 0 100"), "{% if x %}\n\n{% else %}\n{% elif %}{% endif %}", self.tag("if x ==") + self.tag("endif"),
        ])

    def new_template(self, depth, family=False):
        """add one template (or a family) to self.templates; returns the name to load"""
        self.n += 1
        name = "c10/t%d.html" % self.n
        if not family or depth <= 0:
            blocks = [] if self.r.random() < 0.5 else None
            saved, self.allow_super = self.allow_super, self.r.random() < 0.03
            self.templates[name] = self.nodes(depth, False, blocks)
            self.allow_super = saved
            return name
        self.features.add("family")
        saved, self.allow_super = self.allow_super, True
        # root with blocks, then 1..2 children overriding a subset
        blocks = []
        root = self.nodes(depth, False, blocks)
        for b in ["main", "side"]:
            if b not in blocks and self.r.random() < 0.7:
                blocks.append(b)
                root += self.tag("block " + b) + self.nodes(depth - 1, False, None, True) + self.tag("endblock")
        self.templates[name] = root
        parent = name
        for lvl in range(self.r.randint(1, 2)):
            self.n += 1
            cname = "c10/t%d.html" % self.n
            if self.r.random() < 0.85 or getattr(self, "parent_var", None):
                src = self.tag('extends "%s"' % parent)
            else:
                src = self.tag("extends parent_name")
                self.features.add("extends-var")
                self.parent_var = parent
            if self.r.random() < 0.3:
                src = self.tag("load c10tags") + src if self.r.random() < 0.1 else src + self.tag("load c10tags")
            for b in blocks + ["newblock"]:
                if self.r.random() < 0.6:
                    src += self.r.choice(["", "ignored ", "\n"]) + self.tag("block " + b) + self.nodes(depth - 1, False, None, True)
                    if self.r.random() < 0.4:
                        src += "{{ block.super }}"
                        self.features.add("super")
                    src += self.tag("endblock")
            self.templates[cname] = src
            parent = cname
        self.allow_super = saved
        return parent

    def case(self):
        main = self.new_template(self.r.randint(1, 3), family=self.r.random() < 0.6)
        self.templates.setdefault("c10/inc0.html", "[inc0 {{ w1 }}{{ x }}]")
        ctx = {k: v for k, v in CTX_POOL.items() if self.r.random() < 0.85}
        if getattr(self, "parent_var", None):
            ctx["parent_name"] = self.parent_var
        return {"templates": self.templates, "main": main, "ctx": ctx, "features": sorted(self.features)}


# =================================================================================================
# G1: abstract families (the node type of Stock/Model.v) - printed as Django templates and as Coq terms
# =================================================================================================
# node: ("leaf", id) | ("wrap", id, body) | ("block", name_id, body) | ("super",)
G1_TEXTS = ["a", "b", "c", "d", "e", "f", "g", "h", "-", "|"]
G1_NAMES = ["bx", "by", "bz"]


def g1_nodes(r, depth, used, in_block, allow_super=True):
    out = []
    for _ in range(r.randint(0, 3) if depth < 2 else r.randint(1, 3)):
        c = r.random()
        if c < 0.4 or depth <= 0:
            out.append(("leaf", r.randrange(len(G1_TEXTS))))
        elif c < 0.55:
            out.append(("wrap", r.randrange(8), g1_nodes(r, depth - 1, used, in_block, allow_super)))
        elif c < 0.85:
            free = [i for i in range(len(G1_NAMES)) if i not in used]
            if free:
                nm = r.choice(free)
                used.add(nm)
                out.append(("block", nm, g1_nodes(r, depth - 1, used, True, allow_super)))
        elif allow_super and (in_block or r.random() < 0.2):
            out.append(("super",))
    return out


def g1_family(r):
    nchain = r.choice([0, 1, 1, 1, 2, 2, 3])
    root = g1_nodes(r, 3, set(), False, allow_super=nchain > 0)
    chain = [g1_nodes(r, 3, set(), False) for _ in range(nchain)]
    return {"chain": chain, "root": root}


def g1_lists(n, depth, used, in_block):
    """all node lists with exactly n nodes (leaf 0, block.super, wrap 2, blocks 0/1 with unique names), nesting <= depth"""
    if n == 0:
        yield [], used
        return
    for k in range(1, n + 1):
        for first, used1 in g1_node(k, depth, used, in_block):
            for rest, used2 in g1_lists(n - k, depth, used1, in_block):
                yield [first] + rest, used2


def g1_node(k, depth, used, in_block):
    if k == 1:
        yield ("leaf", 0), used
        yield ("super",), used
    if depth > 0:
        for body, used1 in g1_lists(k - 1, depth - 1, used, in_block):
            yield ("wrap", 2, body), used1
        for nm in (0, 1):
            if nm not in used:
                for body, used1 in g1_lists(k - 1, depth - 1, used | {nm}, True):
                    yield ("block", nm, body), used1


def g1_templates_upto(maxn, depth=2):
    return [l for n in range(0, maxn + 1) for l, _ in g1_lists(n, depth, frozenset(), False)]


def g1_exhaustive(thorough):
    """every family root x child (and, thorough, root x mid x leaf) over the small templates"""
    t1, t2, t3 = g1_templates_upto(1), g1_templates_upto(2), g1_templates_upto(3)
    fams = [{"chain": [c], "root": r} for r in (t3 if thorough else t2) for c in t2]
    if thorough:
        fams += [{"chain": [leaf, mid], "root": r} for r in t2 for mid in t1 for leaf in t2]
    return fams


def g1_src(nodes):
    out = []
    for n in nodes:
        if n[0] == "leaf":
            out.append(G1_TEXTS[n[1]])
        elif n[0] == "wrap":
            out.append("{%% for _ in r%d %%}%s{%% endfor %%}" % (n[1] % 4, g1_src(n[2])))
        elif n[0] == "block":
            out.append("{%% block %s %%}%s{%% endblock %%}" % (G1_NAMES[n[1]], g1_src(n[2])))
        else:
            out.append("{{ block.super }}")
    return "".join(out)


def g1_templates(fam, prefix):
    """family -> ({name: source}, name of the leaf template).  chain is leaf first."""
    tpls = {}
    levels = list(reversed(fam["chain"]))     # root's child first
    parent = prefix + "_root.html"
    tpls[parent] = g1_src(fam["root"])
    for i, t in enumerate(levels):
        name = prefix + "_l%d.html" % i
        tpls[name] = '{%% extends "%s" %%}%s' % (parent, g1_src(t))
        parent = name
    return tpls, parent


def g1_flatten(fam):
    """Python mirror of Stock/Model.v fl (used to print the flattened template; compared with Coq's flatten)."""
    bc = {}
    for t in fam["chain"] + [fam["root"]]:
        for name, body in g1_blocks_of(t):
            bc.setdefault(name, []).append(body)      # our orientation: head = most derived

    def fl(bc, cur, ns):
        out = []
        for n in ns:
            if n[0] == "leaf":
                out.append(n)
            elif n[0] == "wrap":
                out.append(("wrap", n[1], fl(bc, cur, n[2])))
            elif n[0] == "block":
                q = bc.get(n[1], [])
                if not q:
                    out.extend(fl(bc, n[1], n[2]))
                else:
                    out.extend(fl({**bc, n[1]: q[1:]}, n[1], q[0]))
            else:
                if cur is not None and bc.get(cur):
                    q = bc[cur]
                    out.extend(fl({**bc, cur: q[1:]}, cur, q[0]))
        return out
    return fl(bc, None, fam["root"])


def g1_blocks_of(ns):
    out = []
    for n in ns:
        if n[0] == "block":
            out.append((n[1], n[2]))
            out.extend(g1_blocks_of(n[2]))
        elif n[0] == "wrap":
            out.extend(g1_blocks_of(n[2]))
    return out


def c_nodes(ns):
    return "[" + "; ".join(c_node(n) for n in ns) + "]"


def c_node(n):
    if n[0] == "leaf":
        return "Leaf %d%%N" % n[1]
    if n[0] == "wrap":
        return "Wrap %d%%N %s" % (n[1], c_nodes(n[2]))
    if n[0] == "block":
        return "Block %d%%N %s" % (n[1], c_nodes(n[2]))
    return "Super"


def c_fnodes(ns):
    return "[" + "; ".join(("FLeaf %d%%N" % n[1]) if n[0] == "leaf" else "FWrap %d%%N %s" % (n[1], c_fnodes(n[2])) for n in ns) + "]"


def c_family(fam):
    return "{| f_chain := [%s]; f_root := %s |}" % ("; ".join(c_nodes(t) for t in fam["chain"]), c_nodes(fam["root"]))


# =================================================================================================
# worker A: stock templates, patched vs original
# =================================================================================================
def _canon_val(v):
    from django.utils.safestring import SafeData
    if isinstance(v, SafeData):
        return "safe:" + str(v)
    if isinstance(v, (str, int, float, bool, type(None))):
        return repr(v)
    if isinstance(v, (list, tuple)):
        return "[" + ",".join(_canon_val(x) for x in v) + "]"
    if isinstance(v, dict):
        return "{" + ",".join("%s:%s" % (k if isinstance(k, str) else type(k).__name__, _canon_val(x)) for k, x in v.items()) + "}"
    return "<%s>" % type(v).__name__


def _mk_ctx_value(v):
    from django.utils.safestring import mark_safe
    if isinstance(v, dict) and "__safe__" in v:
        return mark_safe(v["__safe__"])
    return v


def _tok_obs(toks):
    return [[t.token_type.value, t.contents, t.lineno, list(t.position) if t.position is not None else None] for t in toks]


def _exc_obs(e):
    td = getattr(e, "template_debug", None)
    o = {"type": type(e).__name__, "msg": str(e)[:400]}
    if td is not None:
        o["debug"] = {k: (td.get(k) if not isinstance(td.get(k), (list, tuple)) else len(td.get(k)))
                      for k in ("message", "line", "start", "end", "before", "during", "after", "name", "total", "top", "bottom")}
    tok = getattr(e, "token", None)
    if tok is not None:
        o["token"] = [tok.token_type.value, tok.contents, tok.lineno]
    chain = getattr(e, "chain", None)
    if chain:
        o["chain"] = len(chain)
    return o


def _render_obs(engine, case, Context):
    """compile + render main twice with the same Context object; everything observable afterwards"""
    o = {}
    try:
        t = engine.get_template(case["main"])
    except Exception as e:  # noqa
        o["compile"] = _exc_obs(e)
        return o
    o["compile"] = "ok"
    o["extra_data"] = sorted(getattr(t, "extra_data", {"<missing>": 1}).keys())
    ctx = Context({k: _mk_ctx_value(v) for k, v in case["ctx"].items()})
    for i in (1, 2):
        try:
            o["render%d" % i] = t.render(ctx)
        except Exception as e:  # noqa
            o["render%d" % i] = _exc_obs(e)
        o["dicts%d" % i] = [_canon_val(d) for d in ctx.dicts]
        o["rc%d" % i] = [sorted((k if isinstance(k, str) else type(k).__name__) for k in d) for d in ctx.render_context.dicts]
        o["rc_template%d" % i] = repr(getattr(ctx.render_context, "template", None))
        o["ctx_template%d" % i] = repr(ctx.template)
    for name in case.get("also", ()):
        try:
            o.setdefault("also", {})[name] = engine.get_template(name).render(Context({k: _mk_ctx_value(v) for k, v in case["ctx"].items()}))
        except Exception as e:  # noqa
            o.setdefault("also", {})[name] = _exc_obs(e)
    # a second, direct construction path: Template(source, engine=...) rendered with a fresh Context
    try:
        from django.template import Template
        t2 = Template(case["templates"][case["main"]], engine=engine)
        o["direct"] = t2.render(Context({k: _mk_ctx_value(v) for k, v in case["ctx"].items()}, autoescape=False))
    except Exception as e:  # noqa
        o["direct"] = _exc_obs(e)
    return o


def worker_stock(mode, spec):
    import django
    from django.conf import settings
    import django.template.base as B
    ORIG_COMPILE, ORIG_RENDER, ORIG_TAG_RE = B.Template.compile_nodelist, B.Template.render, B.tag_re
    assert ORIG_COMPILE.__module__ == "django.template.base" and ORIG_RENDER.__module__ == "django.template.base", \
        "Template already patched before the originals could be saved"
    dotall = bool(spec["dotall"])
    patched = mode == "stock-patched"
    if patched:
        assert "django_components" not in sys.modules
        settings.configure(
            INSTALLED_APPS=("django_components",),
            TEMPLATES=[{"BACKEND": "django.template.backends.django.DjangoTemplates", "DIRS": [],
                        "OPTIONS": {"builtins": ["django_components.templatetags.component_tags"]}}],
            COMPONENTS={"autodiscover": False, "multiline_tags": dotall},
            DATABASES={}, SECRET_KEY="x", ROOT_URLCONF="django_components.urls")
    else:
        settings.configure(INSTALLED_APPS=(), TEMPLATES=[{"BACKEND": "django.template.backends.django.DjangoTemplates", "DIRS": []}],
                           DATABASES={}, SECRET_KEY="x")
    django.setup()
    from django.template import Context, Engine
    if patched:
        import django_components
        repo = os.environ.get("VERIF_REPO", "/repo")
        assert os.path.realpath(django_components.__file__).startswith(os.path.realpath(repo)), django_components.__file__
        PATCHED_COMPILE, PATCHED_RENDER = B.Template.compile_nodelist, B.Template.render
        info = {"compile_patched": PATCHED_COMPILE is not ORIG_COMPILE, "render_patched": PATCHED_RENDER is not ORIG_RENDER,
                "tag_re_dotall": bool(B.tag_re.flags & re.DOTALL), "tag_re_replaced": B.tag_re is not ORIG_TAG_RE,
                "djc_patched_flag": bool(getattr(B.Template, "_djc_patched", False))}
        from django_components.util.template_parser import parse_template
    else:
        assert "django_components" not in sys.modules
        if dotall:
            B.tag_re = re.compile(B.tag_re.pattern, re.DOTALL)
        info = {"tag_re_dotall": bool(B.tag_re.flags & re.DOTALL)}
    TPL = {}
    builtins = (["django_components.templatetags.component_tags"] if patched else []) + ["c10_util"]
    engines = {dbg: Engine(dirs=[], loaders=[("django.template.loaders.locmem.Loader", TPL)], debug=dbg, builtins=builtins,
                           libraries={"c10tags": "c10_util"}) for dbg in (False, True)}
    out = []
    for case in spec["cases"]:
        TPL.clear()
        TPL.update(case["templates"])
        rec = {"id": case["id"]}
        # token level, per template source
        toks = {}
        for name, src in case["templates"].items():
            ent = {"debug_lexer": _tok_obs(B.DebugLexer(src).tokenize()), "lexer": _tok_obs(B.Lexer(src).tokenize())}
            if patched:
                try:
                    ent["parse_template"] = _tok_obs(parse_template(src))
                except Exception as e:  # noqa
                    ent["parse_template"] = {"type": type(e).__name__, "msg": str(e)}
            toks[name] = ent
        rec["tokens"] = toks
        for dbg in (False, True):
            sides = ("patched", "stock") if patched else ("stock",)
            for side in sides:
                if patched:
                    if side == "stock":
                        B.Template.compile_nodelist, B.Template.render = ORIG_COMPILE, ORIG_RENDER
                    else:
                        B.Template.compile_nodelist, B.Template.render = PATCHED_COMPILE, PATCHED_RENDER
                try:
                    rec["%s-%s" % (side, "debug" if dbg else "nodebug")] = _render_obs(engines[dbg], case, Context)
                finally:
                    if patched:
                        B.Template.compile_nodelist, B.Template.render = PATCHED_COMPILE, PATCHED_RENDER
        out.append(rec)
    return {"info": info, "obs": out}


# =================================================================================================
# (b) component programs: families <-> flattened programs
# =================================================================================================
# Family programs extend genprog's tpl nodes with
#   ("block", name, body) | ("super",) | ("include", tname, with_kw)     with_kw: None | [(x, expr)]
# A family program:
#   {"page": fam, "lib": [(cname, fam, data)], "inc": {tname: fam}, "ctx": ..., "mode": ...}
#   fam = {"chain": [nodes (leaf first)], "root": nodes}

def _G():
    import genprog
    return genprog


BODY_IDX = {"if": (2, 3), "for": (3,), "with": (3,), "slot": (5,), "fill": (4,), "comp": (4,), "provide": (3,), "block": (2,)}


def d_nodes(ts, dynamic=False):
    return "".join(d_node(t, dynamic) for t in ts)


def d_node(t, dynamic=False):
    G = _G()
    k = t[0]
    if k == "block":
        return "{%% block %s %%}%s{%% endblock %%}" % (t[1], d_nodes(t[2], dynamic))
    if k == "super":
        return "{{ block.super }}"
    if k == "include":
        w = (" with" + G.d_kw_stock(t[2])) if t[2] else ""
        return '{%% include "%s"%s %%}' % (t[1], w)
    if k in ("text", "out"):
        return G.d_tpl(t, dynamic)
    if k == "if":
        return "{%% if %s %%}%s{%% else %%}%s{%% endif %%}" % (G.d_expr(t[1]), d_nodes(t[2], dynamic), d_nodes(t[3], dynamic))
    if k == "for":
        return "{%% for %s in %s %%}%s{%% endfor %%}" % (t[1], G.d_expr(t[2]), d_nodes(t[3], dynamic))
    if k == "with":
        return "{%% with %s=%s %%}%s{%% endwith %%}" % (t[1], G.d_expr(t[2]), d_nodes(t[3], dynamic))
    if k == "slot":
        return '{%% slot "%s"%s%s%s %%}%s{%% endslot %%}' % (
            t[1], " default" if t[2] else "", " required" if t[3] else "", G.d_kw(t[4]), d_nodes(t[5], dynamic))
    if k == "fill":
        return "{%% fill %s%s%s %%}%s{%% endfill %%}" % (
            G.d_expr(t[1]), ' data="%s"' % t[2] if t[2] else "", ' default="%s"' % t[3] if t[3] else "", d_nodes(t[4], dynamic))
    if k == "comp":
        head = ('"dynamic" is="%s"' % t[1]) if dynamic else '"%s"' % t[1]
        return "{%% component %s%s%s %%}%s{%% endcomponent %%}" % (head, G.d_kw(t[2]), " only" if t[3] else "", d_nodes(t[4], dynamic))
    if k == "provide":
        return '{%% provide "%s"%s %%}%s{%% endprovide %%}' % (t[1], G.d_kw(t[2]), d_nodes(t[3], dynamic))
    raise ValueError(k)


def map_bodies(t, f):
    """rebuild node t with f applied to each child node list"""
    idx = BODY_IDX.get(t[0], ())
    if not idx:
        return t
    t = list(t)
    for i in idx:
        t[i] = f(t[i])
    return tuple(t)


class Unflatten:
    """Turn a flat template (genprog node list) into a family whose hand-flattening is that template."""

    def __init__(self, rng, uid, names, p_block=0.5, p_include=0.2, max_levels=3, allow_fill_segments=True,
                 skip_slot_bodies=False, skip_comp_bodies=False, levels=None, inc_names=None):
        self.r = rng
        self.uid = uid
        self.names = names            # callable: () -> fresh block name (unique within this family)
        self.p_block = p_block
        self.p_include = p_include
        # number of templates that say {% extends %} (= len(chain)); 0 = a plain template whose blocks show their own content
        self.levels = rng.randint(1, max_levels - 1) if levels is None else levels
        # factory of block-name generators for included templates: stock {% include %} isolates the render context, so an
        # included template (family) has its OWN block namespace and may re-use the names of the including family
        self.inc_names = inc_names
        self.chain = [[] for _ in range(self.levels)]  # leaf first; each a list of top-level nodes of that child template
        self.inc = {}
        self.ninc = 0
        self.stats = set()
        self.allow_fill_segments = allow_fill_segments
        self.skip_slot_bodies = skip_slot_bodies
        self.skip_comp_bodies = skip_comp_bodies

    def descend(self, t, level):
        """unflatten inside the child node lists of t - except where a knob says no, and never inside the body of a loop
        that produces fills (the same fill body then serves several slots; with the `default` alias one of them can be
        rendered inside the other, i.e. a block would be entered while it is being rendered - Django's BlockContext has
        no meaning for that, and no template without components can do it)"""
        if (t[0] == "slot" and self.skip_slot_bodies) or (t[0] == "comp" and self.skip_comp_bodies):
            return t
        if t[0] == "for" and self.has_free_fill(t[3]):
            return t
        if t[0] == "comp" and self.reentrant_fills(t[4]):
            return t       # some fill of this tag can be rendered inside the default content of a slot (`default` alias,
            #                dynamic / looped fills): any block in any fill of the tag could be entered while it is being rendered
        return map_bodies(t, lambda b: self.walk(b, level))

    def reentrant_fills(self, body):
        for t in body:
            if t[0] == "fill" and (t[1][0] != "str" or t[3]):
                return True
            if t[0] == "for" and self.has_free_fill(t[3]):
                return True
            if t[0] != "comp" and any(self.reentrant_fills(t[i]) for i in BODY_IDX.get(t[0], ())):
                return True
        return False

    def junk(self):
        return [("text", self.r.choice(["JUNK", "junk!", "<j>"]))] + ([("out", ("var", "p1"))] if self.r.random() < 0.3 else [])

    @staticmethod
    def blank(seg):
        """only white-space text: as the whole body of a component tag this means `no fill`, while an include / block that
        renders the same white space is an implicit default fill (documented rule on the tag body) - never moved"""
        return all(t[0] == "text" and not t[1].strip() for t in seg)

    def has_free_fill(self, seg):
        """a fill tag in seg that is not inside a component tag of seg"""
        for t in seg:
            if t[0] == "fill":
                return True
            if t[0] == "comp":
                continue
            for i in BODY_IDX.get(t[0], ()):
                if self.has_free_fill(t[i]):
                    return True
        return False

    def run(self, ts):
        root = self.walk(ts, level=None)
        # children must define at least their blocks; an empty child is fine ({% extends %} only)
        return {"chain": self.chain, "root": root}

    def define(self, level, name, body):
        """put a block definition into child template `level` (0 = leaf)"""
        pre = [("text", self.r.choice(["ignored", "\n", " "]))] if self.r.random() < 0.3 else []
        self.chain[level].extend(pre + [("block", name, body)])

    def walk(self, ts, level, noseg=False):
        """level: None = we are writing root content, k = content of a definition in chain[k]"""
        r = self.r
        out = []
        i = 0
        n = len(ts)
        while i < n:
            c = 1.0 if noseg else r.random()
            if c < self.p_block and n - i >= 1:
                j = r.randint(i + 1, min(n, i + 3))
                seg = ts[i:j]
                if self.blank(seg) or (not self.allow_fill_segments and self.has_free_fill(seg)):
                    out.append(self.descend(ts[i], level))
                    i += 1
                    continue
                out.extend(self.block(seg, level))
                i = j
            elif c < self.p_block + self.p_include and not self.has_free_fill(ts[i:i + 1]):
                j = r.randint(i + 1, min(n, i + 2))
                seg = ts[i:j]
                if self.has_free_fill(seg):
                    seg, j = ts[i:i + 1], i + 1
                if self.blank(seg):
                    out.append(self.descend(ts[i], level))
                    i += 1
                    continue
                out.append(self.include(seg))
                i = j
            else:
                out.append(self.descend(ts[i], level))
                i += 1
        return out

    def include(self, seg):
        self.ninc += 1
        name = "c10/%s_inc%d.html" % (self.uid, self.ninc)
        self.stats.add("include")
        with_kw = None
        if len(seg) == 1 and seg[0][0] == "with" and self.r.random() < 0.7:
            with_kw = [(seg[0][1], seg[0][2])]
            seg = list(seg[0][3])
            self.stats.add("include-with")
        # the included template may itself be a family, or a plain template with blocks; with `inc_names` it draws its block
        # names independently of the including family (name re-use across the isolation of {% include %})
        if self.inc_names is not None and self.r.random() < 0.8:
            sub = Unflatten(self.r, "%s_i%d" % (self.uid, self.ninc), self.inc_names(), self.r.choice([0.6, 0.8]), 0.0, 3,
                            self.allow_fill_segments, self.skip_slot_bodies, self.skip_comp_bodies, levels=self.r.choice([0, 0, 1]))
            fam = sub.run(list(seg))
            self.stats.add("include-own-namespace")
            if fam["chain"]:
                self.stats.add("include-family")
            self.stats |= sub.stats
        elif self.r.random() < 0.3:
            sub = Unflatten(self.r, "%s_i%d" % (self.uid, self.ninc), self.names, self.p_block, 0.0, 3, self.allow_fill_segments,
                            self.skip_slot_bodies, self.skip_comp_bodies)
            fam = sub.run(list(seg))
            self.inc.update(sub.inc)
            self.stats.add("include-family")
            self.stats |= sub.stats
        else:
            fam = {"chain": [], "root": [map_bodies(t, lambda b: b) for t in seg]}
        self.inc[name] = fam
        return ("include", name, with_kw)

    def block(self, seg, level):
        """Return the nodes that stand for seg at the current place; definitions go to more derived templates.
        Templates more derived than the one being written: indices < level (or all of the chain for the root)."""
        r = self.r
        name = self.names()
        derived = list(range(self.levels)) if level is None else list(range(level))
        modes = ["own"]
        if derived:
            modes += ["override", "override", "super-pre", "super-post", "super-mid", "skip"]
            if len(derived) >= 2:
                modes += ["three", "three", "mid-only"]
        mode = r.choice(modes)
        self.stats.add("block-" + mode)
        if level is not None:
            self.stats.add("block-nested-in-definition")
        if mode == "own":
            return [("block", name, self.walk(seg, level, noseg=r.random() < 0.85))]
        top = derived[-1]          # the least derived of the more derived templates (closest to the current one)
        leaf = derived[0]
        if mode == "override":
            k = r.choice(derived)
            self.define(k, name, self.walk(seg, k))
            return [("block", name, self.junk())]
        if mode == "skip":
            self.define(leaf, name, self.walk(seg, leaf))
            if len(derived) >= 2:
                self.define(top, name, self.junk())
            return [("block", name, self.junk())]
        if mode == "mid-only":
            self.define(top, name, self.walk(seg, top))
            return [("block", name, self.junk())]
        if mode in ("super-pre", "super-post", "super-mid"):
            k = r.choice(derived)
            if mode == "super-pre":
                cut = r.randint(0, len(seg))
                a, b, c = [], seg[:cut], seg[cut:]
            elif mode == "super-post":
                cut = r.randint(0, len(seg))
                a, b, c = seg[:cut], seg[cut:], []
            else:
                c1 = r.randint(0, len(seg))
                c2 = r.randint(c1, len(seg))
                a, b, c = seg[:c1], seg[c1:c2], seg[c2:]
            self.define(k, name, self.walk(a, k) + [("super",)] + self.walk(c, k))
            return [("block", name, self.walk(b, level))]
        # three levels: own content b; top adds around with super; leaf adds around with super again
        c1 = r.randint(0, len(seg))
        c2 = r.randint(c1, len(seg))
        c0 = r.randint(0, c1)
        c3 = r.randint(c2, len(seg))
        self.define(top, name, self.walk(seg[c0:c1], top) + [("super",)] + self.walk(seg[c2:c3], top))
        self.define(leaf, name, self.walk(seg[:c0], leaf) + [("super",)] + self.walk(seg[c3:], leaf))
        return [("block", name, self.walk(seg[c1:c2], level))]


def fam_blocks_of(ns):
    out = []
    for n in ns:
        if n[0] == "block":
            out.append((n[1], n[2]))
        for i in BODY_IDX.get(n[0], ()):
            out.extend(fam_blocks_of(n[i]))
    return out


def fam_names(fam):
    return {n for t in fam["chain"] + [fam["root"]] for n, _ in fam_blocks_of(t)}


def fam_flatten(fam, inc=None):
    """Hand-flattening (mirror of Stock/Model.v fl); with `inc` given, includes are inlined too."""
    bc = {}
    for t in fam["chain"] + [fam["root"]]:
        for name, body in fam_blocks_of(t):
            bc.setdefault(name, []).append(body)

    def fl(bc, cur, ns):
        out = []
        for n in ns:
            k = n[0]
            if k == "block":
                q = bc.get(n[1], [])
                if not q:
                    out.extend(fl(bc, n[1], n[2]))
                else:
                    out.extend(fl({**bc, n[1]: q[1:]}, n[1], q[0]))
            elif k == "super":
                if cur is not None and bc.get(cur):
                    q = bc[cur]
                    out.extend(fl({**bc, cur: q[1:]}, cur, q[0]))
            elif k == "include" and inc is not None:
                body = fam_flatten(inc[n[1]], inc)
                if n[2]:
                    (x, e), = n[2]
                    out.append(("with", x, e, body))
                else:
                    out.extend(body)
            else:
                out.append(map_bodies(n, lambda b: fl(bc, cur, b)))
        return out
    return fl(bc, None, fam["root"])


def fam_templates(fam, prefix, leaf_inline=False):
    """family -> ({name: source}, leaf name or None, leaf source)"""
    tpls = {}
    if not fam["chain"]:
        src = d_nodes(fam["root"])
        if leaf_inline:
            return tpls, None, src
        tpls[prefix + "_root.html"] = src
        return tpls, prefix + "_root.html", src
    parent = prefix + "_root.html"
    tpls[parent] = d_nodes(fam["root"])
    levels = list(reversed(fam["chain"]))
    src = None
    for i, t in enumerate(levels):
        name = prefix + "_l%d.html" % i
        src = '{%% extends "%s" %%}%s' % (parent, d_nodes(t))
        if i == len(levels) - 1 and leaf_inline:
            return tpls, None, src
        tpls[name] = src
        parent = name
    return tpls, parent, src


# ---- abstraction to the node type of Stock/Model.v (for the Coq-side check of the flattening) ----
class Abstractor:
    def __init__(self):
        self.ids = {}
        self.bnames = {}

    def idof(self, key):
        return self.ids.setdefault(json.dumps(key), len(self.ids))

    def bname(self, n):
        return self.bnames.setdefault(n, len(self.bnames))

    def nodes(self, ts):
        out = []
        for t in ts:
            k = t[0]
            if k == "block":
                out.append(("block", self.bname(t[1]), self.nodes(t[2])))
            elif k == "super":
                out.append(("super",))
            elif k == "if":
                out.append(("wrap", self.idof(("if+", t[1])), self.nodes(t[2])))
                out.append(("wrap", self.idof(("if-", t[1])), self.nodes(t[3])))
            elif k in BODY_IDX:
                (bi,) = BODY_IDX[k]
                out.append(("wrap", self.idof(list(t[:bi]) + list(t[bi + 1:])), self.nodes(t[bi])))
            else:
                out.append(("leaf", self.idof(t)))
        return out


def reach_components(fp):
    """cname -> set of component names whose tags can be evaluated while cname's instance renders a fill or its
    own templates (transitively).  A block tag stands for every definition of that name in its family (the content
    that ends up there is decided by the inheritance chain), an include for the included family."""
    lib = {c: fam for c, fam, _ in fp["lib"]}
    owners = [("page", fp["page"])] + [(c, f) for c, f, _ in fp["lib"]]
    allfams = [f for _, f in owners] + list(fp["inc"].values())
    defs = {}
    for f in allfams:
        d = {}
        for tt in f["chain"] + [f["root"]]:
            for n, b in fam_blocks_of(tt):
                d.setdefault(n, []).append(b)
        defs[id(f)] = d

    def expand(ts, fam, f, seen=None):
        """apply f to every node reachable from ts: children, all definitions of blocks, included families"""
        seen = set() if seen is None else seen
        for t in ts:
            f(t)
            if t[0] == "block":
                for b in defs[id(fam)].get(t[1], ()):
                    if id(b) not in seen:
                        seen.add(id(b))
                        expand(b, fam, f, seen)
            if t[0] == "include":
                g = fp["inc"].get(t[1])
                if g is not None and ("inc", t[1]) not in seen:
                    seen.add(("inc", t[1]))
                    for tt in g["chain"] + [g["root"]]:
                        expand(tt, g, f, seen)
            for i in BODY_IDX.get(t[0], ()):
                expand(t[i], fam, f, seen)

    def tags_in(ts, fam):
        acc = set()
        expand(ts, fam, lambda t: acc.add(t[1]) if t[0] == "comp" else None)
        return acc

    def has_slot(ts, fam):
        acc = []
        expand(ts, fam, lambda t: acc.append(1) if t[0] == "slot" else None)
        return bool(acc)
    # bodies passed to each component, with the family they are written in
    bodies = {c: [] for c in lib}

    def collect(fam):
        def f(t):
            if t[0] == "comp" and t[1] in bodies:
                bodies[t[1]].append((t[4], fam))
        for tt in fam["chain"] + [fam["root"]]:
            expand(tt, fam, f)
    for f in allfams:
        collect(f)
    body_tags = {c: set().union(*[tags_in(b, fam) for b, fam in bodies[c]]) if bodies[c] else set() for c in lib}
    # a body passed to c that contains a slot tag of the component E it is written in renders whatever is passed to E
    owner_of = {id(f): e for e, f in owners}
    changed = True
    while changed:
        changed = False
        for c in lib:
            for b, fam in bodies[c]:
                e = owner_of.get(id(fam))
                if e is None:
                    es = list(lib)          # written in an included template: any component may include it
                elif e == "page":
                    continue
                else:
                    es = [e]
                if has_slot(b, fam):
                    for e in es:
                        new = body_tags[e] - body_tags[c]
                        if new:
                            body_tags[c] |= new
                            changed = True
    direct = {}
    for c, fam in lib.items():
        acc = set(body_tags[c])
        for tt in fam["chain"] + [fam["root"]]:
            acc |= tags_in(tt, fam)
        direct[c] = acc
    reach = {c: set(v) for c, v in direct.items()}
    changed = True
    while changed:
        changed = False
        for c in reach:
            for d in list(reach[c]):
                new = reach.get(d, set()) - reach[c]
                if new:
                    reach[c] |= new
                    changed = True
    return reach


def shares_block_context(fp):
    """Trigger class c10-blockcontext-shared (decided on the program text only): some component whose template family
    declares block names can be instantiated while the BlockContext on the TOPMOST render-context layer already holds a
    block of one of those names.  Which families can have put blocks there:
      seen(page) = {page};  seen(include) = {that include}  (stock {% include %} renders on a fresh, isolated layer);
      seen(component C) = {C} + what is on top at each of C's tags: seen(G) for a tag written in family G outside every
      component body; for a tag inside the body of a component tag (evaluated in some slot, on a re-pushed layer) every
      family of the program (over-approximation).
    C is in the class iff its names meet the names of a family (other than C) seen at one of its tags, or it is written with
    {% extends %} and one of its tags can be evaluated inside its own instance (django mode)."""
    fams = [("page", fp["page"])] + [("comp:" + c, f) for c, f, _ in fp["lib"]] + [("inc:" + n, f) for n, f in fp["inc"].items()]
    names = {k: fam_names(f) for k, f in fams}
    everything = set(names)
    # tag sites: (component, family key it is written in, inside a component body?)
    sites = []

    def scan(ts, key, inside):
        for t in ts:
            if t[0] == "comp":
                sites.append((t[1], key, inside))
            for i in BODY_IDX.get(t[0], ()):
                scan(t[i], key, inside or t[0] == "comp")
    for k, f in fams:
        for tt in f["chain"] + [f["root"]]:
            scan(tt, k, False)
    seen = {k: {k} for k in names}
    changed = True
    while changed:
        changed = False
        for c, g, inside in sites:
            kc = "comp:" + c
            if kc not in seen:
                continue
            add = everything if inside else seen[g]
            if not add <= seen[kc]:
                seen[kc] |= add
                changed = True
    reach = None
    for c, fam, _ in fp["lib"]:
        kc = "comp:" + c
        mine = names[kc]
        if not mine:
            continue
        for k in sorted(seen[kc]):
            if k != kc and mine & names[k]:
                return "names:%s~%s" % (c, k)
        if fam["chain"] and fp["mode"] == "django":
            reach = reach or reach_components(fp)
            if c in reach.get(c, ()):
                return "self:%s" % c
    return None


def _has_block(ts):
    for t in ts:
        if t[0] == "block":
            return True
        if any(_has_block(t[i]) for i in BODY_IDX.get(t[0], ())):
            return True
    return False


def slot_layer_class(fp):
    """Trigger class c10-block-in-slot-default (decided on the program text only): a {% block %} tag written inside the
    default content of a {% slot %} tag.  (slots.py renders the default content of an unfilled slot on
    `render_context.dicts[-2]`, the layer of the template that wrote the component tag, whenever that layer has a block
    context; the block then is not resolved against the component's own family.)"""
    r = _slot_layer_class(fp)
    return r if r == "block-in-slot-default" else None


def deep_slot_fill_class(fp):
    """Not a trigger class of the current tree (reported only): a block tag written inside the body of a component tag whose
    component has a `deep` slot - a slot tag inside an included template, inside another slot's content, or inside the
    body of a component tag.  The layer for fill content is chosen by position (dicts[-2]); today the component's own
    layer holds a copy of the tag's BlockContext, which hides the wrong choice."""
    r = _slot_layer_class(fp)
    return r if r and r != "block-in-slot-default" else None


def _slot_layer_class(fp):
    lib = {c: fam for c, fam, _ in fp["lib"]}
    fams = [fp["page"]] + list(lib.values()) + list(fp["inc"].values())

    def slot_with_block(ts):
        for t in ts:
            if t[0] == "slot" and _has_block(t[5]):
                return True
            if any(slot_with_block(t[i]) for i in BODY_IDX.get(t[0], ())):
                return True
        return False
    for f in fams:
        if any(slot_with_block(tt) for tt in f["chain"] + [f["root"]]):
            return "block-in-slot-default"

    def includes_of(ts, acc):
        for t in ts:
            if t[0] == "include" and t[1] not in acc:
                acc.add(t[1])
                f = fp["inc"].get(t[1])
                if f:
                    for tt in f["chain"] + [f["root"]]:
                        includes_of(tt, acc)
            for i in BODY_IDX.get(t[0], ()):
                includes_of(t[i], acc)
        return acc

    def any_slot(ts):
        return any(t[0] == "slot" or any(any_slot(t[i]) for i in BODY_IDX.get(t[0], ())) for t in ts)

    def nested_slot(ts, inside):
        for t in ts:
            if t[0] == "slot" and inside:
                return True
            for i in BODY_IDX.get(t[0], ()):
                if nested_slot(t[i], inside or t[0] in ("slot", "comp")):
                    return True
        return False
    deep = set()
    for c, fam in lib.items():
        tpls = fam["chain"] + [fam["root"]]
        incs = set()
        for tt in tpls:
            includes_of(tt, incs)
        inc_tpls = [tt for n in incs if n in fp["inc"] for tt in fp["inc"][n]["chain"] + [fp["inc"][n]["root"]]]
        if any(any_slot(tt) for tt in inc_tpls) or any(nested_slot(tt, False) for tt in tpls):
            deep.add(c)

    def block_in_body(ts):
        for t in ts:
            if t[0] == "comp" and t[1] in deep and _has_block(t[4]):
                return t[1]
            for i in BODY_IDX.get(t[0], ()):
                r = block_in_body(t[i])
                if r:
                    return r
        return None
    for f in fams:
        for tt in f["chain"] + [f["root"]]:
            r = block_in_body(tt)
            if r:
                return "block-in-fill-of-deep-slot:%s" % r
    return None


def make_family_program(rng, prog, uid, collide=False, which=None, knobs=None):
    """genprog program -> family program (same meaning after hand-flattening)."""
    counter = [0]
    pool = ["body", "main", "side", "extra", "head", "foot", "nav", "aside"]

    def names_for(prefix):
        used = []

        def fresh():
            if collide:
                free = [n for n in pool if n not in used]
                if free:
                    n = rng.choice(free[:4])
                    used.append(n)
                    return n
            counter[0] += 1
            return "%s_b%d" % (prefix, counter[0])
        return fresh
    inc = {}
    stats = set()
    targets = ["page"] + [c for c, _ in prog["lib"]]
    if which is None:
        which = {t for t in targets if rng.random() < 0.6} or {rng.choice(targets)}

    def fam_of(key, ts):
        if key not in which:
            return {"chain": [], "root": list(ts)}
        kn = dict(knobs or {})
        if key == "page":
            kn.pop("skip_slot_bodies", None)
        if kn.pop("inc_own_namespace", False):
            kn["inc_names"] = lambda key=key: names_for(key + "_inc")
        u = Unflatten(rng, "%s_%s" % (uid, key), names_for(key), p_block=rng.choice([0.3, 0.5, 0.7]),
                      p_include=kn.pop("p_include", rng.choice([0.0, 0.15, 0.3])), **kn)
        fam = u.run(list(ts))
        inc.update(u.inc)
        stats.update(u.stats)
        return fam
    fp = {"page": fam_of("page", prog["page"]),
          "lib": [(c, fam_of(c, cd["tpl"]), cd["data"]) for c, cd in prog["lib"]],
          "inc": inc, "ctx": prog["ctx"], "mode": prog["mode"], "uid": uid, "stats": sorted(stats)}
    return fp


def without_component_families(fp):
    """the same program with every COMPONENT template family replaced by its hand-flattened template (includes used by
    component templates inlined); the page family and the templates it includes stay families.  No component declares a
    block any more, so the result is outside both known classes by construction."""
    return dict(fp, lib=[(c, {"chain": [], "root": fam_flatten(f, fp["inc"])}, d) for c, f, d in fp["lib"]],
                stats=sorted(set(fp["stats"]) | {"component-families-flattened"}))


def flatten_family_program(fp):
    return {"lib": [(c, {"tpl": fam_flatten(f, fp["inc"]), "data": d}) for c, f, d in fp["lib"]],
            "page": fam_flatten(fp["page"], fp["inc"]), "ctx": fp["ctx"], "mode": fp["mode"]}


def norm(ts):
    """JSON round-trip normal form (tuples become lists)"""
    return json.loads(json.dumps(ts))


# ---- worker B ----
class CompRunner:
    """configures Django + django_components once (locmem loader) and renders family / flattened programs"""

    def __init__(self):
        import django
        from django.conf import settings
        from pathlib import Path
        repo = os.environ.get("VERIF_REPO", "/repo")
        self.TPL = {}
        settings.configure(
            BASE_DIR=Path(repo) / "tests", INSTALLED_APPS=("django_components",),
            TEMPLATES=[{"BACKEND": "django.template.backends.django.DjangoTemplates", "DIRS": [],
                        "OPTIONS": {"builtins": ["django_components.templatetags.component_tags"],
                                    "loaders": [("django.template.loaders.locmem.Loader", self.TPL)]}}],
            COMPONENTS={"autodiscover": False, "template_cache_size": 128},
            MIDDLEWARE=["django_components.middleware.ComponentDependencyMiddleware"],
            DATABASES={}, SECRET_KEY="x", ROOT_URLCONF="django_components.urls")
        django.setup()
        import django_components
        assert os.path.realpath(django_components.__file__).startswith(os.path.realpath(repo)), django_components.__file__
        import djsetup
        djsetup.patch_ids()
        self.ID_RE = re.compile(r" data-djc-id-[0-9a-zA-Z]+(=\"\")?")

    def outcome_of(self, fn, limit=12.0):
        """core_run.outcome_of with a longer, repeating watchdog (an alarm that lands inside a callback whose exceptions
        are ignored must not leave a looping render running)"""
        import signal
        import core_run
        old = sys.getrecursionlimit()
        signal.signal(signal.SIGALRM, core_run._alarm)
        signal.setitimer(signal.ITIMER_REAL, limit, 0.5)
        try:
            o = ("ok", core_run.canon(fn()))
        except core_run.RenderTimeout:
            o = ("err", "other:Timeout")
        except RecursionError:
            o = ("err", "other:RecursionError")
        except Exception as e:  # noqa
            o = ("err", core_run.ERRMAP.get(type(e).__name__, "other:" + type(e).__name__))
            self.last_exc = "%s: %s" % (type(e).__name__, str(e)[:300])
        finally:
            signal.setitimer(signal.ITIMER_REAL, 0)
            sys.setrecursionlimit(old)
        return (o[0], self.ID_RE.sub("", o[1])) if o[0] == "ok" else o

    def run_flat(self, prog):
        import core_run
        import djsetup
        from django.template import Context, Template
        djsetup.reset_ids()
        with djsetup.components_settings(context_behavior=prog["mode"]):
            classes, cleanup = core_run.build(prog, False)
            try:
                src = d_nodes(prog["page"])
                return self.outcome_of(lambda: Template(src).render(Context(dict(prog["ctx"]))))
            finally:
                cleanup()

    def run_family(self, fp, page_named, leaf_named):
        import core_run
        import djsetup
        from django.template import Context, Template
        from django.template.loader import get_template
        TPL = self.TPL
        djsetup.reset_ids()
        TPL.clear()
        for name, fam in fp["inc"].items():
            tpls, leafname, src = fam_templates(fam, name[:-5])
            TPL.update(tpls)
            TPL[name] = TPL[leafname]        # the include refers to `name`: the leaf of its family
        page_tpls, page_leaf, page_src = fam_templates(fp["page"], "c10/%s_page" % fp["uid"], leaf_inline=not page_named)
        TPL.update(page_tpls)
        comp_src = {}
        comp_name = {}
        for c, fam, _ in fp["lib"]:
            named = leaf_named and bool(fam["chain"])
            tpls, leafname, src = fam_templates(fam, "c10/%s_%s" % (fp["uid"], c), leaf_inline=not named)
            TPL.update(tpls)
            comp_src[c] = src
            comp_name[c] = leafname
        prog = {"lib": [(c, {"tpl": [], "data": d}) for c, f, d in fp["lib"]], "mode": fp["mode"]}

        def extra_attrs(cname, cd):
            if comp_name[cname] is not None:
                nm = comp_name[cname]
                return {"template": None, "get_template_name": (lambda self, context, nm=nm: nm)}
            return {"template": comp_src[cname]}
        with djsetup.components_settings(context_behavior=fp["mode"]):
            classes, cleanup = core_run.build(prog, False, extra_attrs=extra_attrs)
            try:
                def go():
                    if page_leaf is not None:
                        return get_template(page_leaf).render(dict(fp["ctx"]))
                    return Template(page_src).render(Context(dict(fp["ctx"])))
                return self.outcome_of(go)
            finally:
                cleanup()

    def run_case(self, case):
        fp = dict(case["fp"])
        fp["lib"] = [tuple(x) for x in fp["lib"]]
        flat = dict(case["flat"])
        flat["lib"] = [tuple(x) for x in flat["lib"]]
        return {"id": case["id"], "flat": self.run_flat(flat),
                "family": self.run_family(fp, case.get("page_named", False), case.get("leaf_named", False))}


def worker_comp(spec):
    r = CompRunner()
    return {"obs": [r.run_case(case) for case in spec["cases"]]}


# ---- worker C: histories - a template FILE is first used by a component, then by stock tags ----
def worker_history(spec):
    """Default Django configuration keeps compiled templates in cached.Loader.  Per case: (1) render the stock page,
    (2) render a component whose template is one of the files the page includes (get_template_name), (3) render the
    stock page again from the same loader cache, (4) once more after loader.reset()."""
    import django
    from django.conf import settings
    from pathlib import Path
    repo = os.environ.get("VERIF_REPO", "/repo")
    TPL = {}
    settings.configure(
        BASE_DIR=Path(repo) / "tests", INSTALLED_APPS=("django_components",),
        TEMPLATES=[{"BACKEND": "django.template.backends.django.DjangoTemplates", "DIRS": [],
                    "OPTIONS": {"builtins": ["django_components.templatetags.component_tags"],
                                "loaders": [("django.template.loaders.cached.Loader", [("django.template.loaders.locmem.Loader", TPL)])]}}],
        COMPONENTS={"autodiscover": False}, DATABASES={}, SECRET_KEY="x", ROOT_URLCONF="django_components.urls")
    django.setup()
    import django_components
    assert os.path.realpath(django_components.__file__).startswith(os.path.realpath(repo)), django_components.__file__
    import core_run
    from django.template import engines
    from django.template.loader import get_template
    from django_components import Component
    engine = engines["django"].engine

    def page(case):
        try:
            return ["ok", get_template(case["main"]).render(dict(case["ctx"]))]
        except Exception as e:  # noqa
            return ["err", "%s: %s" % (type(e).__name__, str(e)[:200])]
    out = []
    for case in spec["cases"]:
        TPL.clear()
        TPL.update(case["templates"])
        for ld in engine.template_loaders:
            ld.reset()
        rec = {"id": case["id"], "before": page(case)}
        cls = type("C10Hist%d" % case["id"], (Component,), {
            "get_template_name": (lambda self, context, nm=case["component_template"]: nm), "__module__": "verif_c10_hist"})
        try:
            rec["component"] = ["ok", core_run.canon(cls.render(context=dict(case["ctx"]), render_dependencies=False))]
        except Exception as e:  # noqa
            rec["component"] = ["err", type(e).__name__]
        rec["after"] = page(case)
        for ld in engine.template_loaders:
            ld.reset()
        rec["after_reset"] = page(case)
        out.append(rec)
    return {"obs": out}


def main():
    mode, inp, outp = sys.argv[1], sys.argv[2], sys.argv[3]
    spec = json.load(open(inp))
    if mode in ("stock-patched", "stock-pure"):
        res = worker_stock(mode, spec)
    elif mode == "comp":
        res = worker_comp(spec)
    elif mode == "history":
        res = worker_history(spec)
    else:
        raise SystemExit("unknown mode " + mode)
    with open(outp, "w") as f:
        json.dump(res, f)


if __name__ == "__main__":
    main()
