"""Constants of /repo's dependencies.py that the C04 model is written against (regenerated on every run).

The hand matchers of coq/Deps/Model.v are anchored to these pattern strings by `Example ..._anchor ... reflexivity`,
so an edit of a pattern in the source breaks a proof obligation of Props/C04.v.
"""
import common as C
from gen_constants import generator


def _b(x):
    return x if isinstance(x, bytes) else x.encode()


@generator
def gen_C04():
    import django_components.dependencies as D
    out = []

    def d(name, val):
        out.append("Definition %s : str := %s." % (name, C.cstr(_b(val))))
    for rx, nm in ((D.COMPONENT_COMMENT_REGEX, "comment_regex"), (D.SCRIPT_NAME_REGEX, "script_name_regex"),
                   (D.PLACEHOLDER_REGEX, "placeholder_regex")):
        if not isinstance(rx.pattern, bytes):
            raise RuntimeError("C04 generator: %s is no longer a bytes pattern" % nm)
        d(nm, rx.pattern)
        out.append("Definition %s_flags : N := %d%%N." % (nm, rx.flags))
    d("deps_comment", D.COMPONENT_DEPS_COMMENT)
    d("css_placeholder", D.CSS_DEPENDENCY_PLACEHOLDER)
    d("js_placeholder", D.JS_DEPENDENCY_PLACEHOLDER)
    d("css_placeholder_name", D.CSS_PLACEHOLDER_NAME_B)
    d("js_placeholder_name", D.JS_PLACEHOLDER_NAME_B)
    for rx, nm in ((D.src_pattern, "src_pattern"), (D.href_pattern, "href_pattern")):
        if not isinstance(rx.pattern, str):
            raise RuntimeError("C04 generator: %s is no longer a str pattern" % nm)
        d(nm, rx.pattern)
        out.append("Definition %s_flags : N := %d%%N." % (nm, rx.flags))
    d("end_tag_regex", D.head_or_body_end_tag_re.pattern)
    out.append("Definition end_tag_regex_flags : N := %d%%N." % D.head_or_body_end_tag_re.flags)
    return "\n".join(out) + "\n"
