"""Constants of /repo's dependencies.py / urls.py that the C19 model (coq/Serve/Model.v) is written against.

Regenerated on every run into coq/Gen/C19.v.  Serve/Proofs.v anchors the hand-written route matcher, key format,
URL format and content-type table to them by `Example ..._anchor ... reflexivity`, so that an edit of the routes,
of `_gen_cache_key`, of `_CONTENT_TYPES`, of the mount point or of the default media cache's configuration (cache.py: backend class,
default timeout, max entries, cull frequency - as Django's BaseCache.__init__ actually READS the params) breaks a proof obligation of Props/C19.v.
"""
import common as C
from gen_constants import generator


@generator
def gen_C19():
    import django_components.dependencies as D
    import django_components.urls as U
    from django.urls import reverse
    from django.urls.converters import StringConverter
    out = []

    def d(name, val):
        if not isinstance(val, str):
            raise RuntimeError("C19 generator: %s is not a str: %r" % (name, val))
        out.append("Definition %s : str := %s." % (name, C.cstr(val)))

    pats = D.urlpatterns
    if len(pats) != 2 or any(p.callback is not D.cached_script_view for p in pats):
        raise RuntimeError("C19 generator: dependencies.urlpatterns no longer two routes to cached_script_view")
    d("route1", str(pats[0].pattern))
    d("route2", str(pats[1].pattern))
    if len(U.urlpatterns) != 1:
        raise RuntimeError("C19 generator: urls.urlpatterns changed shape")
    d("mount", str(U.urlpatterns[0].pattern))
    d("str_converter_regex", StringConverter.regex)
    cts = sorted(D._CONTENT_TYPES.items())
    out.append("Definition content_types : list (str * str) := %s." %
               C.clist(["(%s, %s)" % (C.cstr(k), C.cstr(v)) for k, v in cts]))
    # the cache-key and URL formats, sampled on symbolic arguments
    d("key_with_input", D._gen_cache_key("H", "K", "I"))
    d("key_without_input", D._gen_cache_key("H", "K", None))
    d("key_empty_input", D._gen_cache_key("H", "K", ""))
    name = D.CACHE_ENDPOINT_NAME
    d("url_js_with_input", reverse(name, kwargs={"comp_cls_hash": "H", "script_type": "js", "input_hash": "I"}))
    d("url_css_without_input", reverse(name, kwargs={"comp_cls_hash": "H", "script_type": "css"}))
    # the default media cache exactly as the code under test builds it (settings.COMPONENTS.cache unset): the model treats it
    # as a dictionary that loses entries only through delete()/clear() - no expiry, no size-triggered culling
    import django_components.cache as DC
    from django_components.app_settings import app_settings
    if app_settings.CACHE is not None:
        raise RuntimeError("C19 generator: COMPONENTS.cache is set; the default media cache is what C19 is about")
    saved = DC.component_media_cache
    DC.component_media_cache = None
    try:
        mc = DC.get_component_media_cache()
    finally:
        DC.component_media_cache = saved
    d("media_cache_class", type(mc).__module__ + "." + type(mc).__qualname__)
    to = getattr(mc, "default_timeout", 300)
    if to is not None and (not isinstance(to, int) or to < 0):
        raise RuntimeError("C19 generator: unexpected default_timeout %r" % (to,))
    out.append("Definition media_cache_timeout : option N := %s." % ("None" if to is None else "Some %d%%N" % to))
    for name, attr in (("media_cache_max_entries", "_max_entries"), ("media_cache_cull_frequency", "_cull_frequency")):
        v = getattr(mc, attr, None)
        if not isinstance(v, int) or v < 0:
            raise RuntimeError("C19 generator: media cache has no integer %s (%r)" % (attr, v))
        out.append("Definition %s : N := %d%%N." % (name, v))
    return "\n".join(out) + "\n"
