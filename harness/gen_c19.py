"""Constants of /repo's dependencies.py / urls.py that the C19 model (coq/Serve/Model.v) is written against.

Regenerated on every run into coq/Gen/C19.v.  Serve/Proofs.v anchors the hand-written route matcher, key format,
URL format and content-type table to them by `Example ..._anchor ... reflexivity`, so that an edit of the routes,
of `_gen_cache_key`, of `_CONTENT_TYPES` or of the mount point breaks a proof obligation of Props/C19.v.
"""
import common as C
from gen_constants import generator


@generator
def gen_C19():
    import django_components.dependencies as D
    import django_components.urls as U
    from django.urls import reverse
    from django.urls.converters import StringConverter
    out = []

    def d(name, val):
        if not isinstance(val, str):
            raise RuntimeError("C19 generator: %s is not a str: %r" % (name, val))
        out.append("Definition %s : str := %s." % (name, C.cstr(val)))

    pats = D.urlpatterns
    if len(pats) != 2 or any(p.callback is not D.cached_script_view for p in pats):
        raise RuntimeError("C19 generator: dependencies.urlpatterns no longer two routes to cached_script_view")
    d("route1", str(pats[0].pattern))
    d("route2", str(pats[1].pattern))
    if len(U.urlpatterns) != 1:
        raise RuntimeError("C19 generator: urls.urlpatterns changed shape")
    d("mount", str(U.urlpatterns[0].pattern))
    d("str_converter_regex", StringConverter.regex)
    cts = sorted(D._CONTENT_TYPES.items())
    out.append("Definition content_types : list (str * str) := %s." %
               C.clist(["(%s, %s)" % (C.cstr(k), C.cstr(v)) for k, v in cts]))
    # the cache-key and URL formats, sampled on symbolic arguments
    d("key_with_input", D._gen_cache_key("H", "K", "I"))
    d("key_without_input", D._gen_cache_key("H", "K", None))
    d("key_empty_input", D._gen_cache_key("H", "K", ""))
    name = D.CACHE_ENDPOINT_NAME
    d("url_js_with_input", reverse(name, kwargs={"comp_cls_hash": "H", "script_type": "js", "input_hash": "I"}))
    d("url_css_without_input", reverse(name, kwargs={"comp_cls_hash": "H", "script_type": "css"}))
    return "\n".join(out) + "\n"
