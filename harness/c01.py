"""C01 - each slot renders the fill addressed to it, else its own default content.

Reference semantics: coq/Core/Sem.v  Theorems: coq/Props/C01.v
Correspondence: generated component programs (genprog.py) under both context behaviours, each rendered
(1) through the page template, (2) with every component tag replaced by the dynamic component, (3) where the
page is a single top-level component with static fills, through Component.render(kwargs, slots) in three slot
styles.  The reference renderer (evaluated inside Coq) determines the expected output; the three variants must
also agree with each other (direct oracle independent of the model).
"""
import json
import os

import common as C
import core_run as R
import genprog as G

IMPORTS = "From DJC Require Import Lib.Base Core.Syntax Core.Sem."
CORPUS = os.path.join(C.VERIF, "corpus", "C01")


def nontrivial(feats):
    return "fill" in feats and "slot" in feats and "comp-nested" in feats


def classify(prog, what):
    """stable trigger string for a failing program (compared with known_findings.json)"""
    return what


def possible_kinds(prog):
    """exception classes the program can raise at all (static over-approximation)"""
    ks = {"ETemplateSyntax"}
    nodes = G.flatten(prog["page"]) + [t for _, cd in prog["lib"] for t in G.flatten(cd["tpl"])]
    if any(t[0] == "comp" and t[1] not in dict(prog["lib"]) for t in nodes):
        ks.add("ENotRegistered")
    if any(d[0] == "inject" and d[3] is None for _, cd in prog["lib"] for _, d in cd["data"]):
        ks.add("EKey")
    return ks


def gen_programs(chk, n, mode, seed_tag):
    for i in range(n):
        # small programs first (shortest failing case = replay), then larger
        small = i < n // 3
        g = G.Gen(chk.rng, mode, ncomp=chk.rng.randint(1, 2) if small else None, collide=0.0, provide=0.0,
                  errors=0.04, depth=2 if small else 3, only=0.12 if mode == "isolated" else 0.0)
        yield g.program()


def pythonize(prog, r):
    """Derive a program whose page is ONE component tag with static fills (possibly EMPTY ones), so that the Component.render(kwargs, slots)
    variant applies: exercises _normalize_slot_fills with str / SafeString / function contents incl. the empty string."""
    lib = dict(prog["lib"])
    cname = r.choice(sorted(lib))
    slots = sorted({t[1] for t in G.flatten(lib[cname]["tpl"]) if t[0] == "slot"})
    has_default = any(t[0] == "slot" and t[2] for t in G.flatten(lib[cname]["tpl"]))
    texts = ["", "", "F1", "x.y", " ", "T\n"]
    c = r.random()
    if c < 0.25 and has_default:
        body = [("text", r.choice(texts[2:]))]          # implicit default fill
    else:
        cand = list(slots) + (["default"] if has_default and r.random() < 0.3 else []) + (["unknown"] if r.random() < 0.15 else [])
        r.shuffle(cand)
        chosen = cand[: r.randint(0, len(cand))]
        body = []
        for nm in chosen:
            t = r.choice(texts)
            body.append(("fill", ("str", nm), None, None, [("text", t)] if t else []))
    ctx = dict(prog["ctx"])
    pvars = [k for k, v in prog["ctx"] if isinstance(v, str)]
    kw = []
    for k in ("a", "b"):
        if r.random() < 0.6:
            kw.append((k, ("var", r.choice(pvars))) if pvars and r.random() < 0.5 else (k, ("str", "K" + k)))
    q = dict(prog)
    q["page"] = [("text", "PAGE:"), ("comp", cname, kw, False, body), ("text", ":END")]
    return q


_hist = [0]


def run_variants(prog):
    res = {"page": R.render_page(prog, dynamic=False), "dynamic": R.render_page(prog, dynamic=True)}
    _hist[0] += 1
    if _hist[0] % 3 == 0:
        # no hidden state between renders of one compiled template: second render after a render with another context
        res["rerender"] = R.render_page_after_other_context(prog)
    if R.python_variant_applicable(prog) is not None:
        for style in ("str", "safe", "func"):
            res["python-" + style] = R.render_python(prog, style)
    return res


def check_programs(chk, progs, tag):
    terms, meta = [], []
    for prog in progs:
        feats = G.features(prog)
        res = run_variants(prog)
        chk.count(json.dumps(prog, sort_keys=True), nontrivial(feats), kind="%s/%s" % (prog["mode"], "err" if res["page"][0] == "err" else "ok"),
                  sample={"mode": prog["mode"], "page": G.d_tpls(prog["page"]), "components": {n: G.d_tpls(cd["tpl"]) for n, cd in prog["lib"]},
                          "output": res["page"][1][:200]} if nontrivial(feats) and len(G.d_tpls(prog["page"])) < 300 else None)
        for f in feats:
            chk.dist["feature:" + f] += 1
        for v in res:
            chk.dist["variant:" + v] += 1
        base = res["page"]
        # direct oracle 1: the variants agree with the plain tag
        for v, o in res.items():
            pk = possible_kinds(prog)
            same = (o == base) or (o[0] == "err" and base[0] == "err" and o[1] in pk and base[1] in pk)
            if not same:
                chk.fail(classify(prog, "variant-%s-differs" % v.split("-")[0]),
                         "rendering through the %s variant differs from the plain {%% component %%} tag" % v,
                         {"program": prog, "plain": base, v: o})
        # unexpected exception classes / hangs are property failures by themselves
        for v, o in res.items():
            if o[0] == "err" and o[1].startswith("other:"):
                chk.fail(classify(prog, "unexpected-exception"), "render raised %s (variant %s)" % (o[1][6:], v),
                         {"program": prog, "variant": v, "outcome": o})
        if not base[1].startswith("other:"):
            terms.append("(%s, %s)" % (G.c_prog(prog), R.c_outcome(base)))
            meta.append((prog, base))
    bad = C.coq_eval_cases("C01", tag + "s", IMPORTS, "core_case", "check_core", terms, shard=150) if terms else []
    # both sides raise, but different classes: with several potential error sources deferred rendering may surface
    # another one first; accepted only if the observed class is one the program can raise at all
    maybe = [i for i in bad if meta[i][1][0] == "err" and meta[i][1][1] in possible_kinds(meta[i][0]) and len(possible_kinds(meta[i][0])) > 1]
    if maybe:
        still = C.coq_eval_cases("C01", tag + "l", IMPORTS, "core_case", "check_core_lenient", [terms[i] for i in maybe], shard=150)
        ok = set(maybe) - {maybe[i] for i in still}
        chk.dist["error-class-order-ambiguous"] += len(ok)
        bad = [i for i in bad if i not in ok]
    # A difference from the reference that is one of C03's RECORDED scoping deviations is not a slot/fill-resolution failure: the program
    # lies in a known C03 input class (c03_util.classes: predicate on the program text, e.g. a component nested in itself makes its
    # own binder names collide) AND the implementation still equals the mechanism model M of the current code. Anything else stays a
    # failure of C01 (same policy as C03's own check; counted in the evidence).
    if bad:
        import c03_util
        cand = [i for i in bad if meta[i][1][0] == "ok" and c03_util.classes(meta[i][0])]
        if cand:
            mimports = "From DJC Require Import Lib.Base Core.Syntax Core.Sem Core.Mech."
            still = C.coq_eval_cases("C01", tag + "m", mimports, "core_case", "check_mech_lenient", [terms[i] for i in cand], shard=50)
            explained = set(cand) - {cand[j] for j in still}
            if still:
                # M answers "unsupported" (a SlotRef passed across a tag as a value): not judged, counted - as in C03's check
                uns = C.coq_eval_cases("C01", tag + "u", mimports, "core_case", "mech_supported", [terms[cand[j]] for j in still], shard=50)
                notjudged = {cand[still[j]] for j in uns}
                chk.dist["c03-known-class, mechanism model unsupported: not judged"] += len(notjudged)
                explained |= notjudged
            chk.dist["c03-known-scoping-deviation (impl = mechanism model)"] += len(explained)
            bad = [i for i in bad if i not in explained]
    for i in sorted(bad, key=lambda i: len(json.dumps(meta[i][0])))[:10]:
        prog, o = meta[i]
        # the property is functional: the reference renderer determines the output, so a difference is a
        # failure of the property on this program (the replay shows program and observed output)
        chk.fail(classify(prog, "output-differs-from-reference"),
                 "rendered output differs from the reference semantics (slot/fill resolution)",
                 {"program": prog, "page": G.d_tpls(prog["page"]), "components": {n: G.d_tpls(cd["tpl"]) for n, cd in prog["lib"]},
                  "implementation": o})
    return len(bad)


def corpus_programs():
    out = []
    if os.path.isdir(CORPUS):
        for f in sorted(os.listdir(CORPUS)):
            if f.endswith(".json"):
                out.append(json.load(open(os.path.join(CORPUS, f))))
    return [fix_prog(p) for p in out]


def fix_prog(p):
    """JSON round-trip turns tuples into lists; restore the tuple structure the printers expect."""
    def t(x):
        if isinstance(x, list):
            return tuple(t(y) for y in x) if (x and isinstance(x[0], str) and x[0] in
                                              ("text", "out", "if", "for", "with", "slot", "fill", "comp", "provide", "str", "var", "dot", "filled", "counter", "kw", "inject")) else [t(y) for y in x]
        return x
    q = dict(p)
    q["lib"] = [(n, {"tpl": t(cd["tpl"]), "data": [(x, t(d)) for x, d in cd["data"]]}) for n, cd in p["lib"]]
    q["page"] = t(p["page"])
    q["ctx"] = [(k, v) for k, v in p["ctx"]]
    return q


def run(tier, seed):
    import djsetup
    djsetup.setup()
    djsetup.patch_ids()
    # sub-check first: the mechanism-level model M of the renderer (Core/Mech.v, Props/C01M.v, harness/c01m.py): implementation = M on
    # every generated program, M = S where required, M refines S proved for the isolated fragment.  Its violations are C01's.
    import c01m
    rc_m = c01m.run(tier, seed, report_as="C01")
    chk = C.Check("C01", tier, seed)
    chk.add_sub("C01M")
    chk.prove()
    n = 6000 if tier == "thorough" else 700
    check_programs(chk, corpus_programs(), "corpus")
    for mode in ("isolated", "django"):
        progs = list(gen_programs(chk, n, mode, seed))
        check_programs(chk, progs, mode[:3])
        # every 3rd program again with a page made of one component tag with static / empty fills: the Component.render variant applies
        py = [pythonize(p, chk.rng) for p in progs[::3]]
        check_programs(chk, [p for p in py if R.python_variant_applicable(p) is not None], mode[:3] + "py")
    chk.assumptions = [
        "programs are drawn from the calculus of coq/Core/Syntax.v (text, variables, if/for/with, slots, fills, component tags, provide); "
        "variable names do not collide across scopes here (collisions are C03's subject); the `only` flag is exercised in isolated mode here and in django mode by C03",
        "component templates emit text without HTML elements, so no data-djc-id attributes appear; <!-- _RENDERED --> markers are stripped before comparing",
        "exception classes are compared exactly when the program has at most one potential error source; with several, deferred rendering may "
        "surface a different one first and only 'raises' is compared",
        "custom SlotFunc objects are opaque constant functions; get_context_data is a total function of the kwargs",
    ]
    rc = chk.finish(
        rule="seeded grammar-directed programs (1-4 components, nesting depth <= 3, slots named/default/required/repeated/nested in slot defaults/in loops/"
             "inside fills; tags with no body / implicit body / named / conditional / with-bound / looped dynamically-named fills; unknown and duplicate fills; "
             "unregistered components), %d per context behaviour, small ones first; each in the plain, dynamic and (where the page is one component with static "
             "fills) Component.render variants. Non-trivial = has a fill, a slot and a component nested in another component's template or fill. "
             "Distinct = distinct program text." % n,
        explanation="11 theorems of Props/C01.v re-checked; reference renderer evaluated by vm_compute inside Coq for every program and compared with the "
                    "implementation's output; variants compared with each other.",
        extra_trusted=["modelled, not verified: Django's template engine for text/variables/if/for/with; deferred rendering is abstracted to in-place rendering "
                       "(its order-composition is C14's PostRender theorem)"])
    return 1 if (rc or rc_m) else 0


def replay(path):
    import djsetup
    djsetup.setup()
    djsetup.patch_ids()
    r = json.load(open(path))
    prog = fix_prog(r["case"]["program"])
    print("mode:", prog["mode"], "ctx:", prog["ctx"])
    for n, cd in prog["lib"]:
        print("component", n, "data", cd["data"])
        print("   ", G.d_tpls(cd["tpl"]))
    print("page:", G.d_tpls(prog["page"]))
    for v, o in run_variants(prog).items():
        print("%-12s %r" % (v, o))
    return 0
