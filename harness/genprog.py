"""Component-program generator shared by C01/C03/C05/C06 (DESIGN 5.3).

A program is a plain Python structure mirroring coq/Core/Syntax.v:
  expr : ("str", s) | ("var", x) | ("dot", x, f) | ("filled", slot) | ("counter",)
  tpl  : ("text", s) | ("out", e) | ("if", e, a, b) | ("for", x, e, body) | ("with", x, e, body)
       | ("slot", name, is_default, is_required, [(k, e)], body)
       | ("fill", name_expr, dvar|None, defvar|None, body)
       | ("comp", cname, [(k, e)], only, body)
       | ("provide", key, [(k, e)], body)
  dexpr: ("kw", k) | ("str", s) | ("inject", key, field, dflt|None)
  prog : {"lib": [(cname, {"tpl": [...], "data": [(x, dexpr)]})], "page": [...], "ctx": [(x, value)], "mode": "isolated"|"django"}
  value: str | [value] | {"k": value}   (record)
"""
import common as C

# --------------------------------------------------------------------------------------------
# Coq printers
# --------------------------------------------------------------------------------------------


def q(s):
    return C.cstr(s)


def c_value(v):
    if isinstance(v, str):
        return "VStr %s" % q(v)
    if isinstance(v, list):
        return "VList [%s]" % "; ".join(c_value(x) for x in v)
    return "VRec [%s]" % "; ".join("(%s, %s)" % (q(k), c_value(x)) for k, x in v.items())


def c_expr(e):
    k = e[0]
    if k == "str":
        return "EStr %s" % q(e[1])
    if k == "var":
        return "EVar %s" % q(e[1])
    if k == "dot":
        return "EDot %s %s" % (q(e[1]), q(e[2]))
    if k == "filled":
        return "EFilled %s" % q(e[1])
    return "ECounter"


def c_kw(kw):
    return "[%s]" % "; ".join("(%s, %s)" % (q(k), c_expr(e)) for k, e in kw)


def c_opt(x):
    return "None" if x is None else "(Some %s)" % q(x)


def c_tpls(ts):
    return "[%s]" % "; ".join(c_tpl(t) for t in ts)


def c_tpl(t):
    k = t[0]
    if k == "text":
        return "TText %s" % q(t[1])
    if k == "out":
        return "TOut (%s)" % c_expr(t[1])
    if k == "if":
        return "TIf (%s) %s %s" % (c_expr(t[1]), c_tpls(t[2]), c_tpls(t[3]))
    if k == "for":
        return "TFor %s (%s) %s" % (q(t[1]), c_expr(t[2]), c_tpls(t[3]))
    if k == "with":
        return "TWith %s (%s) %s" % (q(t[1]), c_expr(t[2]), c_tpls(t[3]))
    if k == "slot":
        return "TSlot %s %s %s %s %s" % (q(t[1]), C.cbool(t[2]), C.cbool(t[3]), c_kw(t[4]), c_tpls(t[5]))
    if k == "fill":
        return "TFill (%s) %s %s %s" % (c_expr(t[1]), c_opt(t[2]), c_opt(t[3]), c_tpls(t[4]))
    if k == "comp":
        return "TComp %s %s %s %s" % (q(t[1]), c_kw(t[2]), C.cbool(t[3]), c_tpls(t[4]))
    if k == "provide":
        return "TProvide %s %s %s" % (q(t[1]), c_kw(t[2]), c_tpls(t[3]))
    raise ValueError(k)


def c_dexpr(d):
    if d[0] == "kw":
        return "DKw %s" % q(d[1])
    if d[0] == "str":
        return "DStr %s" % q(d[1])
    return "DInject %s %s %s" % (q(d[1]), q(d[2]), c_opt(d[3]))


def c_prog(p):
    lib = "; ".join("(%s, {| c_tpl := %s; c_data := [%s] |})" % (
        q(n), c_tpls(cd["tpl"]), "; ".join("(%s, %s)" % (q(x), c_dexpr(d)) for x, d in cd["data"])) for n, cd in p["lib"])
    ctx = "; ".join("(%s, %s)" % (q(x), c_value(v)) for x, v in p["ctx"])
    return "{| p_lib := [%s]; p_page := %s; p_ctx := [%s]; p_mode := %s |}" % (
        lib, c_tpls(p["page"]), ctx, "Isolated" if p["mode"] == "isolated" else "Django")


# --------------------------------------------------------------------------------------------
# Django printers
# --------------------------------------------------------------------------------------------
def d_expr(e):
    k = e[0]
    if k == "str":
        return '"%s"' % e[1]
    if k == "var":
        return e[1]
    if k == "dot":
        return "%s.%s" % (e[1], e[2])
    if k == "filled":
        return "component_vars.is_filled.%s" % e[1]
    return "forloop.counter"


def d_arg(e):
    """a tag ARGUMENT: a variable is spelled either bare (`x`) or as a quoted nested expression (`"{{ x }}"`, which django-components
    resolves to the variable's own value); which spelling is a fixed function of the name, so printing stays deterministic"""
    if e[0] == "var" and sum(map(ord, e[1])) % 3 == 0:
        return '"{{ %s }}"' % e[1]
    return d_expr(e)


def d_kw(kw):
    return "".join(" %s=%s" % (k, d_arg(e)) for k, e in kw)


def d_kw_stock(kw):
    """keyword arguments of a STOCK Django tag ({% include ... with k=v %}): a quoted string is a literal there"""
    return "".join(" %s=%s" % (k, d_expr(e)) for k, e in kw)


def d_tpls(ts, dynamic=False):
    return "".join(d_tpl(t, dynamic) for t in ts)


def d_tpl(t, dynamic=False):
    k = t[0]
    if k == "text":
        return t[1]
    if k == "out":
        return "{{ %s }}" % d_expr(t[1])
    if k == "if":
        return "{%% if %s %%}%s{%% else %%}%s{%% endif %%}" % (d_expr(t[1]), d_tpls(t[2], dynamic), d_tpls(t[3], dynamic))
    if k == "for":
        return "{%% for %s in %s %%}%s{%% endfor %%}" % (t[1], d_expr(t[2]), d_tpls(t[3], dynamic))
    if k == "with":
        return "{%% with %s=%s %%}%s{%% endwith %%}" % (t[1], d_expr(t[2]), d_tpls(t[3], dynamic))
    if k == "slot":
        return '{%% slot "%s"%s%s%s %%}%s{%% endslot %%}' % (
            t[1], " default" if t[2] else "", " required" if t[3] else "", d_kw(t[4]), d_tpls(t[5], dynamic))
    if k == "fill":
        return "{%% fill %s%s%s %%}%s{%% endfill %%}" % (
            d_arg(t[1]), ' data="%s"' % t[2] if t[2] else "", ' default="%s"' % t[3] if t[3] else "", d_tpls(t[4], dynamic))
    if k == "comp":
        head = ('"dynamic" is="%s"' % t[1]) if dynamic else '"%s"' % t[1]
        return "{%% component %s%s%s %%}%s{%% endcomponent %%}" % (head, d_kw(t[2]), " only" if t[3] else "", d_tpls(t[4], dynamic))
    if k == "provide":
        return '{%% provide "%s"%s %%}%s{%% endprovide %%}' % (t[1], d_kw(t[2]), d_tpls(t[3], dynamic))
    raise ValueError(k)


# --------------------------------------------------------------------------------------------
# Feature measurement (for the non-triviality rule and the input-distribution histogram)
# --------------------------------------------------------------------------------------------
def walk(ts, f, path=()):
    for t in ts:
        f(t, path)
        k = t[0]
        if k == "if":
            walk(t[2], f, path + (k,))
            walk(t[3], f, path + (k,))
        elif k in ("for", "with"):
            walk(t[3], f, path + (k,))
        elif k == "slot":
            walk(t[5], f, path + (k,))
        elif k == "fill":
            walk(t[4], f, path + (k,))
        elif k == "comp":
            walk(t[4], f, path + (k,))
        elif k == "provide":
            walk(t[3], f, path + (k,))


def features(p):
    fs = set()

    def visit(where):
        def f(t, path):
            k = t[0]
            if k == "slot":
                fs.add("slot")
                if t[2]:
                    fs.add("slot-default-flag")
                if t[3]:
                    fs.add("slot-required")
                if "slot" in path:
                    fs.add("slot-in-slot-default")
                if "fill" in path or ("comp" in path and where != "page"):
                    fs.add("slot-in-fill")
                if "for" in path:
                    fs.add("slot-in-loop")
                if t[4]:
                    fs.add("slot-data")
            elif k == "fill":
                fs.add("fill")
                if t[1][0] != "str":
                    fs.add("fill-dynamic-name")
                if "if" in path[path.index("comp"):] if "comp" in path else False:
                    fs.add("fill-conditional")
                if "for" in (path[len(path) - 1 - path[::-1].index("comp"):] if "comp" in path else ()):
                    fs.add("fill-looped")
                if t[2]:
                    fs.add("fill-data-alias")
                if t[3]:
                    fs.add("fill-default-alias")
            elif k == "comp":
                fs.add("comp")
                if not t[4]:
                    fs.add("comp-no-body")
                elif not any(x[0] == "fill" for x in flatten(t[4])):
                    fs.add("comp-implicit-body")
                if "comp" in path or where != "page":
                    fs.add("comp-nested")
                if t[3]:
                    fs.add("comp-only")
                if "for" in path:
                    fs.add("comp-in-loop")
            elif k == "provide":
                fs.add("provide")
                if "provide" in path:
                    fs.add("provide-nested")
                if "fill" in path:
                    fs.add("provide-in-fill")
        return f
    walk(p["page"], visit("page"))
    for n, cd in p["lib"]:
        walk(cd["tpl"], visit(n))
        if any(d[0] == "inject" for _, d in cd["data"]):
            fs.add("inject")
    return fs


def flatten(ts):
    out = []
    walk(ts, lambda t, path: out.append(t))
    return out


# --------------------------------------------------------------------------------------------
# Generator
# --------------------------------------------------------------------------------------------
class Gen:
    def __init__(self, rng, mode, ncomp=None, collide=0.0, provide=0.0, errors=0.05, depth=3, loops=0.25, only=0.12, probes=0.0):
        self.r = rng
        self.mode = mode
        self.collide = collide
        self.p_provide = provide
        self.p_err = errors
        self.maxdepth = depth
        self.p_loop = loops
        self.p_only = only
        self.p_probe = probes
        self.ncomp = ncomp if ncomp is not None else rng.randint(1, 4)
        self.uid = 0
        self.slots = {}      # cname -> [(name, is_default, is_required, has_data)]
        self.kwargs = {}     # cname -> [k]
        self.pkeys = ["pa", "pb"]
        self.nerr = 0        # number of potential error sources put into the program

    def fresh(self, prefix):
        self.uid += 1
        return "%s%d" % (prefix, self.uid)

    def varname(self, role):
        """role-specific name, or a shared one when the collision knob fires."""
        if self.r.random() < self.collide:
            return self.r.choice(["x", "y"])
        return self.fresh(role)

    def probe(self):
        """reference to a variable nobody binds (reads '' everywhere unless something leaks into scope)"""
        return ("out", ("var", self.fresh("u")))

    def text(self):
        return ("text", self.r.choice(["[", "]", "|", " ", ".", "-", "T%d" % self.r.randrange(10), " \n"]))

    def expr(self, scope):
        """scope: list of (name, kind) visible or potentially visible; kind in str|list|rec:<field>"""
        r = self.r
        strs = [n for n, k in scope if k == "str"]
        recs = [(n, k[4:]) for n, k in scope if k.startswith("rec:")]
        c = r.random()
        if c < 0.15 or not (strs or recs):
            return ("str", "L%d" % r.randrange(10))
        if recs and c < 0.35:
            n, f = r.choice(recs)
            return ("dot", n, f)
        if strs:
            return ("var", r.choice(strs))
        return ("str", "L%d" % r.randrange(10))

    def gen_lib(self):
        lib = []
        names = ["c%d" % i for i in range(self.ncomp)]
        # declare interfaces first (slots, kwargs), bottom-up so that a component can use later ones
        for n in names:
            ns = self.r.choice([0, 1, 1, 2, 2, 3])
            slots = []
            have_default = False
            for i in range(ns):
                is_def = (not have_default) and self.r.random() < 0.4
                have_default = have_default or is_def
                req = self.r.random() < 0.12
                self.nerr += 1 if req else 0
                slots.append((self.r.choice(["s%d" % i, "s%d" % i, "main", "my-slot"]) if i == 0 else "s%d" % i,
                              is_def, req, self.r.random() < 0.4))
            # unique names
            seen, us = set(), []
            for s in slots:
                if s[0] not in seen:
                    seen.add(s[0])
                    us.append(s)
            self.slots[n] = us
            self.kwargs[n] = ["a", "b"][: self.r.randint(0, 2)]
        for i, n in enumerate(names):
            data = []
            scope = []
            for k in self.kwargs[n]:
                x = self.varname("d")
                data.append((x, ("kw", k)))
                scope.append((x, "str"))
            if self.r.random() < 0.6:
                x = self.varname("d")
                data.append((x, ("str", "D%s%d" % (n, self.r.randrange(10)))))
                scope.append((x, "str"))
            if self.r.random() < self.p_provide:
                x = self.varname("d")
                key = self.r.choice(self.pkeys)
                dflt = None if self.r.random() < 0.3 else "DF%d" % self.r.randrange(10)
                self.nerr += 1 if dflt is None else 0
                data.append((x, ("inject", key, "f", dflt)))
                scope.append((x, "str"))
            # de-duplicate data keys (dict semantics: last wins) - keep as is, the model handles it
            tpl = self.gen_ctpl(n, names[i + 1:], scope, 0)
            lib.append((n, {"tpl": tpl, "data": data}))
        return lib

    def gen_ctpl(self, cname, usable, scope, depth):
        """template of component cname: text, vars, its slots (possibly repeated / nested / looped), child components."""
        r = self.r
        out = [("text", "#%s:" % cname)]
        pending = list(self.slots[cname])
        r.shuffle(pending)
        n_items = r.randint(1, 4)
        items = []
        for s in pending:
            items.append(("slotdecl", s))
        for _ in range(n_items):
            items.append((r.choice(["text", "out", "comp", "if", "with", "for", "repeat", "filled", "provide"]), None))
        r.shuffle(items)
        for kind, s in items:
            out.extend(self.gen_citem(cname, usable, scope, depth, kind, s))
        out.append(("text", ";"))
        return out

    def gen_slot(self, cname, usable, scope, depth, s):
        name, is_def, is_req, has_data = s
        data = [("k", self.expr(scope))] if has_data else []
        body = []
        if self.r.random() < 0.8:
            body.append(("text", "dflt-%s" % name))
        if depth < self.maxdepth and self.r.random() < 0.35:
            # nested content inside slot default: another slot of this component, a var, or a child component
            others = [o for o in self.slots[cname] if o[0] != name]
            c = self.r.random()
            if others and c < 0.5:
                body.extend(self.gen_slot(cname, usable, scope, depth + 1, self.r.choice(others)))
            elif usable and c < 0.8:
                body.extend(self.gen_comp(usable, scope, depth + 1, in_component=cname))
            else:
                body.append(("out", self.expr(scope)))
        return [("text", "("), ("slot", name, is_def, is_req, data, body), ("text", ")")]

    def gen_citem(self, cname, usable, scope, depth, kind, s):
        r = self.r
        if kind == "slotdecl":
            return self.gen_slot(cname, usable, scope, depth, s)
        if kind == "repeat" and self.slots[cname]:
            s2 = r.choice(self.slots[cname])
            # a repeated slot tag may carry DIFFERENT flags than the first tag of that name: the `default` / `required`
            # flags are per tag (flags are only ever dropped here, so "one default slot name per component" still holds)
            if r.random() < 0.4:
                s2 = (s2[0], s2[1] and r.random() < 0.3, s2[2] and r.random() < 0.5, s2[3])
            return self.gen_slot(cname, usable, scope, depth, s2)
        if kind == "text" or depth >= self.maxdepth:
            return [self.text()] if self.r.random() > self.p_probe else [("text", "^"), self.probe()]
        if kind == "out":
            return [("out", self.expr(scope))]
        if kind == "filled" and self.slots[cname]:
            nm = r.choice(self.slots[cname])[0]
            nm = r.choice([nm, "default"])
            esc = "".join(ch if (ch.isalnum() or ch == "_") else "_" for ch in nm)
            return [("text", "?"), ("out", ("filled", esc))] if r.random() < 0.5 else \
                [("if", ("filled", esc), [("text", "F+")], [("text", "F-")])]
        if kind == "comp" and usable:
            return self.gen_comp(usable, scope, depth + 1, in_component=cname)
        if kind == "if":
            return [("if", self.expr(scope), self.gen_citem(cname, usable, scope, depth + 1, r.choice(["text", "out", "repeat", "comp"]), None),
                     [self.text()] if r.random() < 0.5 else [])]
        if kind == "with":
            x = self.varname("w")
            return [("with", x, self.expr(scope),
                     self.gen_citem(cname, usable, scope + [(x, "str")], depth + 1, r.choice(["out", "repeat", "comp"]), None) + [("out", ("var", x))])]
        if kind == "for" and r.random() < self.p_loop * 2:
            x = self.varname("i")
            return [("for", x, ("var", "plist"),
                     self.gen_citem(cname, usable, scope + [(x, "str")], depth + 1, r.choice(["out", "repeat", "comp"]), None) + [("out", ("var", x))])]
        if kind == "provide" and r.random() < self.p_provide * 2:
            return [("provide", r.choice(self.pkeys), [("f", self.expr(scope))],
                     self.gen_citem(cname, usable, scope, depth + 1, r.choice(["repeat", "comp", "comp"]), None))]
        return [self.text()]

    def gen_comp(self, usable, scope, depth, in_component=None):
        """a component tag with kwargs and a body (none / implicit / fills)."""
        r = self.r
        cname = r.choice(usable)
        kw = [(k, self.expr(scope)) for k in self.kwargs[cname] if r.random() < 0.8]
        only = r.random() < self.p_only
        slots = self.slots[cname]
        c = r.random()
        body = []
        if c < 0.2 or depth > self.maxdepth:
            body = []
        elif c < 0.45:
            # implicit body
            body = self.gen_content(scope, depth, in_component, usable_all=usable)
            if r.random() < 0.1:
                body = [("text", " \n ")]
        else:
            body = self.gen_fills(cname, slots, scope, depth, in_component, usable)
        if self.p_err and r.random() < self.p_err:
            cname = r.choice([cname, "nosuch"])
            self.nerr += 1 if cname == "nosuch" else 0
        return [("comp", cname, kw, only, body)]

    def gen_content(self, scope, depth, in_component, usable_all, extra_scope=()):
        """content of a fill / implicit body: text, vars, nested components, slots of the enclosing component."""
        r = self.r
        out = [("text", "!")]
        sc = scope + list(extra_scope)
        for _ in range(r.randint(1, 3)):
            c = r.random()
            if c < 0.3:
                out.append(self.text() if r.random() > self.p_probe else self.probe())
            elif c < 0.6:
                out.append(("out", self.expr(sc)))
            elif c < 0.8 and depth < self.maxdepth and usable_all:
                out.extend(self.gen_comp(usable_all, sc, depth + 1, in_component))
            elif in_component and self.slots.get(in_component) and depth < self.maxdepth:
                # a slot of the enclosing component written inside a fill (pass-through slot)
                out.extend(self.gen_slot(in_component, [], sc, depth + 1, r.choice(self.slots[in_component])))
            elif r.random() < self.p_provide and depth < self.maxdepth and usable_all:
                out.append(("provide", r.choice(self.pkeys), [("f", self.expr(sc))], self.gen_comp(usable_all, sc, depth + 1, in_component)))
            else:
                out.append(self.text())
        out.append(("text", "~"))
        return out

    def gen_fills(self, cname, slots, scope, depth, in_component, usable):
        r = self.r
        fills = []
        names = [s[0] for s in slots]
        cand = list(names)
        if any(s[1] for s in slots) and r.random() < 0.3:
            cand.append("default")
        if r.random() < 0.2:
            cand.append("unknown")
        r.shuffle(cand)
        chosen = cand[: r.randint(1, max(1, len(cand)))] if cand else ["unknown"]
        if self.p_err and r.random() < self.p_err and chosen:
            chosen.append(chosen[0])   # duplicate fill -> TemplateSyntaxError
            self.nerr += 1
        if "default" in chosen and any(s[1] and s[0] in chosen for s in slots):
            self.nerr += 1   # default slot filled both explicitly and as `default` -> TemplateSyntaxError
        for nm in chosen:
            dv = self.varname("sd") if r.random() < 0.45 else None
            df = self.varname("df") if r.random() < 0.3 else None
            if dv is not None and dv == df:
                df = None if r.random() < 0.9 else df
            extra = []
            if dv:
                extra.append((dv, "rec:k"))
            style = r.random()
            if style < 0.6:
                body = self.gen_content(scope, depth, in_component, usable, extra)
                if df:
                    body.insert(1, ("out", ("var", df)))
                # (only without a default= alias: the reference binds the alias eagerly, the code lazily - they agree when the alias is printed)
                r2 = r.random() if df is None else 1.0
                if r2 < 0.07:
                    body = []                      # a fill that is PROVIDED but empty: the slot renders nothing, is_filled is true
                elif r2 < 0.14:
                    body = [("text", r.choice(["static", "S+", " "]))]   # static text only (eligible for the Component.render variant)
                fills.append(("fill", ("str", nm), dv, df, body))
            elif style < 0.75:
                # conditional fill
                cond = self.expr(scope)
                body = self.gen_content(scope, depth, in_component, usable, extra)
                if df:
                    body.insert(1, ("out", ("var", df)))
                fills.append(("if", cond, [("fill", ("str", nm), dv, df, body)], []))
            elif style < 0.9:
                # fill under with: the bound variable is visible in the fill and may name it
                x = self.varname("w")
                if r.random() < 0.5:
                    body = self.gen_content(scope, depth, in_component, usable, extra + [(x, "str")])
                    if df:
                        body.insert(1, ("out", ("var", df)))
                    fills.append(("with", x, self.expr(scope), [("fill", ("str", nm), dv, df, body + [("out", ("var", x))])]))
                else:
                    body = self.gen_content(scope, depth, in_component, usable, extra + [(x, "str")])
                    if df:
                        body.insert(1, ("out", ("var", df)))
                    fills.append(("with", x, ("str", nm), [("fill", ("var", x), dv, df, body)]))
            else:
                # looped, dynamically named fills: one per element of `snames` (slot names of this program)
                x = self.varname("i")
                body = self.gen_content(scope, depth, in_component, usable, extra + [(x, "str")])
                if df:
                    body.insert(1, ("out", ("var", df)))
                tail = [("out", ("counter",))] if self.mode == "isolated" else []
                fills.append(("for", x, ("var", "snames"), [("fill", ("var", x), dv, df, body + tail)]))
                break
        out = []
        for f in fills:
            out.append(f)
            if r.random() < 0.3:
                out.append(("text", r.choice([" ", "\n", " \n "])))
        if self.p_err and r.random() < self.p_err:
            out.append(("text", "stray"))   # text beside fills -> TemplateSyntaxError
            self.nerr += 1
        return out

    def gen_page(self, lib_names, scope):
        r = self.r
        out = [("text", "PAGE:")]
        for _ in range(r.randint(1, 3)):
            c = r.random()
            if c < 0.55:
                out.extend(self.gen_comp(lib_names, scope, 1))
            elif c < 0.65:
                out.append(("out", self.expr(scope)))
            elif c < 0.75:
                x = self.varname("w")
                out.append(("with", x, self.expr(scope), self.gen_comp(lib_names, scope + [(x, "str")], 1)))
            elif c < 0.75 + self.p_loop:
                x = self.varname("i")
                out.append(("for", x, ("var", "plist"), self.gen_comp(lib_names, scope + [(x, "str")], 1) + [("out", ("counter",))]))
            elif r.random() < self.p_provide * 2:
                inner = self.gen_comp(lib_names, scope, 1)
                if r.random() < 0.5:
                    inner = inner + [self.text()] + self.gen_comp(lib_names, scope, 1)
                if r.random() < 0.3:
                    inner = [("provide", r.choice(self.pkeys), [("f", self.expr(scope))], inner)]
                out.append(("provide", r.choice(self.pkeys), [("f", self.expr(scope))], inner))
            else:
                out.append(self.text())
        out.append(("text", ":END"))
        return out

    def program(self):
        lib = self.gen_lib()
        names = [n for n, _ in lib]
        pv = []
        scope = []
        for i in range(self.r.randint(1, 3)):
            x = self.varname("p")
            pv.append((x, "P%d" % i))
            scope.append((x, "str"))
        ctx = pv + [("plist", ["I1", "I2"][: self.r.randint(0, 2)]),
                    ("snames", sorted({s[0] for n in names for s in self.slots[n]})[: self.r.randint(1, 3)])]
        # ctx keys must be unique for Context(dict)
        seen, uctx = set(), []
        for k, v in ctx:
            if k not in seen:
                seen.add(k)
                uctx.append((k, v))
        page = self.gen_page(names, scope)
        return {"lib": lib, "page": page, "ctx": uctx, "mode": self.mode, "nerr": self.nerr}


# --------------------------------------------------------------------------------------------
# Shrinking (greedy deletion of nodes while the failure persists)
# --------------------------------------------------------------------------------------------
BODY_IDX = {"if": (2, 3), "for": (3,), "with": (3,), "slot": (5,), "fill": (4,), "comp": (4,), "provide": (3,)}


def _variants_list(ts):
    """all lists obtained from ts by deleting one node somewhere, or replacing a node by its body"""
    for i, t in enumerate(ts):
        yield ts[:i] + ts[i + 1:]
        for bi in BODY_IDX.get(t[0], ()):
            if t[0] in ("if", "for", "with", "provide"):
                yield ts[:i] + list(t[bi]) + ts[i + 1:]
            for sub in _variants_list(list(t[bi])):
                yield ts[:i] + [t[:bi] + (sub,) + t[bi + 1:]] + ts[i + 1:]
        if t[0] == "comp" and t[2]:
            yield ts[:i] + [t[:2] + ([],) + t[3:]] + ts[i + 1:]
        if t[0] == "slot" and t[4]:
            yield ts[:i] + [t[:4] + ([],) + t[5:]] + ts[i + 1:]


def shrink_prog(prog, still_fails, budget=400):
    cur = prog
    changed = True
    while changed and budget > 0:
        changed = False
        cands = []
        for v in _variants_list(list(cur["page"])):
            cands.append(dict(cur, page=v))
        for li, (n, cd) in enumerate(cur["lib"]):
            for v in _variants_list(list(cd["tpl"])):
                cands.append(dict(cur, lib=cur["lib"][:li] + [(n, dict(cd, tpl=v))] + cur["lib"][li + 1:]))
            if cd["data"]:
                for di in range(len(cd["data"])):
                    cands.append(dict(cur, lib=cur["lib"][:li] + [(n, dict(cd, data=cd["data"][:di] + cd["data"][di + 1:]))] + cur["lib"][li + 1:]))
            cands.append(dict(cur, lib=cur["lib"][:li] + cur["lib"][li + 1:]))
        for c in cands:
            budget -= 1
            if budget <= 0:
                break
            try:
                if still_fails(c):
                    cur = c
                    changed = True
                    break
            except Exception:
                pass
    return cur


# --------------------------------------------------------------------------------------------
# Name collisions: merge two binders of a program whose names are all distinct
# --------------------------------------------------------------------------------------------
ROLE_PREFIXES = ("sd", "df", "p", "d", "w", "i", "u")


def role_of(name):
    for pre in ROLE_PREFIXES:
        if name.startswith(pre) and name[len(pre):].isdigit():
            return pre
    return None


def names_of(prog):
    """all generated variable names of the program with their role"""
    found = {}

    def ex(e):
        if e[0] in ("var", "dot") and role_of(e[1]):
            found[e[1]] = role_of(e[1])

    def f(t, path):
        k = t[0]
        if k == "out":
            ex(t[1])
        elif k == "if":
            ex(t[1])
        elif k in ("for", "with"):
            if role_of(t[1]):
                found[t[1]] = role_of(t[1])
            ex(t[2])
        elif k == "slot":
            for _, e in t[4]:
                ex(e)
        elif k == "fill":
            ex(t[1])
            for a in (t[2], t[3]):
                if a and role_of(a):
                    found[a] = role_of(a)
        elif k in ("comp", "provide"):
            for _, e in t[2]:
                ex(e)
    walk(prog["page"], f)
    for n, cd in prog["lib"]:
        walk(cd["tpl"], f)
        for x, d in cd["data"]:
            if role_of(x):
                found[x] = role_of(x)
    for k, _ in prog["ctx"]:
        if role_of(k):
            found[k] = role_of(k)
    return found


def rename(prog, old, new):
    def rn(x):
        return new if x == old else x

    def ex(e):
        if e[0] == "var":
            return ("var", rn(e[1]))
        if e[0] == "dot":
            return ("dot", rn(e[1]), e[2])
        return e

    def kw(l):
        return [(k, ex(e)) for k, e in l]

    def ts(l):
        return [t1(t) for t in l]

    def t1(t):
        k = t[0]
        if k == "out":
            return ("out", ex(t[1]))
        if k == "if":
            return ("if", ex(t[1]), ts(t[2]), ts(t[3]))
        if k in ("for", "with"):
            return (k, rn(t[1]), ex(t[2]), ts(t[3]))
        if k == "slot":
            return ("slot", t[1], t[2], t[3], kw(t[4]), ts(t[5]))
        if k == "fill":
            return ("fill", ex(t[1]), rn(t[2]) if t[2] else None, rn(t[3]) if t[3] else None, ts(t[4]))
        if k == "comp":
            return ("comp", t[1], kw(t[2]), t[3], ts(t[4]))
        if k == "provide":
            return ("provide", t[1], kw(t[2]), ts(t[3]))
        return t
    q = dict(prog)
    q["page"] = ts(prog["page"])
    q["lib"] = [(n, {"tpl": ts(cd["tpl"]), "data": [(rn(x), d) for x, d in cd["data"]]}) for n, cd in prog["lib"]]
    q["ctx"] = [(rn(k), v) for k, v in prog["ctx"]]
    return q
