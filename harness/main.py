import argparse
import importlib
import os
import sys
import traceback

sys.path.insert(0, os.path.dirname(os.path.abspath(__file__)))


def main():
    ap = argparse.ArgumentParser()
    ap.add_argument("prop")
    ap.add_argument("--tier", default=os.environ.get("VERIF_TIER", "quick"), choices=["quick", "thorough"])
    ap.add_argument("--replay", default=None)
    ap.add_argument("--seed", type=int, default=int(os.environ.get("VERIF_SEED", "0")))
    a = ap.parse_args()
    mod = importlib.import_module(a.prop.lower())
    try:
        if a.replay:
            rc = mod.replay(a.replay)
        else:
            rc = mod.run(a.tier, a.seed)
    except SystemExit:
        raise
    except BaseException:
        traceback.print_exc()
        print("HARNESS-ERROR property=%s" % a.prop)
        sys.exit(2)
    sys.exit(rc)


main()
