"""Deterministic thread scheduler for property C07 (hook-free: nothing in /repo is instrumented).

Mechanism: `sys.settrace` (installed by every scheduled thread on itself) line events + one baton.  Only the thread that holds the
baton runs.  A thread can lose the baton ONLY when it is about to execute an *anchor statement* - a source
statement of /repo/src/django_components that reads or writes process-global state of the library.  Anchor
statements are located in the CURRENT source by (file, enclosing function, statement text) through `ast`, never
by line number.

Fine mode (`fine=True`): every source line of the files that contain anchors is a switch point (recorded as "_"); used
for seeded random exploration judged by the direct property oracle only (local lines commute with other threads' actions,
so on code whose shared accesses are all anchors this adds no behaviours; it exists to expose NEW unanchored sharing).

Line sweep (`fine=True, fine_files=package_files()`): every executed source line of the WHOLE django_components package is a
step; `[(A, n), (B, huge), (A, huge)]` parks A before its (n+1)-th line, runs B to completion and resumes A - a single
pre-emption at line granularity anywhere in the library, also at lines that touch shared state the model does not know.

Mixed granularity (`fine=True, line_only={files}`): anchors are steps everywhere, plain lines are steps only in the given
files (used for the id generator util/nanoid.py + util/misc.py, which runs un-mocked in the "realid" families).

Schedule semantics (the Gallina model `Conc.Model.run` has the same): a schedule is a list of thread names.
Each element allows the named thread to execute ONE anchor-step: the anchor statement it is waiting at plus
everything after it up to (not including) its next anchor statement.  Elements naming a finished thread are
skipped.  When the list is exhausted the unfinished threads are run to completion in thread-index order.
The code a thread runs before its first anchor touches no modelled global state; it runs when the thread is
first given the baton.

`run_schedule` returns per-thread outcomes, the executed trace [(thread, anchor, detail)] (its projection on the
thread names is the complete schedule that was actually executed - this is what is handed to the model), and a
watchdog flag.  The watchdog aborts a run in which no thread made progress for `timeout` seconds (a thread
blocked on something the scheduler does not control) and reports it instead of hanging.
"""
import ast
import os
import sys
import threading
import time

REPO = os.environ.get("VERIF_REPO", "/repo")
SRC = os.path.join(REPO, "src", "django_components")


class AnchorError(Exception):
    """An anchor statement of the model was not found (or is ambiguous) in the current source."""


class SchedAbort(BaseException):
    """Raised inside scheduled threads when the watchdog gives up."""


def _norm(s):
    return " ".join(s.split())


class Anchor:
    """name: label shared with the model.  file: path relative to src/django_components.  func: name of the
    innermost enclosing function.  text: whitespace-normalised first source line of the statement (exact match) or,
    with prefix=True, a prefix of it.  detail: optional expression text evaluated in the frame (diagnostics)."""

    def __init__(self, name, file, func, text, prefix=False, detail=None, nth=None):
        self.name, self.file, self.func, self.text, self.prefix, self.detail = name, file, func, _norm(text), prefix, detail
        self.nth = nth                 # when the same statement text occurs several times in the function: which one (0-based)
        self.lineno = None
        self.is_for = False
        self.body_last = None


def _stmts_with_func(tree):
    """Yield (statement, innermost enclosing function name) for every statement."""
    def walk(node, fn):
        for child in ast.iter_child_nodes(node):
            if isinstance(child, (ast.FunctionDef, ast.AsyncFunctionDef)):
                yield child, fn
                yield from walk(child, child.name)
            elif isinstance(child, ast.stmt):
                yield child, fn
                yield from walk(child, fn)
            else:
                yield from walk(child, fn)
    yield from walk(tree, None)


def locate(anchors, src_root=None):
    """Fill in .lineno of every anchor from the current source; raise AnchorError if one is missing/ambiguous."""
    src_root = src_root or SRC
    by_file = {}
    for a in anchors:
        by_file.setdefault(a.file, []).append(a)
    table = {}
    problems = []
    for rel, lst in by_file.items():
        path = os.path.join(src_root, rel)
        source = open(path).read()
        lines = source.split("\n")
        tree = ast.parse(source)
        stmts = list(_stmts_with_func(tree))
        for a in lst:
            hits = []
            for st, fn in stmts:
                if fn != a.func:
                    continue
                first = _norm(lines[st.lineno - 1])
                if (first.startswith(a.text) if a.prefix else first == a.text):
                    hits.append(st)
            hits.sort(key=lambda h: h.lineno)
            if a.nth is not None:
                same = [b for b in lst if b.func == a.func and b.text == a.text]
                if len(hits) != len(same):
                    problems.append("%s: %s::%s %r matched %d statements, expected %d" % (a.name, rel, a.func, a.text, len(hits), len(same)))
                    continue
                hits = [hits[a.nth]]
            if len(hits) != 1:
                problems.append("%s: %s::%s %r matched %d statements" % (a.name, rel, a.func, a.text, len(hits)))
                continue
            st = hits[0]
            a.lineno = st.lineno
            a.is_for = isinstance(st, (ast.For, ast.While))
            if a.is_for:
                a.body_last = max(getattr(n, "end_lineno", st.lineno) for n in ast.walk(st))
            key = (os.path.realpath(path), st.lineno)
            if key in table:
                problems.append("%s and %s share a line" % (a.name, table[key].name))
            table[key] = a
    if problems:
        raise AnchorError("; ".join(problems))
    return table


class _Fine:
    """pseudo anchor: any other source line of the traced files (fine-grained exploration mode)"""
    name, detail, is_for = "_", None, False


FINE = _Fine()


class Scheduler:
    def __init__(self, table, names, schedule, timeout=20.0, on_hit=None, fine=False, fine_files=None, locs=False, line_only=None):
        self.table = table
        self.files = {k[0] for k in table}
        if fine and fine_files:
            self.files = self.files | set(fine_files)      # line sweep: every line of these files is a step
        # line_only: plain lines are steps ONLY in these files (anchors are steps everywhere) - mixed granularity
        self.line_only = set(line_only) if line_only else None
        if fine and self.line_only:
            self.files = self.files | self.line_only
        self.locs = locs               # fine mode: record "file:line" of every plain line (to enumerate source lines)
        self.names = list(names)
        # the schedule is kept as [thread, count] segments (a flat list of names is accepted too)
        self.sched = []
        for x in schedule:
            t, k = (x, 1) if isinstance(x, str) else x
            if k <= 0:
                continue
            if self.sched and self.sched[-1][0] == t:
                self.sched[-1][1] += k
            else:
                self.sched.append([t, k])
        self.pos = 0
        self.cv = threading.Condition()
        self.baton = None
        self.done = set()
        self.trace = []                # (thread, anchor name, detail)
        self.timeout = timeout
        self.abort = False
        self.last_progress = time.time()
        self.in_loop = {}              # (thread, frame id, lineno) -> True while inside that loop
        self.on_hit = on_hit
        self.fine = fine               # True: EVERY line of the traced files is a switch point (no model prediction then)

    # -- who runs next -------------------------------------------------------------------------
    def _next_runner(self):
        while self.pos < len(self.sched) and (self.sched[self.pos][0] in self.done or self.sched[self.pos][1] <= 0):
            self.pos += 1
        if self.pos < len(self.sched):
            return self.sched[self.pos][0]
        for n in self.names:
            if n not in self.done:
                return n
        return None

    def _wait_for_baton(self, me):
        while self.baton != me:
            if self.abort:
                raise SchedAbort()
            self.cv.wait(0.05)
            if time.time() - self.last_progress > self.timeout:
                self.abort = True
                self.cv.notify_all()
                raise SchedAbort()

    def at_anchor(self, me, anchor, detail):
        with self.cv:
            while True:
                if self.abort:
                    raise SchedAbort()
                r = self._next_runner()
                if r == me:
                    if self.pos < len(self.sched):
                        self.sched[self.pos][1] -= 1
                    self.trace.append((me, anchor.name, detail))
                    self.last_progress = time.time()
                    return
                self.baton = r
                self.cv.notify_all()
                self._wait_for_baton(me)

    # -- tracing -------------------------------------------------------------------------------
    def _tracer(self, me):
        table, files = self.table, self.files
        real = {}

        def local(frame, event, arg):
            if event == "line":
                fn = frame.f_code.co_filename
                rp = real.get(fn)
                if rp is None:
                    rp = real[fn] = os.path.realpath(fn)
                a = table.get((rp, frame.f_lineno))
                if a is not None:
                    if a.is_for:
                        # a loop header gets a line event per iteration; only entering the loop is the anchor
                        prev = self._prev.get((me, id(frame)))
                        if prev is not None and a.lineno < prev <= a.body_last:
                            self._prev[(me, id(frame))] = frame.f_lineno
                            return local
                    d = None
                    if a.detail:
                        try:
                            d = str(eval(a.detail, frame.f_globals, frame.f_locals))
                        except Exception as e:  # noqa
                            d = "?" + type(e).__name__
                    self.at_anchor(me, a, d)
                elif self.fine and (self.line_only is None or rp in self.line_only):
                    self.at_anchor(me, FINE, "%s:%d" % (rp, frame.f_lineno) if self.locs else None)
                self._prev[(me, id(frame))] = frame.f_lineno
            elif event == "return":
                self._prev.pop((me, id(frame)), None)
            return local

        def glob(frame, event, arg):
            fn = frame.f_code.co_filename
            rp = real.get(fn)
            if rp is None:
                rp = real[fn] = os.path.realpath(fn)
            if rp in files:
                return local
            return None
        return glob

    def _thread_main(self, me, fn, out):
        try:
            with self.cv:
                self._wait_for_baton(me)
            sys.settrace(self._tracer(me))
            try:
                out[me] = ("ok", fn())
            except SchedAbort:
                out[me] = ("abort", None)
            except Exception as e:  # noqa
                out[me] = ("exc", e)
            finally:
                sys.settrace(None)
        except SchedAbort:
            out[me] = ("abort", None)
        finally:
            with self.cv:
                self.done.add(me)
                self.last_progress = time.time()
                self.baton = self._next_runner()
                self.cv.notify_all()

    def run(self, tasks):
        """tasks: dict name -> callable.  Returns (out, trace, aborted)."""
        self._prev = {}
        out = {}
        threads = [threading.Thread(target=self._thread_main, args=(n, tasks[n], out), name="djc-" + n, daemon=True)
                   for n in self.names]
        for t in threads:
            t.start()
        with self.cv:
            self.last_progress = time.time()
            self.baton = self._next_runner()
            self.cv.notify_all()
        deadline = time.time() + self.timeout * 3 + 5
        for t in threads:
            t.join(max(0.1, deadline - time.time()))
        hung = [t.name for t in threads if t.is_alive()]
        if hung:
            with self.cv:
                self.abort = True
                self.cv.notify_all()
            for t in threads:
                t.join(2)
        return out, list(self.trace), bool(self.abort or hung)


def run_schedule(table, tasks, names, schedule, timeout=20.0, fine=False, fine_files=None, locs=False, line_only=None):
    s = Scheduler(table, names, schedule, timeout=timeout, fine=fine, fine_files=fine_files, locs=locs, line_only=line_only)
    return s.run(tasks)


def package_files(root=None):
    """real paths of every source file of the django_components package (line sweep: each of their lines is a step)."""
    root = root or SRC
    out = set()
    for d, _, fs in os.walk(root):
        for f in fs:
            if f.endswith(".py"):
                out.add(os.path.realpath(os.path.join(d, f)))
    return out


def run_solo(table, name, fn, timeout=20.0):
    """One task alone, traced the same way (gives the solo result and its anchor trace)."""
    out, trace, aborted = run_schedule(table, {name: fn}, [name], [], timeout=timeout)
    return out.get(name), trace, aborted


def expand(segments):
    """[(thread, k), ...] -> flat schedule list."""
    out = []
    for t, k in segments:
        out.extend([t] * k)
    return out


def compress(names_seq):
    segs = []
    for t in names_seq:
        if segs and segs[-1][0] == t:
            segs[-1][1] += 1
        else:
            segs.append([t, 1])
    return [(t, k) for t, k in segs]
