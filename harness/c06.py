"""C06 - a finished or failed render leaves nothing behind.

Model: coq/Fault/Model.v   Theorems: coq/Props/C06.v (proofs in coq/Fault/Proofs.v)

Fault enumeration on the implementation: for every generated program (genprog.py, decorated with callback
points / element wrappers / discarded regions by c06_util.decorate) a fault-free run counts the user-code
callback invocations N and yields the render tree; then N runs in which invocation i raises a custom exception
(argument variants rotate: str, two-line str, int, none, tuple, None).  Every run is judged by the direct
oracle (tables empty, stacks restored, same exception object with the component path prefixed, sentinel objects
dead, follow-up reference render unchanged) and compared with the model evaluated inside Coq (outcome, component
path, message lines, residue of every table as a set of allocation ranks, metadata stacks, render_context
growth).  A history per program (renders with and without faults, tables never cleared) is compared with the
model's `run_seq`.  GC reachability and object-count growth are harness-only observations (labelled so in the
evidence): the theorems speak about the tables and stacks.
"""
import gc
import json
import multiprocessing
import os
import random

import common as C
import c06_util as U
import genprog as G

IMPORTS = "From DJC Require Import Lib.Base Fault.Model."
CORPUS = os.path.join(C.VERIF, "corpus", "C06")
VARIANTS = ["str", "int", "none", "tuple", "str2", "nonearg"]

# the reference program rendered after every failed render (its output must equal its solo output)
REF = {
    "lib": [
        ("c06ra", {"tpl": [("text", "<div>A:"), ("provide", "pa", [("f", ("var", "d1"))],
                                                  [("comp", "c06rb", [("a", ("var", "d1"))], False,
                                                    [("fill", ("str", "s0"), None, None, [("text", "fill-"), ("out", ("var", "d1"))])]),
                                                   ("comp", "c06rb", [("a", ("str", "L2"))], False, [])]),
                           ("text", "</div>")],
                   "data": [("d1", ("kw", "a"))]}),
        ("c06rb", {"tpl": [("text", "<i>B:"), ("out", ("var", "d1")), ("out", ("var", "d2")), ("text", "("),
                           ("slot", "s0", True, False, [], [("text", "dflt")]), ("text", ")</i>")],
                   "data": [("d1", ("kw", "a")), ("d2", ("inject", "pa", "f", "DF"))]}),
    ],
    "page": [("text", "REF:"), ("provide", "pb", [("f", ("var", "p1"))], [("comp", "c06ra", [("a", ("var", "p1"))], False, [])]),
             ("comp", "c06rb", [("a", ("str", "L1"))], False, [("text", "impl")]), ("text", ":END")],
    "ctx": [("p1", "P0")],
}
_ref_state = {}


def ref_render(mode):
    """render the reference program (tracing off); returns canonical output or ('err', class)"""
    import core_run as R
    import djsetup
    from django.template import Context, Template
    if "built" not in _ref_state:
        R.build(dict(REF, mode=mode))
        _ref_state["built"] = True
        _ref_state["tpl"] = Template(G.d_tpls(REF["page"]))
    U.TR.enabled = False
    try:
        with djsetup.components_settings(context_behavior=mode):
            try:
                return U.canon(_ref_state["tpl"].render(Context(dict(REF["ctx"]))))
            except Exception as e:  # noqa
                return "ERR:" + type(e).__name__
    finally:
        U.TR.enabled = True


def ref_solo(mode):
    if ("solo", mode) not in _ref_state:
        saved = [dict(t) if isinstance(t, dict) else set(t) for t in U.tables()]
        U.clear_tables()
        _ref_state[("solo", mode)] = ref_render(mode)
        for t, s in zip(U.tables(), saved):
            t.update(s)
    return _ref_state[("solo", mode)]


# ----------------------------------------------------------------------------------------------
# Input classes / triggers
# ----------------------------------------------------------------------------------------------
def input_class(prog, obs, failed_before=False):
    if obs["res"] != "ok" or failed_before:
        return "failed-render"
    if U.has_drop_with_component(prog):
        return "output-discarded"
    return "finished-render"


def trigger(prog, obs, what, failed_before=False):
    if what == "message" and obs.get("variant") == "str2":
        return "c06-multiline-message"
    return "c06-%s-%s" % (input_class(prog, obs, failed_before), what)


# ----------------------------------------------------------------------------------------------
# One program (runs in a worker process)
# ----------------------------------------------------------------------------------------------
def describe(prog, kind):
    return {"mode": prog["mode"], "kind": kind, "page": G.d_tpls(prog["page"], kind == "dynamic"),
            "components": {n: {"template": G.d_tpls(cd["tpl"], kind == "dynamic"), "data": cd["data"]} for n, cd in prog["lib"]},
            "ctx": prog["ctx"]}


def process(prog, kind, pidx, seed, growth=False, with_model=True, targets=None, max_faults=70):
    """all runs of one program in one way of rendering it; returns a result dict"""
    rng = random.Random("c06-%s-%s-%s" % (seed, pidx, kind))
    res = {"pidx": pidx, "kind": kind, "failures": [], "disagree": [], "term": None, "seq_term": None,
           "n": 0, "runs": 0, "feat": None, "natural": False, "growth": [], "nontrivial": 0, "fault_kinds": {}}
    mode = prog["mode"]
    solo = ref_solo(mode)

    def judge(obs, extra=None, failed_before=False):
        for what, detail in U.oracle(obs):
            res["failures"].append((trigger(prog, obs, what, failed_before), what, {
                "program": prog, "kind": kind, "target": obs["target"], "variant": obs["variant"], "detail": detail,
                "observed": U.strip_obs(obs), "source": describe(prog, kind), **(extra or {})}))

    with U.Job(prog, kind) as job:
        U.clear_tables()
        dry = U.run_once(job, None, "str")
        res["runs"] += 1
        judge(dry)
        if dry["res"] == "timeout":
            res["timeouts"] = 1
            U.clear_tables()
            return res
        if dry["res"] != "ok":
            # the program fails by itself (required slot unfilled, inject without provider, ...): a failed render
            res["natural"] = True
            after = ref_render(mode)
            if after != solo:
                res["failures"].append((trigger(prog, dry, "later-render"), "later-render",
                                        {"program": prog, "kind": kind, "target": None, "reference": after, "solo": solo}))
            U.clear_tables()
            return res
        n = dry["npoints"]
        res["n"] = n
        labels = U.Labels()
        tree = None
        if with_model:
            try:
                tree = U.TreeBuilder(dry["events"], labels).top()
            except U.TraceError as e:
                res["disagree"].append(("trace of the fault-free run does not have the shape the model assumes: %s" % e,
                                        {"program": prog, "kind": kind, "source": describe(prog, kind)}))
        if tree is not None:
            res["feat"] = U.tree_features(tree)
        dry_events = dry["events"]
        runs = [(None, "str", dry)]
        todo = list(range(n)) if targets is None else [t for t in targets if t is not None and t < n]
        if targets is None and n > max_faults:
            # very long traces (loops): every index of the first 20 invocations, a seeded sample of the rest
            todo = sorted(set(range(20)) | set(rng.sample(range(20, n), max_faults - 20)))
        for i in todo:
            variant = VARIANTS[(i + pidx) % len(VARIANTS)]
            cls = U.FAULT_CLASSES[(i + 3 * pidx) % len(U.FAULT_CLASSES)]
            U.clear_tables()
            o = U.run_once(job, i, variant, again=True, cls=cls)
            res["runs"] += 2
            if o["res"] == "timeout":
                res["timeouts"] = res.get("timeouts", 0) + 1
                continue
            judge(o)
            after = ref_render(mode)
            if after != solo:
                res["failures"].append((trigger(prog, o, "later-render"), "later-render",
                                        {"program": prog, "kind": kind, "target": i, "variant": variant,
                                         "reference": after, "solo": solo, "source": describe(prog, kind)}))
            if o.get("again") is not None and (o["again"] != dry["out"] or not o.get("ctx_same_after_again", True)):
                res["failures"].append((trigger(prog, o, "later-render-same-context"), "later-render",
                                        {"program": prog, "kind": kind, "target": i, "variant": variant,
                                         "detail": "rendering again with the SAME Context object after the failed render differs from the fault-free render",
                                         "again": o["again"], "fault_free": dry["out"], "context_before": o.get("ctx_before"),
                                         "context_after": o.get("ctx_after"), "source": describe(prog, kind)}))
            if o["res"] == "ok":
                res["failures"].append(("c06-fault-swallowed", "exception-replaced",
                                        {"program": prog, "kind": kind, "target": i, "variant": variant,
                                         "detail": "the exception raised by callback %d did not reach the caller" % i,
                                         "source": describe(prog, kind)}))
            # where did it fire? (for the non-triviality rule: below the root)
            fk = next((e for e in reversed(o["events"]) if e[0] == "P"), None)
            depth = _depth_of_point(dry_events, i)
            res["fault_kinds"][fk[1] if fk else "?"] = res["fault_kinds"].get(fk[1] if fk else "?", 0) + 1
            if depth >= 2:
                res["nontrivial"] += 1
            res["fault_classes"] = res.get("fault_classes", {})
            res["fault_classes"][cls] = res["fault_classes"].get(cls, 0) + 1
            runs.append((i, variant, o))
        U.clear_tables()
        if tree is not None:
            res["term"] = "(%s, %s, %s)" % (
                U.c_items(tree, labels), C.cnat(n),
                C.clist(["(%s, %s, %s)" % (U.c_umsg(v, o.get("cls", "Boom")), U.c_fault(t), U.c_obs(o, labels)) for t, v, o in runs]))
            res["runs_meta"] = [(t, v) for t, v, _ in runs]
        # ---- a history: renders with and without faults, tables never cleared in between ----
        if tree is not None and n > 0 and targets is None:
            hist = [rng.choice([None, rng.randrange(n), rng.randrange(n)]) for _ in range(5)]
            U.TR.alloc = []
            items = []
            cum_meta, cum_rc, cum_cd = set(), 0, 0      # the stacks of earlier renders' objects stay as they were left
            for hi, t in enumerate(hist):
                v = VARIANTS[(hi + pidx) % len(VARIANTS)]
                o = U.run_once(job, t, v, keep_alloc=True, cls=U.FAULT_CLASSES[(hi + pidx) % len(U.FAULT_CLASSES)])
                res["runs"] += 1
                if o["res"] == "timeout":
                    res["timeouts"] = res.get("timeouts", 0) + 1
                    items = None
                    break
                judge(o, {"history": hist[: hi + 1]}, failed_before=any(x is not None for x in hist[:hi]))
                if t is None and o["res"] == "ok" and o["out"] != dry["out"]:
                    res["failures"].append((trigger(prog, o, "later-render"), "later-render",
                                            {"program": prog, "kind": kind, "history": hist[: hi + 1],
                                             "output": o["out"], "solo": dry["out"], "source": describe(prog, kind)}))
                cum_meta |= set(o["meta"])
                cum_rc += o["rc"]
                cum_cd += o.get("cd", 0)
                items.append((t, v, dict(o, meta=sorted(cum_meta), rc=cum_rc, cd=cum_cd)))
            alloc = list(U.TR.alloc)
            res["seq_term"] = None if items is None else C.clist(["(%s, %s, %s, %s)" % (U.c_items(tree, labels), U.c_umsg(v, o.get("cls", "Boom")), U.c_fault(t), U.c_obs(o, labels, alloc))
                                       for t, v, o in items])
            res["hist"] = hist
            U.clear_tables()
        # ---- harness-only: object-count growth over 50 repeats of the same render ----
        if growth and n > 0:
            for t in (None, rng.randrange(n)):
                res["growth"].append((t, growth_of(job, t)))
    return res


def _depth_of_point(events, idx):
    """component nesting depth of the idx-th callback point in the fault-free trace (1 = in a top-level component)"""
    k = -1
    open_ = []      # render ids whose renderer is running / being prepared
    for e in events:
        if e[0] == "B":
            open_.append(e[1])
        elif e[0] == "A":
            pass
        if e[0] == "P":
            k += 1
            if k == idx:
                rid = e[2]
                if e[1] in ("gcd", "inject"):
                    return len(open_) + 1
                if e[1] == "after":
                    return max(1, len(open_))
                return max(1, len(open_))
            if e[1] == "after" and open_:
                # closing item of e[2]: its renderer (and its descendants') are done
                if e[2] in open_:
                    del open_[open_.index(e[2]):]
    return 0


def growth_of(job, target, repeats=50):
    for _ in range(5):
        U.run_once(job, target, "str")
        U.clear_tables() if False else None
    gc.collect()
    n0 = len(gc.get_objects())
    for _ in range(repeats):
        U.run_once(job, target, "str")
    gc.collect()
    n1 = len(gc.get_objects())
    sizes = [len(t) for t in U.tables()]
    U.clear_tables()
    return {"delta_objects": n1 - n0, "table_sizes": sizes, "repeats": repeats}


# ----------------------------------------------------------------------------------------------
# Hand-written scenarios outside the generated calculus (direct oracle only)
# ----------------------------------------------------------------------------------------------
def scenarios(chk):
    from django.template import Context, Template
    from django_components import Component, registry
    U.TR.enabled = False
    seen = {}

    class ScLeaf(Component):
        template = "<i>{{ s }}</i>"

        def get_context_data(self, s=None, f=None):
            if f == "boom":
                raise U.Boom("x")
            if f == "base":
                raise KeyboardInterrupt()
            return {"s": s}

    class ScUpper(Component):
        template = "<div>{% filter upper %}{% component 'c06_sc_leaf' s=1 / %}{% endfilter %}{% component 'c06_sc_leaf' s=2 / %}</div>"

    class ScProv(Component):
        template = "<div>{% provide 'p' x=1 %}{% component 'c06_sc_leaf' s=1 / %}{% component 'c06_sc_leaf' s=2 f=f / %}{% endprovide %}</div>"

        def get_context_data(self, f=None):
            return {"f": f}

    class ScRe(Component):
        template = "<b>{{ s }}{% slot 'x' / %}</b>"

        def get_context_data(self, s=None):
            seen.setdefault("gcd", []).append(self.id)
            return {"s": s}

        def on_render_after(self, context, template, content):
            seen.setdefault("after", []).append(self.id)

    names = {"c06_sc_leaf": ScLeaf, "c06_sc_upper": ScUpper, "c06_sc_prov": ScProv, "c06_sc_re": ScRe}
    for n, c in names.items():
        registry.register(n, c)
    obs = {}
    try:
        import djsetup
        with djsetup.components_settings(context_behavior="django"):
            # 1. stock {% filter upper %} mangles the placeholder of a nested component: the render finishes
            U.clear_tables()
            Template("{% component 'c06_sc_upper' / %}").render(Context({}))
            if any(U.table_keys()):
                chk.fail("c06-output-discarded-residue", "tables not empty after a finished render whose child placeholder was mangled by {% filter upper %}",
                         {"scenario": "filter-upper", "tables": dict(zip(U.TABLE_NAMES, U.table_keys()))})
            chk.count("scenario-filter-upper", True, kind="scenario")
            # 2. one instance rendered again and again, failing and succeeding; re-entrant render from its own slot function
            U.clear_tables()
            inst = ScRe()
            inner = []

            def slotfn(ctx, data, ref):
                inner.append(inst.render(kwargs={"s": "in"}, slots={"x": "leaf"}, render_dependencies=False))
                return "S"
            seen.clear()
            try:
                inst.render(kwargs={"s": "out"}, slots={"x": slotfn}, render_dependencies=False)
            except Exception as e:  # noqa
                seen["raised"] = "%s: %s" % (type(e).__name__, str(e)[:200])
            ok = ("raised" not in seen and len(seen.get("gcd", [])) == 2 and len(seen.get("after", [])) == 2
                  and seen["after"][0] == seen["gcd"][1]
                  and seen["after"][1] == seen["gcd"][0] and len(inst._metadata_stack) == 0 and not any(U.table_keys()))
            if not ok:
                chk.fail("c06-finished-render-stacks", "re-entrant render of one instance: hooks saw a wrong render id / stack or tables not restored",
                         {"scenario": "re-entrant-instance", "seen": seen, "stack": len(inst._metadata_stack),
                          "tables": dict(zip(U.TABLE_NAMES, U.table_keys()))})
            chk.count("scenario-re-entrant-instance", True, kind="scenario")
            leaf = ScLeaf()
            for f in ("boom", None, "boom", None):
                try:
                    leaf.render(kwargs={"s": 1, "f": f})
                except U.Boom:
                    pass
                try:
                    leaf.id
                    outside = False
                except RuntimeError:
                    outside = True
                if len(leaf._metadata_stack) or not outside or any(U.table_keys()):
                    chk.fail("c06-failed-render-stacks", "a reused instance keeps render state after render() returned / raised",
                             {"scenario": "reused-instance", "stack": len(leaf._metadata_stack), "tables": dict(zip(U.TABLE_NAMES, U.table_keys()))})
                    break
            chk.count("scenario-reused-instance", True, kind="scenario")
            # 3. observation only (the statement is about exceptions of user code; KeyboardInterrupt is a BaseException)
            U.clear_tables()
            try:
                Template("{% component 'c06_sc_prov' f='base' / %}").render(Context({}))
            except BaseException:  # noqa
                pass
            obs["KeyboardInterrupt inside a provide body leaves"] = {n: k for n, k in zip(U.TABLE_NAMES, U.table_keys()) if k}
            U.clear_tables()
    except Exception as e:  # noqa
        import traceback
        chk.fail("c06-scenario-unexpected-exception", "a hand-written scenario raised %s" % type(e).__name__,
                 {"scenario": "see traceback", "traceback": traceback.format_exc()[-1500:]})
    finally:
        for n in names:
            registry.unregister(n)
        U.TR.enabled = True
    return obs


def _worker(args):
    import djsetup
    djsetup.setup()
    djsetup.patch_ids()
    U.TR.install()
    prog, kind, pidx, seed, growth, with_model = args
    try:
        return process(prog, kind, pidx, seed, growth=growth, with_model=with_model)
    except BaseException as e:  # noqa
        import traceback
        return {"pidx": pidx, "kind": kind, "crash": traceback.format_exc(), "failures": [], "disagree": [], "term": None,
                "seq_term": None, "n": 0, "runs": 0, "feat": None, "natural": False, "growth": [], "nontrivial": 0, "fault_kinds": {}}


# ----------------------------------------------------------------------------------------------
# Generation
# ----------------------------------------------------------------------------------------------
def gen_programs(chk, n, mode):
    out = []
    for i in range(n):
        small = i < n // 3
        g = G.Gen(chk.rng, mode, ncomp=chk.rng.randint(1, 2) if small else chk.rng.randint(2, 4), collide=0.0,
                  provide=0.45, errors=0.0, depth=2 if small else 3, loops=0.2, only=0.1 if mode == "isolated" else 0.0)
        p = g.program()
        p = U.decorate(p, chk.rng)
        out.append(p)
    return out


def fix_prog(p):
    import c01
    return c01.fix_prog(p)


def corpus_cases():
    out = []
    if os.path.isdir(CORPUS):
        for f in sorted(os.listdir(CORPUS)):
            if f.endswith(".json"):
                d = json.load(open(os.path.join(CORPUS, f)))
                d["file"] = f
                out.append(d)
    return out


# ----------------------------------------------------------------------------------------------
def run(tier, seed):
    import djsetup
    djsetup.setup()
    djsetup.patch_ids()
    U.TR.install()
    chk = C.Check("C06", tier, seed)
    chk.prove()
    thorough = tier == "thorough"
    nprog = 1500 if thorough else 170
    jobs = []
    pidx = 0
    # corpus first: every witness is a (program, kind) whose faults are all enumerated
    for d in corpus_cases():
        jobs.append((fix_prog(d["program"]), d.get("kind", "page"), pidx, seed, False, True))
        pidx += 1
    ncorpus = pidx
    import core_run as R
    for mode in ("isolated", "django"):
        for p in gen_programs(chk, nprog, mode):
            jobs.append((p, "page", pidx, seed, pidx % 25 == 0, True))
            pidx += 1
            # Component.render(context, kwargs, slots=functions) of one top-level component of the page
            single = next((dict(p, page=[t]) for t in p["page"]
                           if t[0] == "comp" and R.python_variant_applicable(dict(p, page=[t])) is not None), None)
            if single is not None and chk.rng.random() < 0.6:
                jobs.append((single, "python", pidx, seed, False, True))
                pidx += 1
            elif chk.rng.random() < 0.12:
                # the dynamic component renders its target inside get_context_data: outside the model's tree shape,
                # judged by the direct oracle only
                jobs.append((p, "dynamic", pidx, seed, False, False))
                pidx += 1
    ctx = multiprocessing.get_context("fork")
    with ctx.Pool(min(C.NCPU, 16)) as pool:
        results = pool.map(_worker, jobs, chunksize=4)
    terms, tmeta, sterms, smeta = [], [], [], []
    growth_all = []
    for (prog, kind, pi, _, _, _), r in zip(jobs, results):
        if r.get("crash"):
            raise C.HarnessError("worker crashed on program %d (%s):\n%s" % (pi, kind, r["crash"]))
        feat = r["feat"] or {}
        nontriv = r["nontrivial"] > 0
        chk.count(json.dumps([prog, kind], sort_keys=True, default=repr), nontriv,
                  kind="%s/%s/%s" % (prog["mode"], kind, "natural-failure" if r["natural"] else "faults"),
                  sample=({"mode": prog["mode"], "kind": kind, "page": G.d_tpls(prog["page"]), "callback_points": r["n"],
                           "tree": feat} if nontriv and len(G.d_tpls(prog["page"])) < 200 else None))
        chk.evaluations += r["runs"] - 1
        for k, v in feat.items():
            if v:
                chk.dist["tree:" + k] += 1
        for k, v in r["fault_kinds"].items():
            chk.dist["fault-at:" + k] += v
        for k, v in r.get("fault_classes", {}).items():
            chk.dist["fault-class:" + k] += v
        chk.dist["fault-below-root"] += r["nontrivial"]
        chk.dist["watchdog-timeouts(inconclusive)"] += r.get("timeouts", 0)
        for trig, what, rep in r["failures"]:
            chk.fail(trig, "C06 oracle '%s' failed (%s)" % (what, trig), rep)
        for what, rep in r["disagree"]:
            chk.disagree(what, rep)
        if r["term"]:
            terms.append(r["term"])
            tmeta.append((prog, kind, r.get("runs_meta")))
        if r["seq_term"]:
            sterms.append(r["seq_term"])
            smeta.append((prog, kind, r.get("hist")))
        for t, g in r["growth"]:
            growth_all.append(g["delta_objects"])
            if g["delta_objects"] > 200 or any(g["table_sizes"]):
                cls = "failed-render" if t is not None else ("output-discarded" if U.has_drop_with_component(prog) else "finished-render")
                chk.fail("c06-%s-memory-growth" % cls,
                         "object count grows over %d repeats of the same render" % g["repeats"],
                         {"program": prog, "kind": kind, "target": t, "growth": g, "source": describe(prog, kind)})
    bad = C.coq_eval_cases("C06", "tree", IMPORTS, "tree_case", "check_tree_fixed", terms, shard=24) if terms else []
    for i in bad[:10]:
        prog, kind, rm = tmeta[i]
        chk.disagree("model of the render bookkeeping != implementation (outcome / component path / message / residue) for some fault index",
                     {"program": prog, "kind": kind, "source": describe(prog, kind), "runs": rm})
    bad = C.coq_eval_cases("C06", "seq", IMPORTS, "seq_case", "check_seq_fixed", sterms, shard=60) if sterms else []
    for i in bad[:10]:
        prog, kind, hist = smeta[i]
        chk.disagree("model != implementation on a history of renders", {"program": prog, "kind": kind, "history": hist,
                                                                          "source": describe(prog, kind)})
    sc_obs = scenarios(chk)
    chk.extra["not_claimed_observations"] = sc_obs
    chk.extra["harness_only_observations"] = {
        "note": "GC reachability of sentinel objects and object-count growth are observed on the implementation only; "
                "the theorems cover the module-level tables, the metadata stacks and the render_context stack",
        "object_count_growth_over_50_repeats": {"samples": len(growth_all), "max": max(growth_all) if growth_all else None,
                                                "min": min(growth_all) if growth_all else None},
        "corpus_cases": ncorpus,
    }
    chk.assumptions = [
        "a render is abstracted to its tree of callback points, slot regions, provide bodies, discarded regions and component "
        "instances (reconstructed from the fault-free trace); what Django's template engine does between those events is not modelled",
        "the faulting callback raises, rotating per run, an instance of a user subclass of Exception / TypeError / KeyError / AttributeError / "
        "TemplateSyntaxError / ValueError or of a class with attributes and __str__ of its own (the model treats it as an opaque token); "
        "BaseException subclasses (KeyboardInterrupt) are not injected",
        "render ids are unique (the harness patches the id generator to a counter)",
        "single-threaded renders (threads are C07's subject)",
        "programs that fail by themselves (required slot unfilled, inject without provider) and the dynamic-component variant are judged "
        "by the direct oracle only",
    ]
    return chk.finish(
        rule="seeded genprog programs (1-4 components, provide/inject, slots, loops, `only`), decorated with tag/filter callback points, <b> wrappers "
             "and output-discarding regions; %d per context behaviour rendered through Template.render, plus Component.render(kwargs, slot functions) "
             "where the page is one component, plus a dynamic-component sample; per program: fault-free run, one run per callback invocation raising "
             "(argument variants rotate), a 5-step history, follow-up reference render after every failure. Non-trivial = at least one fault fired "
             "below the root component (nesting depth >= 2). Distinct = distinct (program, way of rendering)." % nprog,
        explanation="theorems of Props/C06.v re-checked; Fault.Model.run (cfg_fixed) evaluated by vm_compute inside Coq for every (tree, fault index) and "
                    "compared with outcome, err._components, message lines, the key sets of all six tables, metadata stacks and render_context growth "
                    "observed on the implementation; direct oracle evaluated on every run.",
        extra_trusted=["harness-side instrumentation: hooks on the generated Component classes, a custom tag/filter/block tag, delegating wrappers around "
                       "set_provided_context_var, managed_provide_cache, add_slot_to_error_message, set_component_attrs_for_js_and_css",
                       "modelled, not verified: CPython dict/set/deque semantics, Django's template engine, gc/weakref (observed only)"])


def replay(path):
    import djsetup
    djsetup.setup()
    djsetup.patch_ids()
    U.TR.install()
    r = json.load(open(path))
    case = r.get("case", r)
    prog = fix_prog(case["program"])
    kind = case.get("kind", "page")
    print("mode:", prog["mode"], "kind:", kind)
    for n, cd in prog["lib"]:
        print("component", n, "data", cd["data"])
        print("   ", G.d_tpls(cd["tpl"], kind == "dynamic"))
    print("page:", G.d_tpls(prog["page"], kind == "dynamic"))
    tg = case.get("target")
    with U.Job(prog, kind) as job:
        U.clear_tables()
        dry = U.run_once(job, None, "str")
        print("fault-free run:", dry["res"], "callback points:", dry["npoints"], "tables:", dry["tables"])
        U.clear_tables()
        for t in ([tg] if tg is not None else range(dry["npoints"])):
            o = U.run_once(job, t, case.get("variant") or VARIANTS[t % len(VARIANTS)])
            print("fault at %d:" % t, o["res"], o.get("components"), o.get("args"),
                  "\n    tables:", dict(zip(U.TABLE_NAMES, o["tables"])), "meta:", o["meta"], "rc:", o["rc"], "sentinels alive:", o["alive"],
                  "\n    oracle:", U.oracle(o))
            U.clear_tables()
    return 0
