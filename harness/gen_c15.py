"""Constants of /repo the C15 model is anchored to -> coq/Gen/C15.v (regenerated on every run)."""
from gen_constants import generator, coq_str_list
import common as C


@generator
def gen_C15():
    from django_components.library import PROTECTED_TAGS
    from django_components import tag_formatter as tf
    if not (isinstance(PROTECTED_TAGS, list) and all(isinstance(t, str) for t in PROTECTED_TAGS)):
        raise C.HarnessError("library.PROTECTED_TAGS: unexpected shape %r" % (PROTECTED_TAGS,))
    if not isinstance(tf.TAG_CHARS, str) or not hasattr(tf.TAG_RE, "pattern"):
        raise C.HarnessError("tag_formatter.TAG_CHARS / TAG_RE: unexpected shape")
    if not isinstance(tf.component_formatter, tf.ComponentFormatter) or not isinstance(tf.component_formatter.tag, str):
        raise C.HarnessError("tag_formatter.component_formatter: unexpected shape")
    # code points >= 128 accepted by the compiled TAG_RE as a one-character tag (Python's \w is Unicode-aware): inclusive ranges
    ranges, lo = [], None
    for c in range(128, 0x110000 + 1):
        ok = c < 0x110000 and tf.TAG_RE.match(chr(c)) is not None
        if ok and lo is None:
            lo = c
        elif not ok and lo is not None:
            ranges.append((lo, c - 1))
            lo = None
    if not (100 < len(ranges) < 5000):
        raise C.HarnessError("TAG_RE: unexpected number of accepted ranges above 127: %d" % len(ranges))
    hi = "Definition tag_ranges_hi : list (N * N) := [%s]%%N.\n" % "; ".join("(%d, %d)" % r for r in ranges)
    return (hi + "Definition protected_tags : list str := %s.\n"
            "Definition tag_chars : str := %s.\n"
            "Definition tag_re_pattern : str := %s.\n"
            "Definition tag_re_flags : N := %d%%N.\n"
            "Definition component_formatter_tag : str := %s.\n"
            % (coq_str_list(PROTECTED_TAGS), C.cstr(tf.TAG_CHARS), C.cstr(tf.TAG_RE.pattern), tf.TAG_RE.flags,
               C.cstr(tf.component_formatter.tag)))
