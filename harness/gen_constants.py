"""Translate pure data of /repo's current source into coq/Gen/<Name>.v (fail-closed).

Usage: gen_constants.py all | <name>...   Each generator is a function gen_<name>() returning Coq text.
Files are rewritten only when their content changes (so `make` re-checks dependants exactly then).
"""
import os
import sys

sys.path.insert(0, os.path.dirname(os.path.abspath(__file__)))
import common as C  # noqa: E402

GENERATORS = {}


def generator(f):
    GENERATORS[f.__name__[4:]] = f
    return f


def coq_str_list(xs):
    return "[" + "; ".join(C.cstr(x) for x in xs) + "]"


HEADER = "(* GENERATED from /repo by harness/gen_constants.py - do not edit *)\nFrom DJC Require Import Lib.Base.\n"


def generate(names):
    import djsetup
    djsetup.setup()
    # import the property-specific generators (each registers itself)
    for f in sorted(os.listdir(os.path.dirname(os.path.abspath(__file__)))):
        if f.startswith("gen_") and f.endswith(".py") and f != "gen_constants.py":
            __import__(f[:-3])
    out = {}
    for n in (sorted(GENERATORS) if names == ["all"] else names):
        txt = HEADER + GENERATORS[n]()
        C.write_if_changed(os.path.join(C.COQ, "Gen", n + ".v"), txt)
        out[n] = txt
    return out


if __name__ == "__main__":
    import gen_constants  # the registry lives in the module named gen_constants, not in __main__
    gen_constants.generate(sys.argv[1:] or ["all"])
