"""C15 - registries behave as dictionaries and keep the tag library consistent.

Model: coq/Registry/Model.v   Theorems: coq/Props/C15.v
Correspondence: histories of register / unregister / clear / get / all calls on one or two ComponentRegistry
objects, each on its own private django.template.Library (with pre-existing tags, with / without
mark_protected_tags), for the default, the shorthand and a user-defined tag formatter.  After every call the
result (value or exception class), registry.all() and the Library's tag table are observed and compared
 (a) with an independent plain-dict reference + the tag/protection predicates of the property (direct oracle),
 (b) with the Coq model evaluated by vm_compute (check_reg).
Histories on two registries that SHARE one Library are outside the claimed domain: they are compared with
the model as a diagnostic only (never an alarm).
"""
import glob
import itertools
import json
import os

import common as C
from common import cN, clist, cstr, cbool

IMPORTS = "From DJC Require Import Lib.Base Registry.Model."
CASE_TYPE = ("list (list str * list str) * list (nat * fmtspec) * list wop * list (out * list (str * bool)) "
             "* list (list (str * (N * N))) * list (list (str * bool))")

# the three classes of the quantifier: (code of _class_hash, object identity).  K1 and K1b are two distinct
# class objects with the same import path, hence the same _class_hash.
CLASS_CODES = [(0, 0), (1, 1), (1, 2)]
BUILTINS = ["slot", "fill", "component"]           # tags already in the private Library when the registry gets it
ERR = {"AlreadyRegistered": "EAlreadyRegistered", "NotRegistered": "ENotRegistered", "ValueError": "EValueError",
       "TagProtectedError": "ETagProtected", "KeyError": "EKeyError"}

_state = {}


def classes():
    if "classes" not in _state:
        from django_components import Component
        k0 = type("C15K0", (Component,), {"template": "", "__module__": "verif_c15_mod"})
        k1 = type("C15K1", (Component,), {"template": "", "__module__": "verif_c15_mod"})
        k1b = type("C15K1", (Component,), {"template": "", "__module__": "verif_c15_mod"})
        assert k1._class_hash == k1b._class_hash != k0._class_hash and k1 is not k1b
        _state["classes"] = [k0, k1, k1b]
    return _state["classes"]


def cls_index(obj):
    for i, k in enumerate(classes()):
        if obj is k:
            return i
    return None


def formatter_for(spec):
    """spec: ('component', how) | ('shorthand', how) | ('prefix', p) | ('badcomponent', tag) -> RegistrySettings or None"""
    from django_components import RegistrySettings
    from django_components import tag_formatter as tf
    kind, arg = spec
    if kind == "component":
        if arg == "default":
            return None                              # COMPONENTS.tag_formatter default, resolved through import_string
        return RegistrySettings(tag_formatter=tf.component_formatter)
    if kind == "shorthand":
        if arg == "string":
            return RegistrySettings(tag_formatter="django_components.component_shorthand_formatter")
        return RegistrySettings(tag_formatter=tf.component_shorthand_formatter)
    if kind == "badcomponent":
        return RegistrySettings(tag_formatter=tf.ComponentFormatter(arg))
    if kind == "prefix":
        class PrefixFormatter(tf.TagFormatterABC):
            def start_tag(self, name):
                return arg + name

            def end_tag(self, name):
                return "end" + arg + name

            def parse(self, tokens):
                tokens = [*tokens]
                name = tokens.pop(0)
                return tf.TagResult(name[len(arg):], tokens)
        return RegistrySettings(tag_formatter=PrefixFormatter())
    raise ValueError(spec)


def fmt_term(spec):
    kind, arg = spec
    if kind == "component":
        from django_components import tag_formatter as tf
        return "FComponent %s" % istr(tf.component_formatter.tag)
    if kind == "badcomponent":
        return "FComponent %s" % istr(arg)
    if kind == "shorthand":
        return "FShorthand"
    return "FPrefix %s" % istr(arg)


def prot_list(prot):
    from django_components.library import PROTECTED_TAGS
    if prot is None:
        return []
    if prot == "default":
        return list(PROTECTED_TAGS)
    return list(prot)


class World:
    def __init__(self, libspecs, regspecs):
        from django.template import Library
        from django_components import ComponentRegistry
        from django_components.library import mark_protected_tags
        import django_components.component_registry as cr
        self._cr = cr
        self._n0 = len(cr.all_registries)
        self.libs, self.orig = [], []
        for builtins, prot in libspecs:
            lib = Library()
            orig = {}
            for t in builtins:
                def fn(parser, token, _t=t):
                    raise AssertionError("built-in tag %s is never compiled here" % _t)
                lib.tag(t, fn)
                orig[t] = fn
            if prot is not None:
                mark_protected_tags(lib, None if prot == "default" else list(prot))
            self.libs.append(lib)
            self.orig.append(orig)
        self.regs = [ComponentRegistry(library=self.libs[li], settings=formatter_for(f)) for li, f in regspecs]
        self.reglib = [li for li, _ in regspecs]

    def close(self):
        # ComponentRegistry.__init__ appends every instance to a module-level list; do not let 10^5 of them pile up
        del self._cr.all_registries[self._n0:]

    def call(self, i, o):
        r = self.regs[i]
        try:
            if o[0] == "register":
                v = r.register(o[1], classes()[o[2]])
            elif o[0] == "unregister":
                v = r.unregister(o[1])
            elif o[0] == "clear":
                v = r.clear()
            elif o[0] == "get":
                v = r.get(o[1])
                k = cls_index(v)
                return ("cls", k) if k is not None else ("other", repr(v))
            else:
                return ("all", self.all(i))
            return ("none",) if v is None else ("other", repr(v))
        except Exception as e:  # noqa
            return ("err", type(e).__name__)

    def all(self, i):
        d = self.regs[i].all()
        if not isinstance(d, dict):
            return ("other", repr(d))
        return {n: (cls_index(c) if cls_index(c) is not None else repr(c)) for n, c in d.items()}

    def snapshot(self, li):
        lib, orig = self.libs[li], self.orig[li]
        return {t: (t in orig and f is orig[t]) for t, f in lib.tags.items()}

    def start_tag(self, i, name):
        """What tag the registry's own formatter assigns to `name` (None: it refuses the name)."""
        from django_components.tag_formatter import get_tag_formatter
        try:
            return get_tag_formatter(self.regs[i]).start_tag(name)
        except ValueError:
            return None


def run_case(libspecs, regspecs, ops, oracle=True):
    """Returns (observations per call, final all() per registry, final tags per library, oracle failures, stats)."""
    w = World(libspecs, regspecs)
    ks = classes()
    fails = []
    try:
        ref = [dict() for _ in regspecs]                      # the plain dictionaries of the property statement
        obs = []
        stats = {"added": False, "removed": False, "err": False, "shared_tag": False, "reg_ok": 0}
        prev = [set(w.snapshot(li)) for li in range(len(libspecs))]
        for step, (i, o) in enumerate(ops):
            res = w.call(i, o)
            li = w.reglib[i]
            snap = w.snapshot(li)
            obs.append((res, snap))
            now = set(snap)
            stats["added"] |= bool(now - prev[li])
            stats["removed"] |= bool(prev[li] - now)
            stats["err"] |= res[0] == "err"
            prev[li] = now
            if not oracle:
                continue
            d = ref[i]
            # ---- (1) dictionary behaviour -------------------------------------------------------
            what = None
            if o[0] == "register":
                n, k = o[1], o[2]
                conflict = n in d and ks[d[n]]._class_hash != ks[k]._class_hash
                if conflict != (res == ("err", "AlreadyRegistered")):
                    what = "AlreadyRegistered raised iff a different class holds the name"
                elif conflict:
                    pass
                elif res == ("none",):
                    d[n] = k
                    stats["reg_ok"] += 1
                elif res[0] == "err" and res[1] in ("ValueError", "TagProtectedError"):
                    pass                                       # name refused by formatter / protection: dict unchanged
                else:
                    what = "register returned/raised something else than None / the documented refusals"
            elif o[0] == "unregister":
                missing = o[1] not in d
                if missing != (res == ("err", "NotRegistered")):
                    what = "NotRegistered raised iff the name is missing (unregister)"
                elif not missing:
                    if res != ("none",):
                        what = "unregister of a registered name failed"
                    else:
                        del d[o[1]]
            elif o[0] == "get":
                exp = ("cls", d[o[1]]) if o[1] in d else ("err", "NotRegistered")
                if res != exp:
                    what = "get returns the class last registered under the name / NotRegistered iff missing"
            elif o[0] == "clear":
                if res != ("none",):
                    what = "clear failed"
                else:
                    d.clear()
            else:
                if res != ("all", d):
                    what = "all() equals the dictionary"
            if what is None and w.all(i) != d:
                what = "registry contents differ from the dictionary after the call"
            if what is not None:
                fails.append(("c15-dict", "step %d %r on registry %d: %s (got %r, dictionary %r)" % (step, o, i, what, res, dict(d))))
                break
            # ---- (2) tag exists exactly while used; (3) protected tags untouched -----------------
            if sum(1 for x in w.reglib if x == li) == 1:     # claimed on private libraries only
                used = {}
                for n in d:
                    used.setdefault(w.start_tag(i, n), []).append(n)
                stats["shared_tag"] |= any(len(v) > 1 for v in used.values())
                orig = w.orig[li]
                prot = prot_list(libspecs[li][1])
                for t in set(snap) | set(used) | set(orig):
                    if t in used and (t not in snap or snap[t]):
                        fails.append(("c15-tag-iff-used", "step %d %r: tag %r is used by %r but %s" % (
                            step, o, t, used[t], "absent from library.tags" if t not in snap else "still the pre-existing function")))
                    if t not in orig and t in snap and t not in used:
                        fails.append(("c15-tag-iff-used", "step %d %r: tag %r is in library.tags but no registered component uses it" % (step, o, t)))
                    if t in orig and t in prot and snap.get(t) is not True:
                        fails.append(("c15-protected-touched", "step %d %r: protected tag %r was %s" % (
                            step, o, t, "removed" if t not in snap else "overwritten")))
                if fails:
                    break
        alls = [w.all(i) for i in range(len(regspecs))]
        libs = [w.snapshot(li) for li in range(len(libspecs))]
        return obs, alls, libs, fails, stats
    finally:
        w.close()


# ---------------------------------------------------------------------------------------------
# Coq terms.  Elaborating ~1 kB of nested list literals per case costs coqc ~20 ms; every distinct string, class,
# call, result, tag table and configuration is therefore defined once (`extra_defs`) and referred to by name.
# ---------------------------------------------------------------------------------------------
class Intern:
    def __init__(self):
        self.tab, self.defs, self.memo = {}, [], {}

    def get(self, prefix, typ, term):
        key = (prefix, term)
        name = self.tab.get(key)
        if name is None:
            name = "%s_%d" % (prefix, len(self.tab))
            self.tab[key] = name
            self.defs.append("Definition %s : %s := %s." % (name, typ, term))
        return name

    def text(self):
        return "\n".join(self.defs) + "\n"


INTERNERS = {}          # one table per group of cases (a group is evaluated in its own coqc shards)
I = Intern()


def use_group(g):
    global I
    I = INTERNERS.get(g)
    if I is None:
        I = INTERNERS[g] = Intern()
    return I


def memo(f):
    def g(*a):
        k = (f.__name__,) + a
        v = I.memo.get(k)
        if v is None:
            v = I.memo[k] = f(*a)
        return v
    return g


@memo
def istr(s):
    return I.get("s", "str", cstr(s))


@memo
def ccls(k):
    code = CLASS_CODES[k] if isinstance(k, int) else (99, 99)          # an object that is none of the three classes
    return I.get("k", "N * N", "(%s, %s)" % (cN(code[0]), cN(code[1])))


@memo
def op_term(i, o):
    if o[0] == "register":
        body = "ORegister %s %s" % (istr(o[1]), ccls(o[2]))
    elif o[0] == "unregister":
        body = "OUnregister %s" % istr(o[1])
    elif o[0] == "get":
        body = "OGet %s" % istr(o[1])
    elif o[0] == "clear":
        body = "OClear"
    else:
        body = "OAll"
    return I.get("o", "wop", "WOp %d (%s)" % (i, body))


@memo
def _all_term(items):
    if items is None:                                                   # not a dict: equals no model value
        return I.get("a", "list (str * (N * N))", "[(%s, %s); (%s, %s)]" % (istr(""), ccls(None), istr(""), ccls(None)))
    return I.get("a", "list (str * (N * N))", clist(["(%s, %s)" % (istr(n), ccls(k)) for n, k in items]))


def all_term(d):
    return _all_term(tuple(d.items()) if isinstance(d, dict) else None)


def out_term(res):
    if res[0] == "none":
        return "RNone"
    if res[0] == "cls":
        return "(RCls %s)" % ccls(res[1])
    if res[0] == "all":
        return "(RAll %s)" % all_term(res[1])
    if res[0] == "err":
        return "(RErr %s)" % ERR.get(res[1], "EOther")
    return "(RErr EOther)"


@memo
def _snap_term(items):
    return I.get("p", "list (str * bool)", clist(["(%s, %s)" % (istr(t), cbool(b)) for t, b in items]))


def snap_term(s):
    return _snap_term(tuple(s.items()))


@memo
def _cfg_term(ls, rs):
    lt = I.get("ls", "list (list str * list str)",
               clist(["(%s, %s)" % (clist([istr(t) for t in b]), clist([istr(t) for t in p])) for b, p in ls]))
    rt = I.get("rs", "list (nat * fmtspec)", clist(["(%d%%nat, %s)" % (li, fmt_term(f)) for li, f in rs]))
    return lt, rt


def case_term(libspecs, regspecs, ops, obs, alls, libs):
    ls, rs = _cfg_term(tuple((tuple(b), tuple(prot_list(p))) for b, p in libspecs), tuple(regspecs))
    os_ = clist([op_term(i, o) for i, o in ops])
    ob = clist([I.get("q", "out * list (str * bool)", "(%s, %s)" % (out_term(r), snap_term(s))) for r, s in obs])
    return "(%s, %s, %s, %s, %s, %s)" % (ls, rs, os_, ob, clist([all_term(a) for a in alls]), clist([snap_term(s) for s in libs]))


# ---------------------------------------------------------------------------------------------
# generators
# ---------------------------------------------------------------------------------------------
NAMES3 = ["a", "slot", "fill"]
NAMES_MORE = ["a", "slot", "fill", "b", "component", "provide", "x-a", "a.b:c", "my comp", "", "a\n", "a\n\n", "{a}", "x-slot", "A_9"]


def alphabet(names, nreg=1):
    ops = []
    for i in range(nreg):
        for n in names:
            for k in range(3):
                ops.append((i, ("register", n, k)))
            ops.append((i, ("unregister", n)))
            ops.append((i, ("get", n)))
        ops.append((i, ("clear",)))
        ops.append((i, ("all",)))
    return ops


def single_configs():
    for f in [("component", "default"), ("shorthand", "instance")]:
        for prot in [None, "default"]:
            yield [(BUILTINS, prot)], [(0, f)]


def gen_cases(chk, thorough):
    rng = chk.rng
    # 1. one registry, exhaustive (histories of the maximal length contain every shorter one as an observed prefix).
    #    Each case costs ~2 ms of coqc, so the bounds are: quick 4 (two configurations) / 3, thorough 5 (one) / 4.
    alpha = alphabet(NAMES3)
    for ci, (ls, rs) in enumerate(single_configs()):
        # the two configurations that exercise everything: component+unprotected (0), shorthand+protected (3)
        L = (5 if ci == 3 else 4) if thorough else (4 if ci in (0, 3) else 3)
        for seq in itertools.product(alpha, repeat=L):
            yield ls, rs, list(seq), "one-exh%d" % L, True
    # 2. other formatters / protection lists, one registry, shorter
    extra = [([(BUILTINS, ["a", "component"])], [(0, ("component", "instance"))]),
             ([(BUILTINS, ["x-a"])], [(0, ("prefix", "x-"))]),
             ([([], None)], [(0, ("shorthand", "string"))]),
             ([(BUILTINS, None)], [(0, ("badcomponent", "my tag"))])]
    Lx = 4 if thorough else 3
    for ls, rs in extra:
        for seq in itertools.product(alpha, repeat=Lx):
            yield ls, rs, list(seq), "one-extra-exh%d" % Lx, True
    # 3. two registries on two private libraries, exhaustive interleavings
    two = [([(BUILTINS, "default"), (BUILTINS, None)], [(0, ("shorthand", "instance")), (1, ("component", "default"))]),
           ([(BUILTINS, None), (BUILTINS, "default")], [(1, ("shorthand", "string")), (0, ("shorthand", "instance"))])]
    alpha2 = alphabet(NAMES3, 2)
    for ls, rs in two:
        for seq in itertools.product(alpha2, repeat=3):
            yield ls, rs, list(seq), "two-private-exh3", True
    if thorough:
        alpha2 = alphabet(["a", "slot"], 2)
        for seq in itertools.product(alpha2, repeat=4):
            yield two[0][0], two[0][1], list(seq), "two-private-exh4", True
    # 4. random long histories, 1-3 registries, private libraries, more names
    for _ in range(12000 if thorough else 1500):
        nreg = rng.choice([1, 1, 2, 3])
        names = rng.sample(NAMES_MORE, rng.randint(2, 6))
        ls, rs = [], []
        for i in range(nreg):
            prot = rng.choice([None, "default", "default", ["a", "b"], ["component"], []])
            ls.append((rng.choice([BUILTINS, BUILTINS, [], ["slot", "a", "x-a"]]), prot))
            rs.append((i, rng.choice([("component", "default"), ("component", "instance"), ("shorthand", "instance"),
                                      ("shorthand", "string"), ("prefix", "x-"), ("prefix", "slo"), ("badcomponent", "")])))
        order = list(range(nreg))
        rng.shuffle(order)
        rs = [(order[i], f) for i, (_, f) in enumerate(rs)]
        ops = []
        for _ in range(rng.randint(7, 40)):
            i = rng.randrange(nreg)
            kind = rng.choices(["register", "unregister", "get", "clear", "all"], [6, 3, 2, 0.5, 1])[0]
            if kind in ("clear", "all"):
                ops.append((i, (kind,)))
            elif kind == "register":
                ops.append((i, ("register", rng.choice(names), rng.randrange(3))))
            else:
                ops.append((i, (kind, rng.choice(names))))
        yield ls, rs, ops, "random-private", True
    # 5. OUTSIDE the claimed domain (diagnostic only): two registries sharing one library
    alpha2s = alphabet(["a", "slot"], 2)
    shared = ([(BUILTINS, "default")], [(0, ("shorthand", "instance")), (0, ("component", "default"))])
    for seq in itertools.product(alpha2s, repeat=3):
        yield shared[0], shared[1], list(seq), "two-shared-diagnostic", False
    for _ in range(2000 if thorough else 300):
        fs = [rng.choice([("component", "default"), ("shorthand", "instance"), ("prefix", "x-")]) for _ in range(2)]
        ops = []
        for _ in range(rng.randint(4, 25)):
            kind = rng.choices(["register", "unregister", "get", "clear", "all"], [6, 3, 1, 0.5, 1])[0]
            i = rng.randrange(2)
            ops.append((i, (kind,) if kind in ("clear", "all") else
                        (kind, rng.choice(NAMES3 + ["b"]), rng.randrange(3)) if kind == "register" else (kind, rng.choice(NAMES3 + ["b"]))))
        yield [(BUILTINS, rng.choice([None, "default"]))], [(0, fs[0]), (0, fs[1])], ops, "two-shared-diagnostic", False


def valid_tag_cases(chk, thorough):
    """Matcher-level differential for TAG_RE / _validate_tag (what the shorthand formatter accepts)."""
    from django_components.tag_formatter import InternalTagFormatter, ShorthandComponentFormatter
    f = InternalTagFormatter(ShorthandComponentFormatter())
    alpha = ["a", "Z", "0", "_", "-", ":", "@", ".", "#", "/", " ", "\n", "\t", "{", "%", "\\", "$", "^", "]", "\r", "\x00", "~", "`", "["]
    strs = [""]
    for L in (1, 2, 3 if thorough else 2):
        strs += ["".join(p) for p in itertools.product(alpha, repeat=L)]
    strs += ["".join(p) for p in itertools.product(["a", "\n", " ", "-"], repeat=4)]
    strs += [chr(c) for c in range(128)] + ["a" + chr(c) for c in range(128)]
    for _ in range(3000 if thorough else 500):
        strs.append("".join(chk.rng.choice(alpha) if chk.rng.random() < 0.3 else chr(chk.rng.randrange(32, 127))
                            for _ in range(chk.rng.randint(1, 12))))
    out = []
    for s in strs:
        try:
            ok = f.start_tag(s) == s
        except ValueError:
            ok = False
        out.append((s, ok))
    return out


def corpus_cases():
    """Minimised witnesses kept from development (mutants of the anchored code that an earlier generator missed, and
    the shortest histories exercising each clause).  Run first, through the direct oracle."""
    lit = [
        # two names share the tag `component`; unregistering one must keep the tag, clear must remove it
        ([(BUILTINS, "default")], [(0, ("component", "default"))],
         [(0, ("register", "a", 0)), (0, ("register", "slot", 1)), (0, ("unregister", "a")), (0, ("get", "slot")), (0, ("clear",)), (0, ("all",))]),
        # protected names under the shorthand formatter
        ([(BUILTINS, "default")], [(0, ("shorthand", "instance"))],
         [(0, ("register", "slot", 0)), (0, ("register", "a", 0)), (0, ("register", "a", 1)), (0, ("register", "a", 0)), (0, ("unregister", "fill")), (0, ("clear",))]),
        # same _class_hash, different class object: accepted, get returns the new object
        ([([], None)], [(0, ("shorthand", "instance"))],
         [(0, ("register", "a", 1)), (0, ("register", "a", 2)), (0, ("get", "a")), (0, ("unregister", "a")), (0, ("unregister", "a"))]),
        # two registries, private libraries, same names
        ([(BUILTINS, None), (BUILTINS, None)], [(0, ("component", "default")), (1, ("component", "default"))],
         [(0, ("register", "a", 0)), (1, ("register", "a", 1)), (1, ("unregister", "a")), (0, ("get", "a")), (0, ("clear",))]),
    ]
    out = [(ls, rs, ops, "corpus") for ls, rs, ops in lit]
    for p in sorted(glob.glob(os.path.join(C.VERIF, "corpus", "C15", "*.json"))):
        j = json.load(open(p))
        out.append(([(b, tuple(pr) if isinstance(pr, list) else pr) for b, pr in j["libs"]],
                    [(li, tuple(f)) for li, f in j["regs"]],
                    [(i, tuple(o)) for i, o in j["ops"]], "corpus:" + os.path.basename(p)))
    return out


def replay_obj(ls, rs, ops, extra=None):
    d = {"libs": [[b, list(p) if isinstance(p, (list, tuple)) else p] for b, p in ls],
         "regs": [[li, list(f)] for li, f in rs], "ops": [[i, list(o)] for i, o in ops]}
    d.update(extra or {})
    return d


def shortest_failing_prefix(ls, rs, ops):
    for n in range(1, len(ops) + 1):
        _, _, _, fails, _ = run_case(ls, rs, ops[:n])
        if fails:
            return ops[:n], fails
    return ops, []


def run(tier, seed):
    import djsetup
    djsetup.setup()
    import gen_constants
    try:
        gen_constants.generate(["C15"])
    except Exception:
        import gen_c15
        C.write_if_changed(os.path.join(C.COQ, "Gen", "C15.v"), gen_constants.HEADER + gen_c15.gen_C15())
    chk = C.Check("C15", tier, seed)
    chk.prove()
    thorough = tier == "thorough"

    def oracle_fail(ls, rs, ops, fails):
        ops2, fails2 = shortest_failing_prefix(ls, rs, ops)
        trig, what = (fails2 or fails)[0]
        chk.fail(trig, what, replay_obj(ls, rs, ops2, {"kind": "history"}))

    # ---- corpus first ----
    for ls, rs, ops, kind in corpus_cases():
        obs, alls, libs, fails, st = run_case(ls, rs, ops)
        chk.count(("corpus", repr((ls, rs, ops))), True, kind="corpus")
        if fails:
            oracle_fail(ls, rs, ops, fails)
    # ---- histories ----
    groups = {}                                   # group -> (terms, cases); one table of definitions per group
    nfail = 0
    for ls, rs, ops, kind, claimed in gen_cases(chk, thorough):
        obs, alls, libs, fails, st = run_case(ls, rs, ops, oracle=claimed)
        g = "diag" if not claimed else ("random" if kind.startswith("random") else "exh")
        use_group(g)
        terms, cases = groups.setdefault(g, ([], []))
        if not claimed:
            terms.append(case_term(ls, rs, ops, obs, alls, libs))
            cases.append((ls, rs, ops))
            chk.dist[kind] += 1
            continue
        nontriv = st["added"] and st["removed"] and (st["err"] or st["shared_tag"])
        chk.count((repr(ls), repr(rs), tuple(ops)), nontriv, kind=kind,
                  sample=replay_obj(ls, rs, ops, {"observed": [r for r, _ in obs]}) if (nontriv and kind == "random-private") else None)
        if fails:
            nfail += 1
            if nfail <= 5:
                oracle_fail(ls, rs, ops, fails)
            continue                        # the history was cut at the failure: nothing to compare with the model
        terms.append(case_term(ls, rs, ops, obs, alls, libs))
        cases.append((ls, rs, ops))
    ndis = 0
    for g in ("exh", "random"):
        terms, cases = groups.get(g, ([], []))
        bad = C.coq_eval_cases("C15", "reg_" + g, IMPORTS, CASE_TYPE, "check_reg", terms, shard=2500, extra_defs=INTERNERS[g].text()) if terms else []
        # report the shortest disagreeing histories first
        for i in sorted(bad, key=lambda i: len(cases[i][2]))[:max(0, 10 - ndis)]:
            ndis += 1
            ls, rs, ops = cases[i]
            chk.disagree("Registry model != ComponentRegistry/Library (results, contents or tag table)",
                         replay_obj(ls, rs, ops, {"kind": "history", "impl": repr(run_case(ls, rs, ops)[:3])[:1500]}))
    diag_terms, diag_cases = groups.get("diag", ([], []))
    dbad = C.coq_eval_cases("C15", "diag", IMPORTS, CASE_TYPE, "check_reg", diag_terms, shard=2500, extra_defs=INTERNERS["diag"].text()) if diag_terms else []
    chk.extra["shared_library_diagnostic"] = {
        "note": "two registries on ONE Library: outside the claimed domain, compared with the model only, never an alarm",
        "cases": len(diag_terms), "model_disagreements": len(dbad),
        "first": replay_obj(*diag_cases[dbad[0]]) if dbad else None}
    # ---- matcher-level differential for TAG_RE ----
    vt = valid_tag_cases(chk, thorough)
    for s, ok in vt:
        chk.count(("valid", s), False, kind="valid_tag")
    vbad = C.coq_eval_cases("C15", "valid", IMPORTS, "str * bool", "check_valid",
                            ["(%s, %s)" % (cstr(s), cbool(ok)) for s, ok in vt], shard=4000)
    for i in vbad[:5]:
        chk.disagree("valid_tag matcher != InternalTagFormatter._validate_tag", {"kind": "valid_tag", "tag": vt[i][0], "impl_accepts": vt[i][1]})
    chk.assumptions = [
        "every registry has its own private django.template.Library (two registries on one Library: diagnostic only)",
        "the tag formatter and the protected-tag list of a registry do not change during a history; formatters are deterministic",
        "a class is identified by _class_hash (its import path) as in the code; the model uses injective codes",
        "names over code points < 128 (the model's \\w is exact there); single-threaded use",
    ]
    return chk.finish(
        rule="one registry: every history of length L (observed after every call, so all shorter ones are included) over "
             "{register x 3 names (a, slot, fill) x 3 classes (two share a _class_hash), unregister, get} + clear + all = 17 calls, for default / "
             "shorthand formatter x with / without mark_protected_tags: %s; 4 further configurations (custom protected "
             "list, user-defined formatter, empty library, invalid ComponentFormatter tag) with L=%d; two registries on two private libraries: "
             "every interleaving of length 3 over 34 calls%s; seeded random histories of 7..40 calls over 1-3 registries, 15 names (invalid, "
             "newline, protected, prefixed) and 7 formatters. Non-trivial = a tag was added to and removed from library.tags and (an exception "
             "was raised or two registered names shared a tag). Distinct = distinct (configuration, history)."
             % ("L=5 for shorthand+protected, L=4 for the other three" if thorough else "L=4 for component+unprotected and shorthand+protected, L=3 for the other two",
                4 if thorough else 3, " and of length 4 over 24 calls (2 names)" if thorough else ""),
        explanation="theorems of Props/C15.v re-checked by coqc; after EVERY call the result, registry.all() and the Library tag table "
                    "(incl. whether each pre-existing tag still is the original function) are compared with an independent dict reference + "
                    "tag-iff-used / protected-untouched predicates (direct oracle) and with the Coq model (vm_compute).",
        extra_trusted=["modelled, not verified: Python dict/set semantics, django.template.Library.tag (stores the function under the name), "
                       "re (TAG_RE modelled by a hand matcher, anchored to the pattern string and differentially tested every run)"])


def replay(path):
    import djsetup
    djsetup.setup()
    r = json.load(open(path))
    print(json.dumps(r, indent=1)[:3000])
    case = r.get("case", {})
    if case.get("kind") == "history":
        ls = [(b, tuple(p) if isinstance(p, list) else p) for b, p in case["libs"]]
        rs = [(li, tuple(f)) for li, f in case["regs"]]
        ops = [(i, tuple(o)) for i, o in case["ops"]]
        obs, alls, libs, fails, st = run_case(ls, rs, ops)
        for (i, o), (res, snap) in zip(ops, obs):
            print("registry %d %-28r -> %-28r library.tags=%r" % (i, o, res, snap))
        print("all():", alls)
        print("oracle failures:", fails)
        return 1 if fails else 0
    return 0
