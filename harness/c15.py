"""C15 - registries behave as dictionaries and keep the tag library consistent.

Model: coq/Registry/Model.v   Theorems: coq/Props/C15.v
Correspondence: histories of register / unregister / clear / get / all calls on one to three ComponentRegistry
objects, each on its own private django.template.Library (with pre-existing tags, with / without
mark_protected_tags at creation, and with mark_protected_tags calls IN the history: the protected list is state), for the
default, the shorthand and a user-defined tag formatter.  After every call the
result (value or exception class), all() of EVERY registry and the tag table of EVERY Library are observed and compared
 (a) with an independent plain-dict reference + the tag/protection predicates of the property (direct oracle),
 (b) with the Coq model evaluated by vm_compute.
Exhaustive part: all histories over an alphabet of calls share their prefixes, so they are produced and compared as a
TREE (Model.check_forest; Props.tree_check_is_per_history_check: accepting a forest = accepting every root-to-node
history call by call).  The implementation has no snapshot/undo, so every node is reached by replaying its prefix on
fresh objects; sub-trees are walked by worker processes.  Longer bounds are reached by enumerating one history per ORBIT
of the renamings that the configuration cannot tell apart (see ORBITS below).
Histories on two registries that SHARE one Library are outside the claimed domain: they are compared with
the model as a diagnostic only (never an alarm).
"""
import collections
import glob
import hashlib
import itertools
import json
import multiprocessing
import os
import random
import re
import threading
import time

import common as C
from common import cN, clist, cstr, cbool

# Elaborating polymorphic pair / list notations costs coqc ~1 ms per observation (implicit arguments solved by unification);
# the literals are therefore built with monomorphic helpers (plain applications, nothing to infer).
IMPORTS = """From DJC Require Import Lib.Base Registry.Model.
Definition mkobs (o : out) (al : list (list (str * (N * N)))) (pl : list (list (str * bool)))
  : out * list (list (str * (N * N))) * list (list (str * bool)) := (o, al, pl).
Definition ec (n : str) (c : N * N) (r : list (str * (N * N))) := (n, c) :: r.
Definition en : list (str * (N * N)) := [].
Definition tc (t : str) (b : bool) (r : list (str * bool)) := (t, b) :: r.
Definition tn : list (str * bool) := [].
Definition ac (a : list (str * (N * N))) (r : list (list (str * (N * N)))) := a :: r.
Definition an : list (list (str * (N * N))) := [].
Definition lc (p : list (str * bool)) (r : list (list (str * bool))) := p :: r.
Definition ln : list (list (str * bool)) := [].
Definition sc (o : wop) (q : out * list (list (str * (N * N))) * list (list (str * bool)))
  (r : list (wop * (out * list (list (str * (N * N))) * list (list (str * bool))))) := (o, q) :: r.
Definition sn : list (wop * (out * list (list (str * (N * N))) * list (list (str * bool)))) := [].
"""
WOBS = "out * list (list (str * (N * N))) * list (list (str * bool))"
CFG = "list (list str * list str) * list (nat * fmtspec)"
TREE_TYPE = CFG + " * oforest"
PATH_TYPE = CFG + " * list (wop * (%s))" % WOBS

# Classes.  A FAMILY is the three classes of the quantifier: K0, K1 and K1b, where K1 and K1b are two distinct class objects
# with the same import path (module + qualname) - for the library THE SAME CLASS - and K0 has another import path.  Class
# number 3*f + role (role 0 = K0, 1 = K1, 2 = K1b) of family f:
#   family 0  direct subclasses of Component;
#   family 1  two siblings (and the twin) under a common base component:  Base(Component); K0(Base), K1(Base), K1b(Base);
#   family 2  a chain: Base(Component); K0(Base); K1(K0), K1b(K0)  (K1 is a grandchild of Base and a SUBCLASS of K0).
# Model code of a class = (code of its import path, object identity): distinct import paths MUST be distinct classes for the
# registry whatever the inheritance between them (class_identity_failures() checks `_class_hash` against this directly).
NFAM = 3
CLASS_CODES = [(2 * f + (0 if r == 0 else 1), 3 * f + r) for f in range(NFAM) for r in range(3)]


def fam(f):
    return (3 * f, 3 * f + 1, 3 * f + 2)


BUILTINS = ["slot", "fill", "component"]           # tags already in the private Library when the registry gets it
ERR = {"AlreadyRegistered": "EAlreadyRegistered", "NotRegistered": "ENotRegistered", "ValueError": "EValueError",
       "TagProtectedError": "ETagProtected", "KeyError": "EKeyError"}

# ORBITS.  Two renamings leave a configuration of the exhaustive part unchanged: slot <-> fill (both pre-existing tags
# of the Library, both protected or both not, treated alike by the formatter: orbit_ok() checks this per
# configuration) and K1 <-> K1b (two class objects, one _class_hash).  They generate a group G of order 4 acting on
# histories; the property statement and the model are invariant under G (for K1 <-> K1b this is theorem
# class_objects_never_inspected).  A history is CANONICAL when it is the
# lexicographically least of its orbit, i.e. the first call naming slot or fill names slot and the first register of
# K1 or K1b registers K1; prefixes of canonical histories are canonical, so the canonical histories form a tree that
# is enumerated without ever building the others.  Of every sub-tree (task) the image under one member g of G, drawn
# from the seed, is what is actually run: every orbit is represented exactly once, and no member (e.g. "fill first")
# is systematically left out.  That the implementation does not tell the members of an orbit apart is not assumed
# for the shorter bound, where ALL histories are run.
SYM_NAMES = ("slot", "fill")
SYM_CLASSES = {}                       # K1 <-> K1b of every family
for _f in range(NFAM):
    SYM_CLASSES[3 * _f + 1] = 3 * _f + 2
    SYM_CLASSES[3 * _f + 2] = 3 * _f + 1

_state = {}


def classes():
    if "classes" not in _state:
        from django_components import Component
        mk = lambda name, base: type(name, (base,), {"template": "", "__module__": "verif_c15_mod"})   # noqa: E731
        sbase, gbase = mk("C15SBase", Component), mk("C15GBase", Component)
        g0 = mk("C15G0", gbase)
        ks = [mk("C15K0", Component), mk("C15K1", Component), mk("C15K1", Component),
              mk("C15S0", sbase), mk("C15S1", sbase), mk("C15S1", sbase),
              g0, mk("C15G1", g0), mk("C15G1", g0)]
        _state["classes"] = ks
        _state["bases"] = [sbase, gbase]
        _state["clsidx"] = {id(k): i for i, k in enumerate(ks)}
    return _state["classes"]


def import_path(cls):
    return cls.__module__ + "." + cls.__qualname__


def class_identity_failures():
    """`_class_hash` must identify a class with its import path: equal for the two objects K1 / K1b of a family, different for
    any two classes with different import paths - siblings, parent and child, base and grandchild included."""
    ks = classes() + _state["bases"]
    out = []
    for a in range(len(ks)):
        for b in range(a + 1, len(ks)):
            same_path = import_path(ks[a]) == import_path(ks[b])
            ha, hb = getattr(ks[a], "_class_hash", None), getattr(ks[b], "_class_hash", None)
            if ha is None or hb is None or (ha == hb) != same_path:
                out.append("%s (bases %s, _class_hash %r) and %s (bases %s, _class_hash %r): import paths %s, hashes %s" % (
                    import_path(ks[a]), [x.__qualname__ for x in ks[a].__bases__], ha,
                    import_path(ks[b]), [x.__qualname__ for x in ks[b].__bases__], hb,
                    "equal" if same_path else "differ", "equal" if ha == hb else "differ"))
    return out


def cls_index(obj):
    classes()
    i = _state["clsidx"].get(id(obj))
    return i if i is not None and _state["classes"][i] is obj else None


def hash_of(k):
    return CLASS_CODES[k][0] if isinstance(k, int) else ("other", k)


def modhash(d):
    """a name -> class table with every class replaced by its identity for the library (its _class_hash)"""
    return {n: hash_of(k) for n, k in d.items()} if isinstance(d, dict) else d


def _prefix_formatter(arg):
    key = ("pf", arg)
    if key not in _state:
        from django_components import tag_formatter as tf

        class PrefixFormatter(tf.TagFormatterABC):
            def start_tag(self, name):
                return arg + name

            def end_tag(self, name):
                return "end" + arg + name

            def parse(self, tokens):
                tokens = [*tokens]
                name = tokens.pop(0)
                return tf.TagResult(name[len(arg):], tokens)
        _state[key] = PrefixFormatter
    return _state[key]()


def formatter_for(spec):
    """spec: ('component', how) | ('shorthand', how) | ('prefix', p) | ('badcomponent', tag) -> RegistrySettings or None"""
    from django_components import RegistrySettings
    from django_components import tag_formatter as tf
    kind, arg = spec
    if kind == "component":
        if arg == "default":
            return None                              # COMPONENTS.tag_formatter default, resolved through import_string
        return RegistrySettings(tag_formatter=tf.component_formatter)
    if kind == "shorthand":
        if arg == "string":
            return RegistrySettings(tag_formatter="django_components.component_shorthand_formatter")
        return RegistrySettings(tag_formatter=tf.component_shorthand_formatter)
    if kind == "badcomponent":
        return RegistrySettings(tag_formatter=tf.ComponentFormatter(arg))
    if kind == "prefix":
        return RegistrySettings(tag_formatter=_prefix_formatter(arg))
    raise ValueError(spec)


def fmt_term(spec):
    kind, arg = spec
    if kind == "component":
        from django_components import tag_formatter as tf
        return "FComponent %s" % istr(tf.component_formatter.tag)
    if kind == "badcomponent":
        return "FComponent %s" % istr(arg)
    if kind == "shorthand":
        return "FShorthand"
    return "FPrefix %s" % istr(arg)


def prot_list(prot):
    from django_components.library import PROTECTED_TAGS
    if prot is None:
        return []
    if prot == "default":
        return list(PROTECTED_TAGS)
    return list(prot)


class World:
    def __init__(self, libspecs, regspecs):
        from django.template import Library
        from django_components import ComponentRegistry
        from django_components.library import mark_protected_tags
        import django_components.component_registry as cr
        self._cr = cr
        self._mark = mark_protected_tags
        self._n0 = len(cr.all_registries)
        self.libs, self.orig = [], []
        for builtins, prot in libspecs:
            lib = Library()
            orig = {}
            for t in builtins:
                def fn(parser, token, _t=t):
                    raise AssertionError("built-in tag %s is never compiled here" % _t)
                lib.tag(t, fn)
                orig[t] = fn
            if prot is not None:
                mark_protected_tags(lib, None if prot == "default" else list(prot))
            self.libs.append(lib)
            self.orig.append(orig)
        self.regs = [ComponentRegistry(library=self.libs[li], settings=formatter_for(f)) for li, f in regspecs]
        self.reglib = [li for li, _ in regspecs]
        self.regspecs = regspecs
        self.private = [sum(1 for x in self.reglib if x == li) == 1 for li in self.reglib]

    def close(self):
        # ComponentRegistry.__init__ appends every instance to a module-level list; do not let 10^6 of them pile up
        del self._cr.all_registries[self._n0:]

    def call(self, i, o):
        r = self.regs[i]
        try:
            if o[0] == "register":
                v = r.register(o[1], classes()[o[2]])
            elif o[0] == "unregister":
                v = r.unregister(o[1])
            elif o[0] == "clear":
                v = r.clear()
            elif o[0] == "protect":
                # mark_protected_tags on the registry's own Library, in the middle of the history
                v = self._mark(self.libs[self.reglib[i]], None if o[1] == "default" else list(o[1]))
            elif o[0] == "get":
                v = r.get(o[1])
                k = cls_index(v)
                return ("cls", k) if k is not None else ("other", repr(v))
            else:
                return ("all", self.all(i))
            return ("none",) if v is None else ("other", repr(v))
        except Exception as e:  # noqa
            return ("err", type(e).__name__)

    def all(self, i):
        d = self.regs[i].all()
        if not isinstance(d, dict):
            return ("other", repr(d))
        out = {}
        for n, c in d.items():
            k = cls_index(c)
            out[n] = k if k is not None else repr(c)
        return out

    def snapshot(self, li):
        lib, orig = self.libs[li], self.orig[li]
        return {t: (t in orig and f is orig[t]) for t, f in lib.tags.items()}

    def start_tag(self, i, name):
        """What tag the registry's own formatter assigns to `name` (None: it refuses the name)."""
        key = ("tag", self.regspecs[i][1], name)       # a formatter is a deterministic function of its spec
        if key not in _state:
            from django_components.tag_formatter import get_tag_formatter
            try:
                _state[key] = get_tag_formatter(self.regs[i]).start_tag(name)
            except ValueError:
                _state[key] = None
        return _state[key]


# ---------------------------------------------------------------------------------------------
# one call + the direct oracle.  `st` is the oracle's own state for the history so far: the plain dictionaries of the
# property statement (one per registry), the previous tag tables, and what the history has exercised.
# ---------------------------------------------------------------------------------------------
def new_state(w, libspecs):
    prot = [tuple(prot_list(p)) for _, p in libspecs]
    snaps = [w.snapshot(li) for li in range(len(w.libs))]
    return {"ref": [dict() for _ in w.regs], "prev": snaps,
            # the protected list of every library as it is NOW, and for every tag in it the status of its library entry when
            # it became protected (None absent / True the pre-existing function / False a component tag function)
            "prot": prot, "guard": [{t: snaps[li].get(t) for t in prot[li]} for li in range(len(prot))],
            # tags that were marked protected while a registered component used them (statement silent: never an alarm)
            "tainted": [frozenset() for _ in prot],
            "added": False, "removed": False, "err": False, "shared": False, "protect": False}


def copy_state(st):
    c = dict(st)
    c["ref"] = [dict(d) for d in st["ref"]]
    c["prot"], c["guard"], c["tainted"] = list(st["prot"]), list(st["guard"]), list(st["tainted"])
    return c


def do_step(w, libspecs, st, i, o, oracle, notes):
    """Performs call `o` on registry i.  Returns (result, all() of every registry, tag table of every library,
    oracle failures); updates st in place."""
    res = w.call(i, o)
    alls = [w.all(j) for j in range(len(w.regs))]
    snaps = [w.snapshot(li) for li in range(len(w.libs))]
    before = st["prev"]
    st["prev"] = snaps
    for li in range(len(snaps)):
        if snaps[li].keys() != before[li].keys():
            st["added"] |= any(t not in before[li] for t in snaps[li])
            st["removed"] |= any(t not in snaps[li] for t in before[li])
    st["err"] |= res[0] == "err"
    if not oracle:
        return res, alls, snaps, []
    fails = []
    d = st["ref"][i]
    # ---- (1) dictionary behaviour; class identity = _class_hash, as for the library -----------------------------
    what = None
    if o[0] == "register":
        n, k = o[1], o[2]
        conflict = n in d and hash_of(d[n]) != hash_of(k)
        if conflict != (res == ("err", "AlreadyRegistered")):
            what = "AlreadyRegistered raised iff a different class holds the name"
        elif conflict:
            pass
        elif res == ("none",):
            if n in d and d[n] != k:
                # the same class for the library (same import path), another class object: reported, never an alarm
                notes["same_hash_other_object_reregistered"] += 1
                got = alls[i].get(n) if isinstance(alls[i], dict) else None
                notes["...stored_object_is_the_new_one" if got == k else
                      "...stored_object_is_the_old_one" if got == d[n] else "...stored_object_is_something_else"] += 1
            elif n in d:
                notes["identical_object_reregistered"] += 1
            d[n] = k
        elif res[0] == "err" and res[1] in ("ValueError", "TagProtectedError"):
            pass                                       # name refused by formatter / protection: dict unchanged
        else:
            what = "register returned/raised something else than None / the documented refusals"
    elif o[0] == "unregister":
        missing = o[1] not in d
        if missing != (res == ("err", "NotRegistered")):
            what = "NotRegistered raised iff the name is missing (unregister)"
        elif not missing:
            if res != ("none",):
                what = "unregister of a registered name failed"
            else:
                del d[o[1]]
    elif o[0] == "get":
        if o[1] in d:
            if not (res[0] == "cls" and hash_of(res[1]) == hash_of(d[o[1]])):
                what = "get returns the class registered under the name"
        elif res != ("err", "NotRegistered"):
            what = "get raises NotRegistered iff the name is missing"
    elif o[0] == "clear":
        if res != ("none",):
            what = "clear failed"
        else:
            d.clear()
    elif o[0] == "protect":
        li = w.reglib[i]
        ps = tuple(prot_list(o[1]))
        st["protect"] = True
        if res != ("none",):
            what = "mark_protected_tags failed"
        else:
            live = set()
            for j in range(len(w.regs)):
                if w.reglib[j] == li:
                    live.update(w.start_tag(j, n) for n in st["ref"][j])
            hit = frozenset(t for t in ps if t in live)
            if hit:
                notes["tag_marked_protected_while_a_component_uses_it"] += 1
                st["tainted"][li] = st["tainted"][li] | hit
            old_guard = st["guard"][li]
            st["guard"][li] = {t: (old_guard[t] if t in old_guard else before[li].get(t)) for t in ps}
            st["prot"][li] = ps
    else:
        if not (res[0] == "all" and modhash(res[1]) == modhash(d)):
            what = "all() equals the dictionary"
    if what is None:
        for j in range(len(w.regs)):
            if modhash(alls[j]) != modhash(st["ref"][j]):
                what = "contents of registry %d differ from its dictionary after the call" % j
                break
    if what is not None:
        fails.append(("c15-dict", "%r on registry %d: %s (got %r, dictionary %r)" % (o, i, what, res, dict(d))))
        return res, alls, snaps, fails
    # ---- (2) tag exists exactly while used; (3) protected tags untouched (claimed on private libraries) ---------
    for j in range(len(w.regs)):
        if not w.private[j]:
            continue
        li = w.reglib[j]
        snap, orig = snaps[li], w.orig[li]
        used = {}
        for n in st["ref"][j]:
            used.setdefault(w.start_tag(j, n), []).append(n)
        if len(used) < len(st["ref"][j]):
            st["shared"] = True
        prot, tainted = st["prot"][li], st["tainted"][li]
        for t in set(snap) | set(used) | set(orig):
            if t in tainted:
                continue            # marked protected while in use: unregister keeps the tag function (reported, never an alarm)
            if t in used and (t not in snap or snap[t]):
                fails.append(("c15-tag-iff-used", "%r: tag %r is used by %r but %s" % (
                    o, t, used[t], "absent from library.tags" if t not in snap else "still the pre-existing function")))
            if t not in orig and t in snap and t not in used:
                fails.append(("c15-tag-iff-used", "%r: tag %r is in library.tags but no registered component uses it" % (o, t)))
            if t in orig and snap.get(t) is False and t not in used:
                fails.append(("c15-tag-iff-used", "%r: tag %r (pre-existing, overwritten by a component tag) is still a component tag "
                                                  "function although no registered component uses it" % (o, t)))
            if t in orig and t not in prot:
                # allowed by the statement (it protects PROTECTED tags): counted for the evidence, never an alarm
                b, a = before[li].get(t), snap.get(t)
                if b is True and a is False:
                    notes["unprotected_preexisting_tag_overwritten"] += 1
                if b is not None and a is None:
                    notes["unprotected_preexisting_tag_removed_on_unregister"] += 1
        # a tag that is in the protected list NOW keeps the library entry it had when it became protected (at creation of the
        # Library or at a later mark_protected_tags call): neither overwritten nor removed
        for t, status in st["guard"][li].items():
            if status is not None and snap.get(t) != status:
                fails.append(("c15-protected-touched", "%r: protected tag %r was %s" % (
                    o, t, "removed" if t not in snap else "overwritten")))
    return res, alls, snaps, fails


def run_case(libspecs, regspecs, ops, oracle=True, notes=None):
    """Returns (observations per call = (result, all() per registry, tags per library), oracle failures, state)."""
    notes = collections.Counter() if notes is None else notes
    w = World(libspecs, regspecs)
    try:
        st = new_state(w, libspecs)
        obs, fails = [], []
        for step, (i, o) in enumerate(ops):
            res, alls, snaps, fl = do_step(w, libspecs, st, i, o, oracle, notes)
            obs.append((res, alls, snaps))
            if fl:
                fails = [(t, "step %d %s" % (step, x)) for t, x in fl]
                break
        return obs, fails, st
    finally:
        w.close()


def nontrivial(st):
    return st["added"] and st["removed"] and (st["err"] or st["shared"])


# ---------------------------------------------------------------------------------------------
# Coq terms.  Elaborating nested list literals costs coqc ~1 ms per kB; every distinct string, class, call, result,
# tag table and configuration is therefore defined once and referred to by name.  Names are derived from the
# content, so that tables built by different worker processes can be merged.
# ---------------------------------------------------------------------------------------------
RANK = {"s": 0, "k": 0, "a": 1, "p": 1, "o": 1, "al": 2, "pl": 2, "ls": 2, "rs": 2, "q": 3}


class Intern:
    def __init__(self):
        self.tab, self.memo, self.fresh = {}, {}, {}

    def get(self, prefix, typ, term):
        key = (prefix, term)
        name = self.tab.get(key)
        if name is None:
            name = "%s_%s" % (prefix, hashlib.md5(term.encode()).hexdigest()[:12])
            self.tab[key] = name
            self.fresh[name] = (RANK[prefix], "Definition %s : %s := %s." % (name, typ, term))
        return name

    def drain(self):
        f, self.fresh = self.fresh, {}
        return f


I = Intern()


NAME_RE = re.compile(r"\b(?:%s)_[0-9a-f]{12}\b" % "|".join(sorted(RANK, key=len, reverse=True)))


def names_in(terms):
    out = set()
    for t in terms:
        out.update(NAME_RE.findall(t))
    return out


def defs_text(defs, roots=None):
    """the definitions (in dependency order) that the names in `roots` need; all of them if roots is None"""
    if roots is not None:
        need, todo = set(), list(roots)
        while todo:
            n = todo.pop()
            if n in need:
                continue
            need.add(n)
            todo += [m for m in NAME_RE.findall(defs[n][1].split(":=", 1)[1]) if m not in need]
        defs = {n: defs[n] for n in need}
    return "\n".join(line for _, line in sorted(defs.values())) + "\n"


def memo(f):
    def g(*a):
        k = (f.__name__,) + a
        v = I.memo.get(k)
        if v is None:
            v = I.memo[k] = f(*a)
        return v
    return g


@memo
def istr(s):
    return I.get("s", "str", cstr(s))


@memo
def ccls(k):
    code = CLASS_CODES[k] if isinstance(k, int) else (99, 99)          # an object that is none of the three classes
    return I.get("k", "N * N", "(%s, %s)" % (cN(code[0]), cN(code[1])))


@memo
def op_term(i, o):
    if o[0] == "register":
        body = "ORegister %s %s" % (istr(o[1]), ccls(o[2]))
    elif o[0] == "unregister":
        body = "OUnregister %s" % istr(o[1])
    elif o[0] == "get":
        body = "OGet %s" % istr(o[1])
    elif o[0] == "clear":
        body = "OClear"
    elif o[0] == "protect":
        body = "OProtect %s" % clist([istr(t) for t in prot_list(o[1])])
    else:
        body = "OAll"
    return I.get("o", "wop", "WOp %d (%s)" % (i, body))


@memo
def _all_term(items):
    if items is None:                                                   # not a dict: equals no model value
        items = (("", None), ("", None))
    return I.get("a", "list (str * (N * N))", chain(["ec %s %s" % (istr(n), ccls(k)) for n, k in items], "en"))


def all_term(d):
    return _all_term(tuple(d.items()) if isinstance(d, dict) else None)


def out_term(res):
    if res[0] == "none":
        return "RNone"
    if res[0] == "cls":
        return "(RCls %s)" % ccls(res[1])
    if res[0] == "all":
        return "(RAll %s)" % all_term(res[1])
    if res[0] == "err":
        return "(RErr %s)" % ERR.get(res[1], "EOther")
    return "(RErr EOther)"


@memo
def _snap_term(items):
    return I.get("p", "list (str * bool)", chain(["tc %s %s" % (istr(t), cbool(b)) for t, b in items], "tn"))


def snap_term(s):
    return _snap_term(tuple(s.items()))


@memo
def _alls_term(names):
    return I.get("al", "list (list (str * (N * N)))", chain(["ac %s" % n for n in names], "an"))


@memo
def _snaps_term(names):
    return I.get("pl", "list (list (str * bool))", chain(["lc %s" % n for n in names], "ln"))


@memo
def _obs_term(out, al, pl):
    return I.get("q", WOBS, "mkobs %s %s %s" % (out, al, pl))


def obs_term(res, alls, snaps):
    return _obs_term(out_term(res), _alls_term(tuple(all_term(a) for a in alls)), _snaps_term(tuple(snap_term(s) for s in snaps)))


def obs_inline(res, alls, snaps):
    """the same with nothing but strings and classes defined by name (random histories: observations are hardly ever repeated,
    and a Definition costs more than elaborating its body once)"""
    def ent(d):
        items = tuple(d.items()) if isinstance(d, dict) else (("", None), ("", None))
        return chain(["ec %s %s" % (istr(n), ccls(k)) for n, k in items], "en")
    r = out_term(res) if res[0] != "all" else "(RAll (%s))" % ent(res[1])
    al = chain(["ac (%s)" % ent(a) for a in alls], "an")
    pl = chain(["lc (%s)" % chain(["tc %s %s" % (istr(t), cbool(b)) for t, b in sn.items()], "tn") for sn in snaps], "ln")
    return "(mkobs %s (%s) (%s))" % (r, al, pl)


def chain(heads, nil):
    """`h1 (h2 (... nil))` for monomorphic cons-like helpers"""
    t = nil
    for h in reversed(heads):
        t = "%s %s" % (h, t if t == nil else "(%s)" % t)
    return t


@memo
def _cfg_term(ls, rs):
    lt = I.get("ls", "list (list str * list str)",
               clist(["(%s, %s)" % (clist([istr(t) for t in b]), clist([istr(t) for t in p])) for b, p in ls]))
    rt = I.get("rs", "list (nat * fmtspec)", clist(["(%d%%nat, %s)" % (li, fmt_term(f)) for li, f in rs]))
    return lt, rt


def cfg_term(libspecs, regspecs):
    return _cfg_term(tuple((tuple(b), tuple(prot_list(p))) for b, p in libspecs), tuple(regspecs))


def path_term(libspecs, regspecs, ops, obs):
    ls, rs = cfg_term(libspecs, regspecs)
    return "(%s, %s, %s)" % (ls, rs, chain(["sc %s %s" % (op_term(i, o), obs_inline(*ob)) for (i, o), ob in zip(ops, obs)], "sn"))


def forest_term(kids):
    t = "FN"
    for k in reversed(kids):
        t = "FC (%s) (%s)" % (k, t) if t != "FN" else "FC (%s) FN" % k
    return t


# ---------------------------------------------------------------------------------------------
# exhaustive part: trees of histories, walked by worker processes
# ---------------------------------------------------------------------------------------------
NAMES3 = ["a", "slot", "fill"]


def alphabet(names, nreg=1, classes=(0, 1, 2), protects=(), get=True):
    ops = []
    for i in range(nreg):
        for n in names:
            for k in classes:
                ops.append((i, ("register", n, k)))
            ops.append((i, ("unregister", n)))
            if get:
                ops.append((i, ("get", n)))
        ops.append((i, ("clear",)))
        ops.append((i, ("all",)))
        for ps in protects:
            ops.append((i, ("protect", ps)))          # mark_protected_tags(registry i's Library, ps)
    return ops


def orbit_ok(ls, rs):
    """slot <-> fill is a symmetry of the configuration: same status in every library, formatters that treat names alike"""
    x, y = SYM_NAMES
    for b, p in ls:
        pl = prot_list(p)
        if (x in b) != (y in b) or (x in pl) != (y in pl):
            return False
    return all(f[0] in ("component", "shorthand") for _, f in rs)


def g_apply(g, op):
    i, o = op
    sn, sk = g
    if sn and len(o) > 1 and o[1] in SYM_NAMES:
        o = (o[0], SYM_NAMES[1 - SYM_NAMES.index(o[1])]) + tuple(o[2:])
    if sk and o[0] == "register" and o[2] in SYM_CLASSES:
        o = (o[0], o[1], SYM_CLASSES[o[2]])
    return (i, o)


def canon_child(op, seen, names_sym=True):
    """may `op` extend a canonical history that has (seen[0]) named slot/fill, (seen[1]) registered K1/K1b? -> new seen or None"""
    o = op[1]
    sn, sk = seen
    if names_sym and len(o) > 1 and o[1] in SYM_NAMES:
        if not sn and o[1] == SYM_NAMES[1]:
            return None
        sn = True
    if o[0] == "register" and o[2] in SYM_CLASSES:
        if not sk and o[2] % 3 == 2:            # K1b before K1
            return None
        sk = True
    return (sn, sk)


JOBS = []      # filled before the worker pool is forked


def make_job(ls, rs, alpha, L, kind, orbit=False, claimed=True, split=None, names_sym=True):
    """orbit: one history per orbit of G (names_sym=False: of the subgroup generated by K1<->K1b alone)"""
    if orbit and names_sym:
        assert orbit_ok(ls, rs), (ls, rs)
    return {"ls": ls, "rs": rs, "alpha": alpha, "L": L, "kind": kind, "orbit": orbit, "claimed": claimed, "names_sym": names_sym,
            "split": split if split is not None else max(1, L - 3)}


def job_tasks(jid, seed):
    """the sub-trees of job jid: (jid, canonical-space prefix, seen flags, g)"""
    job = JOBS[jid]
    out = []

    def rec(prefix, seen):
        if len(prefix) == job["split"]:
            g = (False, False)
            if job["orbit"]:
                r = random.Random("C15-orbit-%s-%d-%r" % (seed, jid, prefix))
                g = (r.random() < 0.5 and job["names_sym"], r.random() < 0.5)
            out.append((jid, tuple(prefix), seen, g))
            return
        for op in job["alpha"]:
            s2 = canon_child(op, seen, job["names_sym"]) if job["orbit"] else seen
            if s2 is not None:
                rec(prefix + [op], s2)
    rec([], (False, False))
    return out


def walk_task(task, collect_paths=False):
    """Walks one sub-tree on the implementation.  Returns the forest term (a chain for the prefix, then the sub-tree),
    counts, digests of the non-trivial histories, oracle failures, notes - and, if asked, every maximal history."""
    jid, prefix, seen0, g = task
    job = JOBS[jid]
    t_cpu = time.process_time()
    ls, rs, L, alpha, orbit, claimed = job["ls"], job["rs"], job["L"], job["alpha"], job["orbit"], job["claimed"]
    notes = collections.Counter()
    res = {"leaves": 0, "nontrivial": [], "fails": [], "paths": []}
    used = set()
    cfgkey = repr((ls, rs))

    def node(hist, st):
        """hist: the actual calls so far (non-empty); st: oracle state BEFORE the last call.  Returns (term, st after)."""
        w = World(ls, rs)
        try:
            for i, o in hist[:-1]:
                w.call(i, o)
            i, o = hist[-1]
            r, alls, snaps, fl = do_step(w, ls, st, i, o, claimed, notes)
        finally:
            w.close()
        ot, qt = op_term(i, o), obs_term(r, alls, snaps)
        used.add(ot)
        used.add(qt)
        return (ot, qt, (r, alls, snaps)), fl

    def leaf(hist, st, obs):
        res["leaves"] += 1
        if claimed and nontrivial(st):
            res["nontrivial"].append(hashlib.md5((cfgkey + repr(hist)).encode()).digest()[:8])
        if collect_paths:
            res["paths"].append((list(hist), list(obs)))

    def rec(hist, obs, st, seen, canon_len):
        # hist/obs/st describe a node already visited; returns the forest of its children
        if len(hist) == L:
            leaf(hist, st, obs)
            return "FN"
        kids = []
        if canon_len < len(prefix):
            cands = [prefix[canon_len]]                       # the chain leading to this task's sub-tree
        else:
            cands = alpha
        for cop in cands:
            s2 = canon_child(cop, seen, job["names_sym"]) if orbit else seen
            if s2 is None:
                continue
            op = g_apply(g, cop)
            st2 = copy_state(st)
            (ot, qt, ob), fl = node(hist + [op], st2)
            if fl:
                # the property itself failed here: report the history, do not descend (nothing to compare below)
                if len(res["fails"]) < 20:
                    res["fails"].append((fl[0][0], "step %d %s" % (len(hist), fl[0][1]), list(hist + [op])))
                res["leaves"] += 1
                kids.append("K %s %s FN" % (ot, qt))
                continue
            sub = rec(hist + [op], obs + [ob], st2, s2, canon_len + 1)
            kids.append("K %s %s %s" % (ot, qt, sub if sub == "FN" else "(%s)" % sub))
        return forest_term(kids)

    w0 = World(ls, rs)
    try:
        st0 = new_state(w0, ls)
    finally:
        w0.close()
    forest = rec([], [], st0, (False, False), 0)
    lt, rt = cfg_term(ls, rs)
    res["term"] = "(%s, %s, %s)" % (lt, rt, forest)
    used.update((lt, rt))
    res["used"] = used
    res["nodes"] = forest.count("K ")
    res["notes"] = notes
    res["defs"] = I.drain()
    res["task"] = task
    res["cpu"] = time.process_time() - t_cpu
    return res


def _pool_walk(task):
    return walk_task(task)


# ---------------------------------------------------------------------------------------------
# generators
# ---------------------------------------------------------------------------------------------
NAMES_MORE = ["a", "slot", "fill", "b", "component", "provide", "x-a", "a.b:c", "my comp", "", "a\n", "a\n\n", "{a}", "x-slot", "A_9",
              # Python keywords; names with code points >= 128: letters, digits (\w is Unicode-aware), non-word characters
              "class", "None", "def", "import", "é", "naïve-ü", "日本", "ß", "x²", "١",
              "a×b", "a ", " ", "slöt", "\U0001d538", "\U0001f600"]


def single_configs():
    for f in [("component", "default"), ("shorthand", "instance")]:
        for prot in [None, "default"]:
            yield [(BUILTINS, prot)], [(0, f)]


TWO = [([(BUILTINS, "default"), (BUILTINS, None)], [(0, ("shorthand", "instance")), (1, ("component", "default"))]),
       ([(BUILTINS, None), (BUILTINS, "default")], [(1, ("shorthand", "string")), (0, ("shorthand", "instance"))])]
SHARED = ([(BUILTINS, "default")], [(0, ("shorthand", "instance")), (0, ("component", "default"))])


def tree_jobs(thorough):
    """groups of jobs; a group is walked and evaluated in Coq before the next one starts (bounded memory)"""
    singles = list(single_configs())
    groups = []
    # the class family of a configuration: direct subclasses / siblings under a base component / parent-child chain
    A = [alphabet(NAMES3, classes=fam(f)) for f in range(NFAM)]
    # 1. one registry, default / shorthand formatter x without / with protected tags: ALL histories
    Lfull = 5 if thorough else 4
    groups.append(("one-exh%d" % Lfull, [make_job(ls, rs, A[(0, 1, 2, 1)[ci]], Lfull, "one-exh%d" % Lfull)
                                         for ci, (ls, rs) in enumerate(singles)]))
    # 2. ... and one history per orbit for the next length(s)
    #    (quick: shorthand formatter + protected tags; thorough: also default formatter + unprotected)
    Lo = 6 if thorough else 5
    groups.append(("one-orbit%d" % Lo, [make_job(ls, rs, A[2 if ci == 3 else 0], Lo, "one-orbit%d" % Lo, orbit=True)
                                        for ci, (ls, rs) in enumerate(singles) if ci == 3 or (thorough and ci == 0)]))
    # 3. other formatters / protection lists / names, one registry
    Lx = 4 if thorough else 3
    extra = [([(BUILTINS, ["a", "component"])], [(0, ("component", "instance"))], NAMES3),
             ([(BUILTINS, ["x-a"])], [(0, ("prefix", "x-"))], NAMES3),
             ([([], None)], [(0, ("shorthand", "string"))], NAMES3),
             ([(BUILTINS, None)], [(0, ("badcomponent", "my tag"))], NAMES3),
             # names that are Python keywords / contain code points >= 128 (a letter; a non-word character: refused)
             ([(BUILTINS + ["class"], "default")], [(0, ("shorthand", "instance"))], ["class", "slöt", "a×b"]),
             ([(BUILTINS + ["class"], ["class", "é"])], [(0, ("shorthand", "instance"))], ["class", "é", "None"]),
             # tag == component name colliding with an UNPROTECTED pre-existing tag, next to a protected one
             ([(BUILTINS, ["fill"])], [(0, ("shorthand", "instance"))], ["component", "slot", "fill"]),
             # a protected tag that is NOT in the library (must never be created), next to one that is
             ([(["component", "slot"], "default")], [(0, ("shorthand", "instance"))], ["a", "slot", "provide"])]
    groups.append(("one-extra-exh%d" % Lx, [make_job(ls, rs, alphabet(ns, classes=fam(xi % NFAM)), Lx, "one-extra-exh%d" % Lx)
                                             for xi, (ls, rs, ns) in enumerate(extra)]))
    # 4. two registries on two private libraries: all interleavings of length 3; length 4: over 2 names, one per orbit of K1<->K1b
    #    (quick) / over 3 names, one per orbit of G, both configurations (thorough)
    A2 = [alphabet(NAMES3, 2, classes=fam(f)) for f in range(NFAM)]
    groups.append(("two-private-exh3", [make_job(ls, rs, A2[ti + 1], 3, "two-private-exh3") for ti, (ls, rs) in enumerate(TWO)]))
    if thorough:
        groups.append(("two-private-orbit4", [make_job(ls, rs, A2[2 - ti], 4, "two-private-orbit4", orbit=True) for ti, (ls, rs) in enumerate(TWO)]))
    else:
        groups.append(("two-private-2names-orbit4", [make_job(TWO[0][0], TWO[0][1], alphabet(["a", "slot"], 2, classes=fam(1)), 4, "two-private-2names-orbit4",
                                                              orbit=True, names_sym=False)]))
    # 5. mark_protected_tags as a CALL of the history (the protected list of a Library changes after the registry has been used):
    #    shorthand formatter (tag == name) on a Library that starts unprotected ("protect later") / with ["fill"] ("protect more"),
    #    default formatter (protecting `component` while components use it = not disciplined: reported, never an alarm)
    Lp = 5 if thorough else 4
    ap = [alphabet(NAMES3, classes=fam(f)[:2], protects=[(), "default", ("fill",), ("a",)], get=False) for f in range(NFAM)]
    apc = alphabet(["a", "slot"], classes=fam(2)[:2], protects=[(), "default", ("component",)], get=False) + [(0, ("get", "a"))]
    groups.append(("one-protect-exh%d" % Lp, [
        make_job([(BUILTINS, None)], [(0, ("shorthand", "instance"))], ap[0], Lp, "one-protect-exh%d" % Lp),
        make_job([(BUILTINS, ["fill"])], [(0, ("shorthand", "instance"))], ap[1], Lp, "one-protect-exh%d" % Lp),
        make_job([(BUILTINS, None)], [(0, ("component", "default"))], apc, Lp, "one-protect-exh%d" % Lp)]))
    # 6. OUTSIDE the claimed domain (diagnostic only): two registries sharing one library
    groups.append(("two-shared-diagnostic", [make_job(SHARED[0], SHARED[1], alphabet(["a", "slot"], 2), 3, "two-shared-diagnostic", claimed=False)]))
    return groups


def random_cases(chk, thorough):
    rng = chk.rng
    # random long histories, 1-3 registries, private libraries, more names
    for _ in range(12000 if thorough else 1500):
        nreg = rng.choice([1, 1, 2, 3])
        names = rng.sample(NAMES_MORE, rng.randint(2, 6))
        ls, rs = [], []
        for i in range(nreg):
            prot = rng.choice([None, "default", "default", ["a", "b"], ["component"], [], ["class", "é"]])
            ls.append((rng.choice([BUILTINS, BUILTINS, [], ["slot", "a", "x-a"], ["class", "é", "component"]]), prot))
            rs.append((i, rng.choice([("component", "default"), ("component", "instance"), ("shorthand", "instance"),
                                      ("shorthand", "string"), ("prefix", "x-"), ("prefix", "slo"), ("badcomponent", ""),
                                      ("prefix", "ü:")])))
        order = list(range(nreg))
        rng.shuffle(order)
        rs = [(order[i], f) for i, (_, f) in enumerate(rs)]
        # classes: one family, or classes of all families mixed (siblings, parent and child, unrelated ones under one name)
        pool = list(fam(rng.randrange(NFAM))) if rng.random() < 0.6 else rng.sample(range(3 * NFAM), rng.randint(3, 6))
        ops = []
        for _ in range(rng.randint(7, 40)):
            i = rng.randrange(nreg)
            kind = rng.choices(["register", "unregister", "get", "clear", "all", "protect"], [6, 3, 2, 0.5, 1, 1])[0]
            if kind in ("clear", "all"):
                ops.append((i, (kind,)))
            elif kind == "protect":
                ops.append((i, ("protect", rng.choice(["default", "default", (), tuple(rng.sample(names, rng.randint(1, 2))),
                                                       ("fill", "slot"), ("component",), ("x-a", "b")]))))
            elif kind == "register":
                ops.append((i, ("register", rng.choice(names), rng.choice(pool))))
            else:
                ops.append((i, (kind, rng.choice(names))))
        yield ls, rs, ops, "random-private", True
    # OUTSIDE the claimed domain (diagnostic only): two registries sharing one library
    for _ in range(2000 if thorough else 300):
        fs = [rng.choice([("component", "default"), ("shorthand", "instance"), ("prefix", "x-")]) for _ in range(2)]
        ops = []
        for _ in range(rng.randint(4, 25)):
            kind = rng.choices(["register", "unregister", "get", "clear", "all"], [6, 3, 1, 0.5, 1])[0]
            i = rng.randrange(2)
            ops.append((i, (kind,) if kind in ("clear", "all") else
                        (kind, rng.choice(NAMES3 + ["b"]), rng.randrange(3)) if kind == "register" else (kind, rng.choice(NAMES3 + ["b"]))))
        yield [(BUILTINS, rng.choice([None, "default"]))], [(0, fs[0]), (0, fs[1])], ops, "two-shared-diagnostic", False


def valid_tag_cases(chk, thorough):
    """Matcher-level differential for TAG_RE / _validate_tag (what the shorthand formatter accepts)."""
    from django_components.tag_formatter import InternalTagFormatter, ShorthandComponentFormatter, TAG_RE
    f = InternalTagFormatter(ShorthandComponentFormatter())
    rng = chk.rng
    alpha = ["a", "Z", "0", "_", "-", ":", "@", ".", "#", "/", " ", "\n", "\t", "{", "%", "\\", "$", "^", "]", "\r", "\x00", "~", "`", "["]
    strs = [""]
    for L in (1, 2, 3 if thorough else 2):
        strs += ["".join(p) for p in itertools.product(alpha, repeat=L)]
    strs += ["".join(p) for p in itertools.product(["a", "\n", " ", "-"], repeat=4)]
    strs += [chr(c) for c in range(128)] + ["a" + chr(c) for c in range(128)]
    for _ in range(3000 if thorough else 500):
        strs.append("".join(rng.choice(alpha) if rng.random() < 0.3 else chr(rng.randrange(32, 127))
                            for _ in range(rng.randint(1, 12))))
    # code points >= 128: every boundary of the accepted ranges (thorough) / a sample of them, random code points, mixtures
    edges, prev = [], False
    for c in range(128, 0x110000):
        ok = TAG_RE.match(chr(c)) is not None
        if ok != prev:
            edges += [c - 1, c]
            prev = ok
    edges = [c for c in edges if c >= 128]
    hi = edges if thorough else rng.sample(edges, 500)
    hi += [rng.randrange(128, 0x110000) for _ in range(2000 if thorough else 400)] + [0x80, 0x85, 0xA0, 0x2028, 0x2029, 0xD800, 0xDFFF, 0x10FFFF]
    strs += [chr(c) for c in hi] + ["a" + chr(c) + "-" for c in hi[:300]] + [chr(c) + "\n" for c in hi[:100]]
    for _ in range(1000 if thorough else 200):
        strs.append("".join(chr(rng.choice(hi)) if rng.random() < 0.5 else rng.choice(alpha) for _ in range(rng.randint(1, 6))))
    out = []
    for s in strs:
        try:
            ok = f.start_tag(s) == s
        except ValueError:
            ok = False
        out.append((s, ok))
    return out


def corpus_cases():
    """Minimised witnesses kept from development (mutants of the anchored code that an earlier generator missed, and
    the shortest histories exercising each clause).  Run first, through the direct oracle."""
    R, U, G = "register", "unregister", "get"
    lit = [
        # two names share the tag `component`; unregistering one must keep the tag, clear must remove it
        ([(BUILTINS, "default")], [(0, ("component", "default"))],
         [(0, (R, "a", 0)), (0, (R, "slot", 1)), (0, (U, "a")), (0, (G, "slot")), (0, ("clear",)), (0, ("all",))]),
        # protected names under the shorthand formatter
        ([(BUILTINS, "default")], [(0, ("shorthand", "instance"))],
         [(0, (R, "slot", 0)), (0, (R, "a", 0)), (0, (R, "a", 1)), (0, (R, "a", 0)), (0, (U, "fill")), (0, ("clear",))]),
        # same _class_hash, different class object: accepted, get returns the new object
        ([([], None)], [(0, ("shorthand", "instance"))],
         [(0, (R, "a", 1)), (0, (R, "a", 2)), (0, (G, "a")), (0, (U, "a")), (0, (U, "a"))]),
        # two registries, private libraries, same names
        ([(BUILTINS, None), (BUILTINS, None)], [(0, ("component", "default")), (1, ("component", "default"))],
         [(0, (R, "a", 0)), (1, (R, "a", 1)), (1, (U, "a")), (0, (G, "a")), (0, ("clear",))]),
        # a protected name registered twice under the shorthand formatter must be refused twice and leave nothing behind
        # (seed C15a: `_tags[tag] = set()` created before the protected-tag check)
        ([(BUILTINS, "default")], [(0, ("shorthand", "instance"))],
         [(0, (R, "slot", 0)), (0, (R, "slot", 0)), (0, ("all",)), (0, (U, "slot")), (0, (R, "slot", 1))]),
        # default formatter: every component uses the tag `component`; unregister of one of three, then of the others
        ([(BUILTINS, "default")], [(0, ("component", "default"))],
         [(0, (R, "a", 0)), (0, (R, "b", 1)), (0, (R, "c", 2)), (0, (U, "b")), (0, (G, "a")), (0, (U, "a")), (0, (U, "c")), (0, (R, "a", 0))]),
        # clear, then the same tag again: nothing stale may survive in `_tags`
        ([(BUILTINS, "default")], [(0, ("shorthand", "instance"))],
         [(0, (R, "a", 0)), (0, ("clear",)), (0, (R, "a", 1)), (0, (U, "a")), (0, (R, "a", 0)), (0, ("clear",)), (0, ("all",))]),
        # tag == name colliding with an unprotected pre-existing tag: overwritten and removed (allowed), protected one refused
        ([(BUILTINS, ["fill"])], [(0, ("shorthand", "instance"))],
         [(0, (R, "component", 0)), (0, (R, "fill", 0)), (0, (U, "component")), (0, (R, "slot", 1)), (0, ("clear",))]),
        # seed C15c ("protect later" / "protect more"): the protected list of the Library changes after the registry has used it
        ([(BUILTINS, None)], [(0, ("shorthand", "instance"))],
         [(0, (R, "card", 0)), (0, ("protect", "default")), (0, (R, "slot", 1)), (0, (U, "slot")), (0, ("clear",)), (0, ("all",))]),
        ([(BUILTINS, ["fill"])], [(0, ("shorthand", "instance"))],
         [(0, (R, "card", 0)), (0, (U, "card")), (0, ("protect", ("fill", "slot"))), (0, (R, "slot", 1)), (0, ("clear",))]),
        # protection lifted again: the name becomes registrable, its pre-existing tag is overwritten and removed (allowed)
        ([(BUILTINS, "default")], [(0, ("shorthand", "instance"))],
         [(0, (R, "slot", 0)), (0, ("protect", ())), (0, (R, "slot", 0)), (0, ("protect", "default")), (0, (U, "slot")), (0, (R, "slot", 0))]),
        # keyword / non-ASCII names
        ([(BUILTINS + ["class"], ["class"])], [(0, ("shorthand", "instance"))],
         [(0, (R, "class", 0)), (0, (R, "é", 0)), (0, (R, "a×b", 0)), (0, (R, "None", 1)), (0, (U, "é")), (0, ("all",))]),
    ]
    # every literal history with the classes of every family (k -> 3 f + k), and the shortest witnesses of seed C15d
    out = []
    for f in range(NFAM):
        for ls, rs, ops in lit:
            out.append((ls, rs, [(i, (o[0], o[1], 3 * f + o[2]) if o[0] == R else o) for i, o in ops], "corpus"))
    sh = [(0, ("shorthand", "instance"))]
    out += [([([], None)], sh, [(0, (R, "n", 3)), (0, (R, "n", 4)), (0, (G, "n")), (0, ("all",))], "corpus"),      # siblings
            ([([], None)], sh, [(0, (R, "n", 6)), (0, (R, "n", 7)), (0, (G, "n"))], "corpus"),                     # parent, then its subclass
            ([([], None)], sh, [(0, (R, "n", 7)), (0, (R, "n", 6)), (0, (R, "n", 8)), (0, (G, "n"))], "corpus"),   # subclass, then parent
            ([([], None)], sh, [(0, (R, "n", 4)), (0, (R, "n", 0)), (0, (R, "n", 7)), (0, (R, "n", 5)), (0, (G, "n"))], "corpus")]
    for p in sorted(glob.glob(os.path.join(C.VERIF, "corpus", "C15", "*.json"))):
        j = json.load(open(p))
        out.append(([(b, tuple(pr) if isinstance(pr, list) else pr) for b, pr in j["libs"]],
                    [(li, tuple(f)) for li, f in j["regs"]],
                    [(i, tuple(o)) for i, o in j["ops"]], "corpus:" + os.path.basename(p)))
    return out


def replay_obj(ls, rs, ops, extra=None):
    d = {"libs": [[b, list(p) if isinstance(p, (list, tuple)) else p] for b, p in ls],
         "regs": [[li, list(f)] for li, f in rs], "ops": [[i, list(o)] for i, o in ops]}
    d.update(extra or {})
    return d


def shortest_failing_prefix(ls, rs, ops):
    for n in range(1, len(ops) + 1):
        _, fails, _ = run_case(ls, rs, ops[:n])
        if fails:
            return ops[:n], fails
    return ops, []


def run(tier, seed):
    pid = "_p%d" % os.getpid()                    # work files of concurrent runs (mutation experiments) must not collide
    import djsetup
    djsetup.setup()
    import gen_constants
    try:
        gen_constants.generate(["C15"])
    except Exception:
        import gen_c15
        C.write_if_changed(os.path.join(C.COQ, "Gen", "C15.v"), gen_constants.HEADER + gen_c15.gen_C15())
    chk = C.Check("C15", tier, seed)
    chk.prove()
    thorough = tier == "thorough"
    notes = collections.Counter()
    state = {"nfail": 0, "ndis": 0}

    def oracle_fail(ls, rs, ops, fails):
        state["nfail"] += 1
        if state["nfail"] > 5:
            return
        ops2, fails2 = shortest_failing_prefix(ls, rs, ops)
        trig, what = (fails2 or fails)[0]
        chk.fail(trig, what, replay_obj(ls, rs, ops2, {"kind": "history"}))

    def disagree(ls, rs, ops, where):
        state["ndis"] += 1
        if state["ndis"] > 10:
            return
        chk.disagree("Registry model != ComponentRegistry/Library (results, contents or tag tables) - " + where,
                     replay_obj(ls, rs, ops, {"kind": "history", "impl": repr(run_case(ls, rs, ops)[0])[:1500]}))

    # ---- class identity: `_class_hash` = the import path, whatever the inheritance between the classes ----
    cif = class_identity_failures()
    chk.count(("class-identity", NFAM), False, kind="class_identity")
    chk.extra["class_families"] = {
        "families": {"0": "direct subclasses of Component", "1": "siblings under a common base component",
                     "2": "chain: base component, its child K0, K0's children K1/K1b"},
        "classes": [{"class": k, "import_path": import_path(c), "bases": [b.__qualname__ for b in c.__bases__],
                     "_class_hash": getattr(c, "_class_hash", None)} for k, c in enumerate(classes())],
        "hash_identifies_import_path": not cif}
    if cif:
        chk.fail("c15-class-identity", "_class_hash does not identify a class with its import path: " + "; ".join(cif[:3]),
                 {"kind": "class-identity", "pairs": cif[:10]})

    # ---- corpus first ----
    for ls, rs, ops, kind in corpus_cases():
        obs, fails, st = run_case(ls, rs, ops, notes=notes)
        chk.count(("corpus", repr((ls, rs, ops))), True, kind="corpus")
        if fails:
            oracle_fail(ls, rs, ops, fails)

    # ---- exhaustive part: trees ----
    # All sub-trees of all groups go to the worker pool at once; the results come back in order and are handed to coqc in
    # batches (so the workers walk the next sub-trees while coqc evaluates the model on the previous ones).
    classes()
    groups = tree_jobs(thorough)
    del JOBS[:]
    tasks, task_group = [], []
    for gname, jobs in groups:
        for j in jobs:
            JOBS.append(j)
            ts = job_tasks(len(JOBS) - 1, seed)
            tasks += ts
            task_group += [gname] * len(ts)
    diag = {"cases": 0, "model_disagreements": 0, "first": None}
    tree_stats = collections.OrderedDict((g, {"group": g, "subtrees": 0, "calls_compared": 0, "maximal_histories": 0}) for g, _ in groups)
    defs = {}                       # every definition made so far (worker tables persist from task to task)
    batch = {"terms": [], "tasks": [], "used": set(), "nodes": 0, "n": 0}

    def locate(task):
        """the shortest disagreeing history inside a refused sub-tree"""
        job = JOBS[task[0]]
        r = walk_task(task, collect_paths=True)
        defs.update(r["defs"])
        paths = r["paths"][:20000]
        pterms = [path_term(job["ls"], job["rs"], h, ob) for h, ob in paths]
        defs.update(I.drain())
        pbad = C.coq_eval_cases("C15", "locate" + pid, IMPORTS, PATH_TYPE, "check_path_case", pterms, shard=2500,
                                extra_defs=defs_text(defs, names_in(pterms)))
        if not job["claimed"]:
            diag["model_disagreements"] += len(pbad) or 1
            if diag["first"] is None and pbad:
                diag["first"] = replay_obj(job["ls"], job["rs"], paths[pbad[0]][0])
            return
        if not pbad:
            disagree(job["ls"], job["rs"], [g_apply(task[3], op) for op in task[1]], "somewhere below this prefix")
            return
        h, ob = paths[pbad[0]]
        pre = [path_term(job["ls"], job["rs"], h[:n], ob[:n]) for n in range(1, len(h) + 1)]
        defs.update(I.drain())
        qbad = C.coq_eval_cases("C15", "locate2" + pid, IMPORTS, PATH_TYPE, "check_path_case", pre, shard=2500,
                                extra_defs=defs_text(defs, names_in(pre)))
        n = (qbad[0] + 1) if qbad else len(h)
        disagree(job["ls"], job["rs"], h[:n], "shortest disagreeing history of its sub-tree")

    def flush():
        if not batch["terms"]:
            return
        per_file = max(20000, min(100000, batch["nodes"] // C.NCPU + 1))
        per_term = max(1, batch["nodes"] // len(batch["terms"]))
        t0 = os.times()
        bad = C.coq_eval_cases("C15", "tree%d" % batch["n"] + pid, IMPORTS, TREE_TYPE, "check_forest_case", batch["terms"],
                               shard=max(1, per_file // per_term), extra_defs=defs_text(defs, batch["used"]))
        t1 = os.times()
        ts = tree_stats[batch["group"]]
        ts["coqc_cpu_s"] = ts.get("coqc_cpu_s", 0) + (t1.children_user + t1.children_system - t0.children_user - t0.children_system)
        btasks = batch["tasks"]
        batch.update({"terms": [], "tasks": [], "used": set(), "nodes": 0, "n": batch["n"] + 1})
        # a property failure found by the direct oracle is what will be reported: do not spend time on locating model differences then
        nloc = 0 if state["nfail"] else (3 if state["ndis"] < 3 else 0)
        for bi in bad[:nloc]:
            locate(btasks[bi])
        state["ndis"] += sum(1 for bi in bad[nloc:] if JOBS[btasks[bi][0]]["claimed"])
        diag["model_disagreements"] += sum(1 for bi in bad[nloc:] if not JOBS[btasks[bi][0]]["claimed"])

    # back-pressure: at most ~one coqc batch of finished sub-trees waits in memory while coqc is busy
    budget = threading.Semaphore(20 * C.NCPU)
    stop = threading.Event()

    def feed():
        for t in tasks:
            budget.acquire()
            if stop.is_set():
                return
            yield t

    pool = multiprocessing.get_context("fork").Pool(processes=C.NCPU)
    try:
        last = None
        for ti, r in enumerate(pool.imap(_pool_walk, feed(), chunksize=1)):
            budget.release()
            if task_group[ti] != last or batch["nodes"] >= 1600000:
                flush()
                last = task_group[ti]
            job = JOBS[r["task"][0]]
            batch["group"] = task_group[ti]
            batch["terms"].append(r["term"])
            batch["tasks"].append(r["task"])
            batch["used"] |= r["used"]
            batch["nodes"] += r["nodes"]
            defs.update(r["defs"])
            notes.update(r["notes"])
            ts = tree_stats[task_group[ti]]
            ts["subtrees"] += 1
            ts["calls_compared"] += r["nodes"]
            ts["maximal_histories"] += r["leaves"]
            ts["walk_cpu_s"] = ts.get("walk_cpu_s", 0) + r["cpu"]
            chk.dist[job["kind"]] += r["leaves"]
            if job["claimed"]:
                chk.evaluations += r["leaves"]
                chk.nontrivial.update(r["nontrivial"])
                for trig, what, hist in r["fails"]:
                    oracle_fail(job["ls"], job["rs"], hist, [(trig, what)])
            else:
                diag["cases"] += r["leaves"]
        flush()
    finally:
        stop.set()
        budget.release()            # the pool's feeder thread may be waiting for budget: let it see `stop`
        pool.terminate()
        pool.join()
    tree_stats = list(tree_stats.values())
    for ts in tree_stats:
        ts["walk_cpu_s"] = round(ts.get("walk_cpu_s", 0), 1)
        ts["coqc_cpu_s"] = round(ts.get("coqc_cpu_s", 0), 1)

    # ---- random long histories (one path case each) ----
    rterms, rcases, dterms, dcases = [], [], [], []
    for ls, rs, ops, kind, claimed in random_cases(chk, thorough):
        obs, fails, st = run_case(ls, rs, ops, oracle=claimed, notes=notes)
        if not claimed:
            dterms.append(path_term(ls, rs, ops, obs))
            dcases.append((ls, rs, ops))
            chk.dist[kind] += 1
            diag["cases"] += 1
            continue
        nt = nontrivial(st)
        chk.count((repr(ls), repr(rs), tuple(ops)), nt, kind=kind,
                  sample=replay_obj(ls, rs, ops, {"observed": [r for r, _, _ in obs]}) if nt else None)
        if fails:
            oracle_fail(ls, rs, ops, fails)
            continue                        # the history was cut at the failure: nothing to compare with the model
        rterms.append(path_term(ls, rs, ops, obs))
        rcases.append((ls, rs, ops))
    defs.update(I.drain())
    dt = defs_text(defs, names_in(rterms) | names_in(dterms))
    bad = C.coq_eval_cases("C15", "random" + pid, IMPORTS, PATH_TYPE, "check_path_case", rterms, shard=400, extra_defs=dt) if rterms else []
    for i in sorted(bad, key=lambda i: len(rcases[i][2])):
        ls, rs, ops = rcases[i]
        disagree(ls, rs, ops, "random history")
    dbad = C.coq_eval_cases("C15", "diag" + pid, IMPORTS, PATH_TYPE, "check_path_case", dterms, shard=400, extra_defs=dt) if dterms else []
    diag["model_disagreements"] += len(dbad)
    if dbad and diag["first"] is None:
        diag["first"] = replay_obj(*dcases[dbad[0]])
    diag["note"] = "two registries on ONE Library: outside the claimed domain, compared with the model only, never an alarm"
    chk.extra["shared_library_diagnostic"] = diag
    chk.extra["tree_groups"] = tree_stats
    chk.extra["reported_not_alarmed"] = {
        "counts": dict(sorted(notes.items())),
        "same_class": "the library identifies a class with its import path (_class_hash; DESIGN section 10). register() of ANOTHER class object "
                      "with the same hash on a held name is accepted as a re-registration of the same class: names, tags, _tags, "
                      "library.tags stay as they are and the STORED OBJECT becomes the new one (get/all return it afterwards) - "
                      "theorem same_hash_reregistration_replaces_object_only, Example same_hash_other_object_replaces_stored_object. "
                      "The direct oracle compares classes by hash; the model comparison is by object.",
        "protect_while_used": "mark_protected_tags naming the tag of a LIVE component (count: tag_marked_protected_while_a_component_uses_it): "
                              "unregister then keeps the tag function in the library and a same-class re-registration is refused - the two clauses "
                              "of the statement pull in opposite directions, so the exists-iff-used clause is not applied to such tags "
                              "(Example protecting_a_live_tag_leaves_it_behind; theorems about it need `disciplined`).",
        "unprotected_preexisting_tags": "the statement protects PROTECTED tags. A pre-existing tag of a Library that is not in its protected "
                                        "list (no mark_protected_tags, or a custom list) is overwritten by a component whose tag collides with it "
                                        "(shorthand formatter: tag == component name) and removed from library.tags when the last such component "
                                        "is unregistered - Example unprotected_builtin_overwritten_then_removed.",
    }
    # ---- matcher-level differential for TAG_RE ----
    vt = valid_tag_cases(chk, thorough)
    for s, ok in vt:
        chk.count(("valid", s), False, kind="valid_tag")
    vbad = C.coq_eval_cases("C15", "valid" + pid, IMPORTS, "str * bool", "check_valid",
                            ["(%s, %s)" % (cstr(s), cbool(ok)) for s, ok in vt], shard=4000)
    for i in vbad[:5]:
        chk.disagree("valid_tag matcher != InternalTagFormatter._validate_tag", {"kind": "valid_tag", "tag": vt[i][0], "impl_accepts": vt[i][1]})
    chk.assumptions = [
        "every registry has its own private django.template.Library (two registries on one Library: diagnostic only)",
        "the tag formatter of a registry does not change during a history and is deterministic; the protected list of a Library changes only "
        "through mark_protected_tags calls, which are part of the histories",
        "a class is identified by _class_hash (its import path) as in the code: another class object with the same hash is the same "
        "class (accepted on re-registration; the stored object is replaced by it); the model uses injective codes for hashes",
        "code points >= 128 in tags: the model reads which ones TAG_RE accepts from a table probed from the compiled TAG_RE on every run "
        "(coq/Gen/C15.v tag_ranges_hi); single-threaded use",
    ]
    Lf, Lo = (5, 6) if thorough else (4, 5)
    tm = os.times()
    chk.extra["cpu_seconds"] = {"main_process": round(tm.user + tm.system, 1), "workers_and_coqc": round(tm.children_user + tm.children_system, 1),
                                "jobs": C.NCPU}
    return chk.finish(
        rule="Calls = {register x 3 names (a, slot, fill) x 3 classes (K0; K1 and K1b = two class objects with ONE import path), unregister, get} "
             "+ clear + all = 17 per registry. The 3 classes of a configuration are one of 3 FAMILIES (spread over the configurations of every "
             "group; mixed in the random histories): direct subclasses of Component / siblings under a common base component / a chain (base, "
             "its child K0, K0's children K1, K1b). Distinct import paths are distinct classes for the oracle and the model whatever the "
             "inheritance (AlreadyRegistered expected), and `_class_hash` is checked directly to be equal exactly for equal import paths over all "
             "11 generated classes (c15-class-identity). One registry, default / shorthand formatter x Library without / with mark_protected_tags (4 "
             "configurations): (i) ALL histories of length %d (17^%d each; every shorter history is an observed prefix); (ii) length %d, %s: ONE history "
             "per ORBIT of the group G (order 4) generated by the renamings slot<->fill (both pre-existing tags of the Library, both protected or "
             "both not, treated alike by both formatters - checked per configuration) and K1<->K1b: statement and configuration are "
             "invariant under G, the model too (K1<->K1b: theorem class_objects_never_inspected; slot<->fill: by inspection - names enter "
             "only through equality, the formatter and membership in tag table / protected list); the canonical histories (first call naming slot/fill names slot, first registration of K1/K1b registers K1) are "
             "closed under prefixes, so they are enumerated as a tree without building the rest, and of every sub-tree the image under a member "
             "of G drawn from the seed is what is run - each orbit exactly once, no member systematically skipped; that the code does not tell "
             "members of an orbit apart is NOT assumed up to length %d, where all of them are run. 8 further configurations (custom protected "
             "list, user-defined formatter, empty library, invalid ComponentFormatter tag, keyword / non-ASCII / non-word names, tag == name "
             "colliding with an unprotected pre-existing tag next to a protected one, protected tag absent from the library): all histories of length %d. Two registries on two private "
             "libraries, 34 calls: all interleavings of length 3 (2 configurations); length 4: %s. mark_protected_tags(library, ..) as a CALL of "
             "the history (the protected list changes after the registry has used the Library; model: OProtect): all histories of length %d over "
             "{register x (a, slot, fill) x (K0, K1), unregister, clear, all, protect [] / PROTECTED_TAGS / [fill] / [a]} = 15 calls, shorthand "
             "formatter, Library starting unprotected and with [fill]; and over 12 calls (protect [] / PROTECTED_TAGS / [component]) with the "
             "default formatter. A tag keeps the library entry it had when it became protected for as long as it stays in the list (oracle "
             "c15-protected-touched; theorem protected_never_touched); tags marked protected WHILE a component uses them are exempt from the "
             "exists-iff-used clause (statement silent, counted in reported_not_alarmed). Histories are produced and "
             "compared as trees (a node = one call + result + all() of every registry + tag table of every library; theorem "
             "tree_check_is_per_history_check). Seeded random histories of 7..40 calls (incl. protect calls) over 1-3 registries, 31 names (invalid, "
             "newline, protected, prefixed, keywords, code points >= 128) and 8 formatters. evaluations = maximal histories (+ corpus, + tag strings). "
             "Non-trivial = a tag was added to and removed from library.tags and (an exception was raised or two registered names shared a "
             "tag). Distinct = distinct (configuration, history)."
             % (Lf, Lf, Lo, "shorthand+protected and default+unprotected" if thorough else "shorthand formatter + protected tags only",
                Lf, 4 if thorough else 3,
                "one interleaving per orbit of G over the 34 calls, both configurations" if thorough else
                "over 2 names (a, slot; 24 calls), one interleaving per orbit of K1<->K1b, 1 configuration",
                Lf),
        explanation="theorems of Props/C15.v re-checked by coqc; after EVERY call the result, all() of every registry and the tag table of every "
                    "Library (incl. whether each pre-existing tag still is the original function) are compared with an independent dict "
                    "reference + tag-iff-used / protected-untouched predicates (direct oracle; classes compared by _class_hash) and with the Coq "
                    "model (vm_compute; classes compared by object).",
        extra_trusted=["modelled, not verified: Python dict/set semantics, django.template.Library.tag (stores the function under the name), "
                       "re (TAG_RE: hand matcher below code point 128 anchored to the pattern string, table probed from the compiled TAG_RE "
                       "from 128 on; differentially tested every run)"])


def replay(path):
    import djsetup
    djsetup.setup()
    r = json.load(open(path))
    print(json.dumps(r, indent=1)[:3000])
    case = r.get("case", {})
    if case.get("kind") == "class-identity":
        cif = class_identity_failures()
        print("\n".join(cif) or "_class_hash identifies every generated class with its import path")
        return 1 if cif else 0
    if case.get("kind") == "history":
        ls = [(b, tuple(p) if isinstance(p, list) else p) for b, p in case["libs"]]
        rs = [(li, tuple(f)) for li, f in case["regs"]]
        ops = [(i, tuple(o)) for i, o in case["ops"]]
        obs, fails, st = run_case(ls, rs, ops)
        for (i, o), (res, alls, snaps) in zip(ops, obs):
            print("registry %d %-28r -> %-28r all()=%r library.tags=%r" % (i, o, res, alls, snaps))
        print("oracle failures:", fails)
        return 1 if fails else 0
    return 0
