"""C19 - every script URL a render emits is served with that component's code.

Model: coq/Serve/Model.v   Theorems: coq/Props/C19.v (proofs in coq/Serve/Proofs.v)
Correspondence:
 (1) histories of renders (atomic Component.render(type=document|fragment), and the split flow template render ->
     render_dependencies) of generated component classes with/without js/css/get_js_data/get_css_data, interleaved with
     cache.delete / cache.clear, and requests (django.test.Client) of every announced URL plus adversarial paths/methods;
     compared op by op with the model (announced URL multisets, exception class, status/content-type/body) and on the
     final cache key set;
 (2) django.urls.resolve vs the hand-written route matcher; (3) str.strip / is_nonempty_str / str.isspace.
Direct oracle (independent of the model): every announced URL is fetched -> 200, body == that class's stripped code,
right Content-Type; a URL stays owed until exactly ITS cache entry is deleted (deleting other entries releases nothing; clear()
releases all); no request ever gives 5xx or a body that is not the code of the class named in the path; non-GET on a
well-formed endpoint path -> 405; unknown hash / kind -> 404.
Outside the statement (lead's decision; reported in evidence coverage.outside_statement_split_flow, never an alarm): template
render, THEN an eviction of the entry, THEN render_dependencies over the stale markers.
"""
import base64
import hashlib
import html as htmllib
import itertools
import json
import os
import re
import urllib.parse
import warnings

import common as C
from common import clist, copt, cstr

IMPORTS = "From DJC Require Import Lib.Base Serve.Model."
PREFIX = "/components/cache/"
METHODS = ["GET", "POST", "HEAD", "PUT", "DELETE", "OPTIONS", "PATCH"]
WELL = re.compile(r"^/components/cache/([^./]+)\.(?:([^./]+)\.)?([^./]+)$")

# ------------------------------------------------------------------------------------------------------------------
# generated component classes
# ------------------------------------------------------------------------------------------------------------------
JS_CHOICES = [None, "", "  \n", "console.log(1)", "  a()\n", "\xa0b( )　", "x</SCRIPT>y", "é=1;", "\x1f q \x1c",
              "//:.js", "a", "let s='<\\/script>'"]
CSS_CHOICES = [None, "", " \t", ".a{}", "\n .b { color: red }  ", " .c{}\x85", "p</Style >q", ".é{}", ":root{}", "b"]
NAMES = ["Btn", "Card", "Café", "Dup", "Dup", "X", "A1b2c3", "Ünï", "T_", "Z9_abcdef", "js", "css", "Ωmega"]


def hook_data(mode, kind, val):
    """What get_js_data() / get_css_data() of a generated class return for the tag argument v / w (None = {}): hooks mode True ->
    different dicts for JS and CSS ({"v": v} / {"w": w}); mode "shared" -> the same key for both ({"x": v} / {"x": w}), so that the JS
    and the CSS variables of one render (v == w) or of different renders serialise equally and get the SAME input hash."""
    if not mode or not val:
        return None
    return {("x" if mode == "shared" else "v" if kind == "js" else "w"): val}


def make_class(spec, classes=()):
    """spec = {name, module, js, css, hooks[, base]}; a fresh Component subclass (never registered in /repo's own modules).
    hooks = False | True | "shared" (see hook_data).
    `base` = index of an earlier class of the same table to inherit from (js/css = None then mean "inherited")."""
    from django_components import Component
    d = {"template": "<div>%s</div>" % spec["name"], "js": spec["js"], "css": spec["css"], "__module__": spec["module"],
         "get_context_data": lambda self, *a, **k: {}}
    mode = spec["hooks"]
    if mode:
        d["_c19_hooks"] = mode
        d["get_js_data"] = lambda self, *a, v=None, w=None, **k: (hook_data(mode, "js", v) or {})
        d["get_css_data"] = lambda self, *a, v=None, w=None, **k: (hook_data(mode, "css", w) or {})
    base = classes[spec["base"]] if spec.get("base") is not None else Component
    return type(spec["name"], (base,), d)


class Pool:
    """A class table: generated component classes + the page component used for atomic renders."""
    _seq = [0]

    def __init__(self, specs):
        from django_components import Component, registry
        Pool._seq[0] += 1
        self.id = Pool._seq[0]
        self.specs = specs
        self.classes = []
        for sp in specs:
            self.classes.append(make_class(sp, self.classes))
        # what the library itself reports as the component's code / hooks (public attributes; inheritance resolved)
        self.codes = [{"js": c.js, "css": c.css} for c in self.classes]
        self.hooks = [getattr(c, "_c19_hooks", False) if hasattr(c, "get_js_data") else False for c in self.classes]
        self.tags = ["c19p%dc%d" % (self.id, i) for i in range(len(specs))]
        for t, c in zip(self.tags, self.classes):
            registry.register(t, c)

        self.page = type("C19Page", (Component,), {"get_template": lambda self, context: self.input.kwargs["tpl"],
                                                   "get_context_data": lambda self, *a, **k: {},
                                                   "__module__": "verif_c19_page%d" % self.id})
        self.by_hash = {c._class_hash: c for c in self.classes}
        self.by_hash[self.page._class_hash] = self.page

    def close(self):
        from django_components import registry
        for t in self.tags:
            try:
                registry.unregister(t)
            except Exception:
                pass

    # ---- Coq side ----
    def cdef_name(self, ci):
        return "ghost" if ci == -1 else ("p%dpage" % self.id if ci == -2 else "p%dc%d" % (self.id, ci))

    def coq_defs(self):
        out = []
        for i, c in enumerate(self.classes):
            out.append("Definition %s : cdef := {| chash := %s; cjs := %s; ccss := %s |}." % (
                self.cdef_name(i), cstr(c._class_hash), copt(self.codes[i]["js"], cstr), copt(self.codes[i]["css"], cstr)))
        out.append("Definition %s : cdef := {| chash := %s; cjs := None; ccss := None |}." % (self.cdef_name(-2), cstr(self.page._class_hash)))
        out.append("Definition tbl%d : list cdef := %s." % (self.id, clist([self.cdef_name(i) for i in range(len(self.classes))] + [self.cdef_name(-2)])))
        return "\n".join(out)


GHOST_HASH = "Ghost_000000"
GHOST_DEF = "Definition ghost : cdef := {| chash := %s; cjs := Some %s; ccss := None |}." % (cstr(GHOST_HASH), cstr("g()"))


_MODULE_SEQ = [0]


def random_specs(rng, n):
    specs = []
    for i in range(n):
        name = rng.choice(NAMES)
        _MODULE_SEQ[0] += 1   # distinct import paths by construction (class identity = import path)
        specs.append({"name": name, "module": "verif_c19_m%d_%d" % (_MODULE_SEQ[0], rng.randrange(1000)), "js": rng.choice(JS_CHOICES),
                      "css": rng.choice(CSS_CHOICES), "hooks": rng.choice([False, False, True, True, "shared", "shared", "shared"]),
                      "base": rng.randrange(i) if i and rng.random() < 0.25 else None})
    # always one pair of classes with the same NAME in different modules (distinct hashes) and different code
    a, b = rng.sample(range(n), 2)
    specs[b]["name"] = specs[a]["name"]
    specs[a].update(js="first()", css=rng.choice([".first{}", None]))
    specs[b].update(js=" second() ", css=rng.choice([".second{}", " .2{} "]), base=None)
    return specs


def input_hash(d):
    return hashlib.md5(json.dumps(d).encode()).hexdigest()[0:6]


# ------------------------------------------------------------------------------------------------------------------
# faked clock: what the cache backend sees as "now" (the harness never sleeps)
# ------------------------------------------------------------------------------------------------------------------
import time as _real_time  # noqa: E402

CULL_THRESHOLD = 300      # Django's default MAX_ENTRIES (what `MAX_ENTRIES: None` falls back to)


class FakeClock:
    """Stands in for the module-level `time` of django.core.cache.backends.locmem / .base (they call `time.time()`)."""

    def __init__(self):
        self.offset = 0.0

    def time(self):
        return _real_time.time() + self.offset

    def monotonic(self):
        return _real_time.monotonic() + self.offset

    def __getattr__(self, name):
        return getattr(_real_time, name)


CLOCK = FakeClock()


def install_clock():
    import django.core.cache.backends.base as bb
    import django.core.cache.backends.locmem as lm
    from django.core.cache.backends.locmem import LocMemCache
    for m in (lm, bb):
        if getattr(m, "time", None) is CLOCK:
            continue
        if getattr(m, "time", None) is not _real_time:
            raise C.HarnessError("cannot fake the clock of %s: it does not use the module `time`" % m.__name__)
        m.time = CLOCK
    # self-test: an entry with a 10 s lifetime must be gone after the faked clock advanced by 11 s
    probe = LocMemCache("verif-c19-clock-selftest", {"TIMEOUT": 10})
    probe.clear()
    probe.set("k", "v")
    ok1 = probe.has_key("k")
    CLOCK.offset += 11
    ok2 = probe.has_key("k")
    if not ok1 or ok2:
        raise C.HarnessError("faked clock has no effect on LocMemCache (%r, %r)" % (ok1, ok2))


# ------------------------------------------------------------------------------------------------------------------
# implementation runner
# ------------------------------------------------------------------------------------------------------------------
def media_cache():
    import django_components.cache as dc
    return dc.get_component_media_cache()


def cache_keys():
    """Keys currently in the (default LocMemCache) media cache, without Django's ':<version>:' prefix."""
    c = media_cache()
    out = []
    for k in list(c._cache.keys()):
        m = re.match(r"^[^:]*:\d+:(.*)$", k, flags=re.S)
        out.append(m.group(1) if m else k)
    return sorted(out)


def extract_urls(html, mode):
    """Endpoint URLs announced by the dependency-manager JSON block(s): (js, css), raw as emitted."""
    js, css = [], []
    for m in re.finditer(r'<script type="application/json" data-djc>(.*?)</script>', html, flags=re.S):
        d = json.loads(m.group(1))
        dec = {k: [base64.b64decode(x).decode() for x in v] for k, v in d.items()}
        if mode == "document":
            js += dec["loadedJsUrls"]
            css += dec["loadedCssUrls"]
        else:
            for t in dec["toLoadJsTags"]:
                mm = re.search(r'src="([^"]*)"', t)
                js.append(htmllib.unescape(mm.group(1)) if mm else t)
            for t in dec["toLoadCssTags"]:
                mm = re.search(r'href="([^"]*)"', t)
                css.append(htmllib.unescape(mm.group(1)) if mm else t)
    return [u for u in js if u.startswith(PREFIX)], [u for u in css if u.startswith(PREFIX)]


def tag_src(pool, insts):
    parts = []
    for ci, v, w in insts:
        args = ("" if v is None else " v=%d" % v) + ("" if w is None else " w=%d" % w)
        parts.append("{%% component '%s'%s / %%}" % (pool.tags[ci], args))
    return "".join(parts)


PAGE_VARIANTS = {
    "headbody": "<html><head><title>t</title></head><body><h1>p</h1>%s</body></html>",
    "placeholders": "<section>{%% component_css_dependencies %%}%s{%% component_js_dependencies %%}</section>",
}


def expected_for(pool, path_info):
    """Independent reading of a well-formed endpoint path: (class, kind, input_hash, expected body) or None."""
    m = WELL.match(path_info)
    if not m:
        return None
    h, ih, kind = m.group(1), m.group(2), m.group(3)
    cls = pool.by_hash.get(h)
    if cls is None or kind not in ("js", "css"):
        return None
    code = pool_code(pool, cls, kind)
    if code is None or not code.strip():
        return None
    return cls, kind, ih, (code.strip() if ih is None else "")


def pool_code(pool, cls, kind):
    if cls is pool.page:
        return None
    return pool.codes[pool.classes.index(cls)][kind]


CTYPES = {"js": "text/javascript", "css": "text/css"}


def key_of(cls, kind, ih):
    """Cache entry of a script, as the property record names it: `__components:<hash>:<kind>[:<input>]`."""
    return "__components:%s:%s" % (cls._class_hash, kind) + (":" + ih if ih else "")


def path_of(cls, kind, ih):
    """PATH_INFO of the endpoint URL of a script (`/components/cache/<hash>[.<input>].<kind>`)."""
    return PREFIX + cls._class_hash + "." + (ih + "." if ih else "") + kind


class Runner:
    """Runs ops one by one on the implementation (fresh media cache), with the direct oracle.
    outs: per op ("unit",) | ("urls", js, css) | ("err", classname) | ("resp", status, ctype, body)
    fails: list of (trigger, what, op_index)."""

    def __init__(self, pool):
        from django.test import Client
        self.pool = pool
        self.cache = media_cache()
        self.cache.clear()
        self.client = Client(raise_request_exception=False)
        self.ops, self.outs, self.fails = [], [], []
        self.bodies = []        # (html, insts) of body ops
        self.live = {}          # raw url -> (cls, kind, ih, body): announced, and ITS cache entry not evicted since
        self.entitled = {}      # PATH_INFO -> cache key: scripts of instances rendered (atomic or template render) whose
        #                         entry was not evicted since - what `rendered_instance_is_served` says must be served
        self.stale = {}         # raw url announced by a split fragment render_dependencies after its entry was evicted
        self.announced = []     # every raw url announced so far
        self.stats = {"evicted": 0, "announced_after_evict": 0, "ok200": 0, "renders": 0, "same_class_rerendered_after_evict": 0,
                      "served_after_other_entry_evicted": 0, "split_stale_announced": 0, "split_stale_unserved": 0, "split_stale_document_error": 0}
        self.stats.update({"vars_input_hash_shared_by_js_and_css": 0, "ticks": 0, "seconds_advanced": 0, "served_300s_or_more_after_first_cached": 0})
        self.first_cached_at = {}          # PATH_INFO -> faked time when the entry was first owed since its last eviction
        self.stored_since_clear = set()    # cache keys the history made the library store since the last clear()
        self.evicted_before = False
        self.survivors = set()             # live urls that outlived the eviction of ANOTHER entry
        self.rendered_classes = set()      # classes rendered so far
        self.evicted_classes = set()       # classes one of whose entries was evicted after a render of the class

    def entitlements(self, insts):
        """(class, kind, input hash or None) scripts the rendered instances entitle a page to announce (independent reading
        of the statement: the component's own script of a kind it has code for + the script of this instance's input data)."""
        pool, out = self.pool, set()
        for ci, v, w in insts:
            if ci < 0:
                continue
            cls = pool.classes[ci]
            for kind, data in (("js", hook_data(pool.hooks[ci], "js", v)), ("css", hook_data(pool.hooks[ci], "css", w))):
                code = pool.codes[ci][kind]
                if code is None or not code.strip():
                    continue
                out.add((cls, kind, None))
                if data is not None:
                    out.add((cls, kind, input_hash(data)))
        return out

    def note_rendered(self, insts):
        """Instances were rendered (their scripts cached before anything is emitted)."""
        ent = self.entitlements(insts)
        for cls, kind, ih in ent:
            # the variables of one kind have the input hash of variables of the OTHER kind that are cached (same render or earlier)
            other = "js" if kind == "css" else "css"
            if ih and ((cls, other, ih) in ent or path_of(cls, other, ih) in self.entitled):
                self.stats["vars_input_hash_shared_by_js_and_css"] += 1
        for cls, kind, ih in ent:
            self.first_cached_at.setdefault(path_of(cls, kind, ih), CLOCK.offset)
            self.entitled[path_of(cls, kind, ih)] = key_of(cls, kind, ih)
            self.stored_since_clear.add(key_of(cls, kind, ih))
        for ci, _, _ in insts:
            if ci >= 0:
                cls = self.pool.classes[ci]
                if cls in self.evicted_classes:
                    self.stats["same_class_rerendered_after_evict"] += 1
                    self.evicted_classes.discard(cls)
                self.rendered_classes.add(cls)

    def announce(self, i, js, css, insts, split_fragment=False):
        pool = self.pool
        ent = self.entitlements(insts)
        for kind, us in (("js", js), ("css", css)):
            for u in us:
                if u not in self.announced:
                    self.announced.append(u)
                path = urllib.parse.unquote(u)
                e = expected_for(pool, path)
                if e is None or e[1] != kind or (e[0], e[1], e[2]) not in ent:
                    self.fails.append(("c19-announced-foreign-url", "announced URL %r is not the %s script of a component instance of this render" % (u, kind), i))
                    continue
                if split_fragment and path not in self.entitled:
                    # markers rendered, entry evicted, THEN render_dependencies(type="fragment"): the eviction happened during
                    # the (split) render, not before it - outside the statement; reported, never an alarm
                    self.stats["split_stale_announced"] += 1
                    self.stale[u] = e
                    self.live.pop(u, None)
                    continue
                self.stale.pop(u, None)
                self.live[u] = e
                if self.evicted_before:
                    self.stats["announced_after_evict"] += 1

    def evicted(self, keys, removed_something):
        """cache.delete(key) was called: only the URLs of exactly that entry stop being owed (None = clear(): all of them)."""
        if keys is None:
            self.live.clear()
            self.entitled.clear()
            self.survivors.clear()
            self.first_cached_at.clear()
            self.stored_since_clear.clear()
        else:
            keys = set(keys)
            for u, e in list(self.live.items()):
                if key_of(e[0], e[1], e[2]) in keys:
                    del self.live[u]
                    self.survivors.discard(u)
            for p, k in list(self.entitled.items()):
                if k in keys:
                    del self.entitled[p]
                    self.first_cached_at.pop(p, None)
            if removed_something:
                self.survivors.update(self.live)
        for cls in self.rendered_classes:
            if removed_something and (keys is None or any(k.startswith("__components:%s:" % cls._class_hash) for k in keys)):
                self.evicted_classes.add(cls)

    def classify(self, trigger, insts=()):
        """Root-cause class decided on the INPUT: the history made the library store as many distinct scripts as Django's default
        MAX_ENTRIES without a clear() in between AND the cache object under test is bounded by no more than that (a size-bounded
        LocMemCache culls its least recently used third then)."""
        stored = self.stored_since_clear | set(key_of(*t) for t in self.entitlements(insts))
        bound = getattr(self.cache, "_max_entries", None)      # configuration of the cache object under test (not an outcome)
        return "c19-media-cache-culled" if len(stored) >= CULL_THRESHOLD and isinstance(bound, int) and bound <= len(stored) else trigger

    def since(self, path_info):
        t = self.first_cached_at.get(path_info)
        return "" if t is None else " (%d s of faked time after the script was first cached)" % (CLOCK.offset - t)

    def request(self, i, method, path_info, raw=None):
        pool, fails = self.pool, self.fails
        url = raw if raw is not None else urllib.parse.quote(path_info, safe="/:@._-~")
        r = self.client.generic(method, url)
        ctype = r.get("Content-Type", "")
        body = r.content.decode("utf-8", "replace")
        st = r.status_code
        m = WELL.match(path_info)
        if st not in (200, 404, 405):
            kind_seg = m.group(3) if m else path_info.rsplit(".", 1)[-1]
            trig = "c19-kind-colon-alias" if (st == 500 and ":" in kind_seg) else "c19-server-error"
            fails.append((trig, "%s %r answered %d" % (method, path_info, st), i))
        elif st == 200:
            e = expected_for(pool, path_info)
            if method != "GET":
                fails.append(("c19-non-get-served", "%s %r answered 200" % (method, path_info), i))
            elif e is None or body != e[3] or ctype != CTYPES[e[1]]:
                fails.append(("c19-foreign-code", "GET %r answered 200 %r %r which is not the code of the component named in the path"
                              % (path_info, ctype, body[:80]), i))
            else:
                self.stats["ok200"] += 1
        else:
            if m and method != "GET" and st != 405:
                fails.append(("c19-non-get-not-405", "%s %r answered %d" % (method, path_info, st), i))
            if method == "GET" and st == 405:
                fails.append(("c19-get-405", "GET %r answered 405" % path_info, i))
        if method == "GET" and raw is not None and raw in self.live:
            e = self.live[raw]
            if st != 200 or body != e[3] or ctype != CTYPES[e[1]]:
                fails.append((self.classify("c19-announced-url-not-served"), "announced URL %r answered %d %r %r, expected 200 %r %r%s"
                              % (raw, st, ctype, body[:80], CTYPES[e[1]], e[3][:80], self.since(path_info)), i))
            else:
                if raw in self.survivors:
                    self.stats["served_after_other_entry_evicted"] += 1
                if CLOCK.offset - self.first_cached_at.get(path_info, CLOCK.offset) >= 300:
                    self.stats["served_300s_or_more_after_first_cached"] += 1
        elif method == "GET" and raw is not None and raw in self.stale and st == 404:
            self.stats["split_stale_unserved"] += 1
            del self.stale[raw]
        return ("resp", st, ctype, body)

    def expects_wrap_error(self, insts):
        for ci, _, _ in insts:
            sp = self.pool.codes[ci]
            if (sp["js"] or "").strip() and "</script" in sp["js"].lower():
                return True
            if (sp["css"] or "").strip() and "</style" in sp["css"].lower():
                return True
        return False

    def step(self, op):
        from django.template import Context, Template
        from django_components import render_dependencies
        pool = self.pool
        i = len(self.ops)
        self.ops.append(op)
        kind = op[0]
        if kind == "render":
            _, mode, insts, variant = op
            self.stats["renders"] += 1
            tpl = PAGE_VARIANTS[variant] % tag_src(pool, insts)
            try:
                html = pool.page.render(kwargs={"tpl": tpl}, type=mode)
            except Exception as e:  # noqa
                if not (mode == "document" and isinstance(e, RuntimeError) and self.expects_wrap_error(insts)):
                    self.fails.append((self.classify("c19-render-raised", insts), "atomic %s render raised %s: %s" % (mode, type(e).__name__, str(e)[:200]), i))
                out = ("err", type(e).__name__)
            else:
                js, css = extract_urls(html, mode)
                self.note_rendered(insts)
                self.announce(i, js, css, insts)
                out = ("urls", js, css)
        elif kind == "body":
            _, insts, how = op
            if how == "single":
                ci, v, w = insts[0]
                kw = {k: x for k, x in (("v", v), ("w", w)) if x is not None}
                html = pool.classes[ci].render(kwargs=kw, render_dependencies=False)
            else:
                html = Template(tag_src(pool, insts)).render(Context({}))
            self.bodies.append((html, insts))
            self.note_rendered(insts)
            out = ("unit",)
        elif kind == "deps":
            _, mode, idxs, ghost, variant = op
            inner = "".join(self.bodies[j][0] for j in idxs)
            if ghost:
                inner += "<!-- _RENDERED %s,a00001,, -->" % GHOST_HASH
            doc = ("<html><head></head><body>%s</body></html>" if variant == "headbody" else
                   '<link name="CSS_PLACEHOLDER">%s<script name="JS_PLACEHOLDER"></script>') % inner
            try:
                if variant == "middleware":
                    # a user's view answering this html; ComponentDependencyMiddleware processes the response (document mode)
                    import c19_urls
                    c19_urls.PAGE["html"] = "<html><head></head><body>%s</body></html>" % inner
                    resp = self.client.get("/c19page/")
                    if resp.status_code != 200:
                        raise (resp.exc_info[1] if getattr(resp, "exc_info", None) else RuntimeError("status %d" % resp.status_code))
                    html = resp.content.decode()
                else:
                    html = render_dependencies(doc, mode)
            except Exception as e:  # noqa
                insts = [x for j in idxs for x in self.bodies[j][1]]
                if mode == "document" and isinstance(e, RuntimeError) and any(path_of(*t) not in self.entitled for t in self.entitlements(insts)):
                    self.stats["split_stale_document_error"] += 1     # same split flow, document mode: refuses instead of announcing
                out = ("err", type(e).__name__)
            else:
                js, css = extract_urls(html, mode)
                insts = [x for j in idxs for x in self.bodies[j][1]]
                # document mode reads the cache itself: whatever it marks as loaded must be served (until that entry is evicted);
                # fragment mode: owed for every instance whose entry was not evicted since the instance was rendered
                self.announce(i, js, css, insts, split_fragment=(mode == "fragment"))
                out = ("urls", js, css)
        elif kind == "evict":
            before = cache_keys()
            self.cache.delete(op[1])
            gone = set(before) - set(cache_keys())
            self.stats["evicted"] += len(gone)
            self.evicted_before = self.evicted_before or bool(gone)
            self.evicted([op[1]], bool(gone))
            out = ("unit",)
        elif kind == "clear":
            before = cache_keys()
            self.cache.clear()
            self.stats["evicted"] += len(before)
            self.evicted_before = self.evicted_before or bool(before)
            self.evicted(None, bool(before))
            out = ("unit",)
        elif kind == "get":
            out = self.request(i, op[1], op[2], op[3] if len(op) > 3 else None)
        elif kind == "tick":
            # faked time passes; nothing is released: a URL stays owed whatever time passed since its script was first cached
            CLOCK.offset += op[1]
            self.stats["ticks"] += 1
            self.stats["seconds_advanced"] += op[1]
            out = ("unit",)
        else:
            raise AssertionError(op)
        self.outs.append(out)
        return out


def op_insts_of_body(ops, j):
    bodies = [o for o in ops if o[0] == "body"]
    return bodies[j][1]


def run_adaptive(pool, ops, rng):
    """Run a history, turning the macro-ops ('evict', None), ('advget',), ('getlive',) into concrete ops by looking at
    the implementation's state at that point. Returns the Runner (concrete ops, outs, oracle failures)."""
    R = Runner(pool)
    kih = known_input_hashes()
    for op in ops:
        if op[0] == "evict" and op[1] is None:
            keys = cache_keys()
            if keys and rng.random() < 0.85:
                R.step(("evict", rng.choice(keys)))
            else:
                R.step(("evict", rng.choice(["__components:nope:js", "", "x", "__components:%s:js" % GHOST_HASH] + [k + "x" for k in keys[:1]])))
        elif op[0] == "advget":
            for p in adversarial_paths(pool, rng, kih, rng.randint(1, 4)):
                if p == "" or p.startswith("//"):
                    continue
                R.step(("get", rng.choice(METHODS) if rng.random() < 0.3 else "GET", p))
        elif op[0] == "getlive":
            for u in list(R.announced):
                R.step(("get", "GET", urllib.parse.unquote(u), u))
                r = rng.random()
                if r < 0.15:
                    R.step(("get", rng.choice(METHODS[1:]), urllib.parse.unquote(u), u))
                elif r < 0.3:
                    # same class, the cache-key separator in the kind segment
                    m = WELL.match(urllib.parse.unquote(u))
                    if m and m.group(2):
                        R.step(("get", "GET", PREFIX + m.group(1) + "." + m.group(3) + ":" + m.group(2)))
        else:
            R.step(op)
    # at the end: everything announced since the last eviction must still be served
    for u in list(R.live):
        R.step(("get", "GET", urllib.parse.unquote(u), u))
    return R


# ------------------------------------------------------------------------------------------------------------------
# Coq terms
# ------------------------------------------------------------------------------------------------------------------
def inst_term(pool, inst):
    ci, v, w = inst
    mode = pool.hooks[ci] if ci >= 0 else False
    jd, cd = hook_data(mode, "js", v), hook_data(mode, "css", w)
    jd = None if jd is None else input_hash(jd)
    cd = None if cd is None else input_hash(cd)
    return "(%s, %s, %s)" % (pool.cdef_name(ci), copt(jd, cstr), copt(cd, cstr))


def op_term(pool, ops, op):
    k = op[0]
    m = {"document": "Document", "fragment": "Fragment"}
    if k == "render":
        return "ORender %s %s" % (m[op[1]], clist([inst_term(pool, (-2, None, None))] + [inst_term(pool, x) for x in op[2]]))
    if k == "body":
        return "OBody %s" % clist([inst_term(pool, x) for x in op[1]])
    if k == "deps":
        insts = [x for j in op[2] for x in op_insts_of_body(ops, j)]
        terms = [inst_term(pool, x) for x in insts] + (["(ghost, None, None)"] if op[3] else [])
        return "ODeps %s %s" % (m[op[1]], clist(terms))
    if k == "evict":
        return "OEvict %s" % cstr(op[1])
    if k == "clear":
        return "OClear"
    if k == "get":
        return "OGet %s %s" % (cstr(op[1]), cstr(op[2]))
    raise AssertionError(op)


def out_term(o):
    if o[0] == "unit":
        return "OutUnit"
    if o[0] == "urls":
        js = sorted(urllib.parse.unquote(u) for u in o[1])
        css = sorted(urllib.parse.unquote(u) for u in o[2])
        return "OutUrls %s %s" % (clist([cstr(u) for u in js]), clist([cstr(u) for u in css]))
    if o[0] == "err":
        return "OutErr EKey" if o[1] == "KeyError" else "OutErr EMissing" if o[1] == "RuntimeError" else "OutOther 0%N"
    _, st, ctype, body = o
    if st == 200:
        return "OutResp (R200 %s %s)" % (cstr(body), cstr(ctype))
    return {404: "OutResp R404", 405: "OutResp R405", 500: "OutResp R500"}.get(st, "OutOther %d%%N" % st)


def hist_term(pool, ops, outs, keys):
    # the model has no clock (media_cache_timeout_anchor: entries never expire): tick ops are not part of the model's history
    keep = [j for j, o in enumerate(ops) if o[0] != "tick"]
    outs = [outs[j] for j in keep]
    ops = [ops[j] for j in keep]
    return "(tbl%d, %s, %s, %s)" % (pool.id, clist([op_term(pool, ops, o) for o in ops]),
                                    clist([out_term(o) for o in outs]), clist([cstr(k) for k in keys]))


_LIT = re.compile(r"\[\d+(?:;\d+)+\]%N")


def intern_strings(terms, max_global=400):
    """Printing only (speeds up coqc's parsing of the case files, which dominates the run): string literals that occur in many
    cases become shared `Definition c19sN : str`, literals repeated inside one case become a `let` around that case."""
    import collections
    cnt = collections.Counter()
    for t in terms:
        cnt.update(set(_LIT.findall(t)))
    top = sorted((x for x in cnt if cnt[x] >= 8 and len(x) > 30), key=lambda x: -cnt[x] * len(x))[:max_global]
    glob = {x: "c19s%d" % i for i, x in enumerate(top)}
    defs = "\n".join("Definition %s : str := %s." % (n, x) for x, n in glob.items())
    out = []
    for t in terms:
        t = _LIT.sub(lambda m: glob.get(m.group(0), m.group(0)), t)
        local = collections.Counter(_LIT.findall(t))
        names = {x: "l%d" % i for i, x in enumerate(sorted(x for x in local if local[x] >= 2 and len(x) > 24))}
        if names:
            t = _LIT.sub(lambda m: names.get(m.group(0), m.group(0)), t)
            t = "(" + "".join("let %s : str := %s in " % (n, x) for x, n in names.items()) + t + ")"
        out.append(t)
    return defs, out


# ------------------------------------------------------------------------------------------------------------------
# generators
# ------------------------------------------------------------------------------------------------------------------
def adversarial_paths(pool, rng, known_ih, n):
    """Request paths built from valid and invalid hashes, kinds, input hashes."""
    hashes = list(pool.by_hash) or ["x"]
    out = []
    for _ in range(n):
        h = rng.choice(hashes) if rng.random() < 0.8 else rng.choice(["nope_000000", rng.choice(hashes) + "x", rng.choice(hashes)[:-1],
                                                                      "A.b", "", rng.choice(hashes).upper(), "x:y", "café 1"])
        k = rng.choice(["js", "css"]) if rng.random() < 0.6 else rng.choice(["JS", "xyz", "jss", "j", "", "js ", "js:", ":js", "map", "js\n"])
        ih = None
        r = rng.random()
        if r < 0.35 and known_ih:
            ih = rng.choice(known_ih)
        elif r < 0.55:
            ih = rng.choice(["000000", "zz", "abcdef", "", "a:b", "a.b", "%s" % rng.randrange(10 ** 6)])
        shape = rng.random()
        if shape < 0.55:
            p = PREFIX + h + "." + (ih + "." if ih is not None else "") + k
        elif shape < 0.75 and known_ih:
            # the cache-key separator smuggled into the kind segment
            p = PREFIX + h + "." + rng.choice(["js", "css", "xyz"]) + ":" + rng.choice(known_ih + ["000000"])
        elif shape < 0.85:
            p = rng.choice(["/components/cache/", "/components/cache", "/components/", "/", "/components/cachex/", "/Components/cache/",
                            "/components/cache//", "components/cache/"]) + h + "." + k
        elif shape < 0.93:
            p = PREFIX + h + rng.choice(["/", "..", ".", "./", "/."]) + k + rng.choice(["", "/", "."])
        else:
            p = PREFIX + "".join(rng.choice(["a", ".", ":", "/", "js", "css", h]) for _ in range(rng.randint(0, 5)))
        out.append(p)
    return out


def known_input_hashes():
    return [input_hash({k: n}) for k in ("v", "w", "x") for n in (1, 2, 3)]


TICKS = [2, 299, 301, 3600, 86400]     # seconds of faked time (Django's default cache TIMEOUT is 300)


def random_history(pool, rng, length):
    n = len(pool.classes)
    ops = []
    nbodies = 0

    def insts(maxn):
        return [(rng.randrange(n), rng.choice([None, None, 1, 2, 3]), rng.choice([None, None, 1, 2])) for _ in range(rng.randint(1, maxn))]
    for _ in range(length):
        r = rng.random()
        if r < 0.30:
            ops.append(("render", rng.choice(["document", "fragment"]), insts(4), rng.choice(list(PAGE_VARIANTS))))
            if rng.random() < 0.3:
                ops.append(("tick", rng.choice(TICKS)))
            if rng.random() < 0.8:
                ops.append(("getlive",))
        elif r < 0.42:
            if rng.random() < 0.3:
                ops.append(("body", insts(1), "single"))
            else:
                ops.append(("body", insts(3), "template"))
            nbodies += 1
        elif r < 0.54 and nbodies:
            idxs = sorted(rng.sample(range(nbodies), rng.randint(1, min(3, nbodies))))
            mode = rng.choice(["document", "fragment"])
            ops.append(("deps", mode, idxs, rng.random() < 0.05, rng.choice(["headbody", "placeholders"] + (["middleware"] if mode == "document" else []))))
            if rng.random() < 0.7:
                ops.append(("getlive",))
        elif r < 0.64:
            ops.append(("clear",))
        elif r < 0.78:
            ops.append(("evict", None))      # resolved adaptively below
        elif r < 0.90:
            if rng.random() < 0.5:
                ops.append(("tick", rng.choice(TICKS)))
            ops.append(("getlive",))
        else:
            ops.append(("advget",))
        if rng.random() < 0.15:
            ops.append(("tick", rng.choice(TICKS)))
    return ops


# small exhaustive alphabet over a fixed two-class pool
SMALL_SPECS = [
    {"name": "Alpha", "module": "verif_c19_small", "js": " a() ", "css": ".a{}", "hooks": "shared"},
    {"name": "Beta", "module": "verif_c19_small", "js": "b()", "css": None, "hooks": False},
    {"name": "Gamma", "module": "verif_c19_small", "js": None, "css": " .g{}\n", "hooks": True},
]


def small_alphabet():
    return [
        ("render", "document", [(0, None, 2)], "headbody"),       # CSS variables = the JS variables of the third letter's render
        ("render", "fragment", [(0, 1, 1)], "headbody"),          # JS and CSS variables serialise equally: one input hash, two entries
        ("render", "fragment", [(1, None, None), (0, 2, None), (2, None, 1)], "placeholders"),
        ("body", [(0, 1, None), (1, None, None), (2, None, None)], "template"),
        ("deps", "fragment", "all", False, "headbody"),
        ("deps", "document", "all", False, "middleware"),
        ("clear",),
        ("evict", "A.js"),
        ("probe",),
    ]


def small_concretise(pool, seq):
    a, b, g = pool.classes
    ih = input_hash({"x": 1})
    probes = [PREFIX + a._class_hash + ".js", PREFIX + a._class_hash + ".css", PREFIX + a._class_hash + "." + ih + ".js",
              PREFIX + b._class_hash + ".js", PREFIX + b._class_hash + ".css", PREFIX + a._class_hash + ".js:" + ih,
              PREFIX + a._class_hash + "." + ih + ".css", PREFIX + a._class_hash + "." + input_hash({"x": 2}) + ".css", PREFIX + g._class_hash + ".css",
              PREFIX + g._class_hash + "." + input_hash({"w": 1}) + ".css", PREFIX + g._class_hash + ".js"]
    ops, nb = [], 0
    for n, o in enumerate(seq):
        if n:
            ops.append(("tick", 299))      # between any two macro-ops; +2 s before the requests after a render: 301 s straddle
        if o[0] == "deps":
            if nb == 0:
                return None
            ops.append(("deps", o[1], list(range(nb)), o[3], o[4]))
            ops.append(("getlive",))
        elif o[0] == "evict":
            ops.append(("evict", "__components:%s:js" % a._class_hash))
        elif o[0] == "probe":
            ops += [("get", "GET", p) for p in probes] + [("get", "POST", probes[0]), ("get", "HEAD", probes[0])]
        else:
            ops.append(o)
            if o[0] == "body":
                nb += 1
            if o[0] == "render":
                ops += [("tick", 2), ("getlive",)]
    if len(seq) == 1 and seq[0][0] == "render":
        ops += [("tick", 86400), ("getlive",)]
    return ops


# ------------------------------------------------------------------------------------------------------------------
CORPUS = [
    # (the witness of the fixed defect c19-kind-colon-alias lives in corpus/C19/kind-colon-alias.json)
    {"name": "clear-then-rerender", "specs": [{"name": "Re", "module": "verif_c19_corpus", "js": " r() ", "css": ".r{}", "hooks": False}],
     "ops": [["render", "document", [[0, None, None]], "headbody"], ["clear"], ["render", "fragment", [[0, None, None]], "headbody"], ["getlive"]]},
    # seed C19a (process-local memo never invalidated): the SAME class object rendered before and after a clear, fragment after it
    {"name": "fragment-clear-fragment-same-class", "specs": [{"name": "Fr", "module": "verif_c19_corpus", "js": "f()", "css": " .f{} ", "hooks": True}],
     "ops": [["render", "fragment", [[0, 1, 2]], "placeholders"], ["getlive"], ["clear"], ["render", "fragment", [[0, 1, 2]], "headbody"], ["getlive"],
             ["body", [[0, 2, None]], "single"], ["clear"], ["render", "fragment", [[0, 2, None]], "headbody"], ["getlive"]]},
    # one entry deleted: the other URLs of the earlier render stay owed; the re-render restores the deleted one
    {"name": "delete-one-entry", "specs": [{"name": "De", "module": "verif_c19_corpus", "js": "d()", "css": ".d{}", "hooks": True}],
     "ops": [["render", "fragment", [[0, 1, 1]], "headbody"], ["evict", "@KEY0:js"], ["getlive"], ["evict", "@KEY0:css:@W1"], ["getlive"],
             ["render", "fragment", [[0, 1, 1]], "headbody"], ["getlive"], ["evict", "@KEY0:css"], ["render", "document", [[0, None, None]], "headbody"], ["getlive"]]},
    # two classes with the same NAME in different modules (distinct hashes): each is served its own code
    {"name": "same-name-two-modules", "specs": [{"name": "Twin", "module": "verif_c19_corpus_m1", "js": "one()", "css": None, "hooks": False},
                                                {"name": "Twin", "module": "verif_c19_corpus_m2", "js": "two()", "css": ".two{}", "hooks": False}],
     "ops": [["render", "fragment", [[0, None, None]], "headbody"], ["render", "fragment", [[1, None, None]], "headbody"], ["getlive"],
             ["clear"], ["render", "document", [[1, None, None], [0, None, None]], "headbody"], ["getlive"]]},
    # seed C19e (default media cache given a 300 s lifetime): a script is stored once and must stay served whatever time passes
    {"name": "time-passes-render-299s-render-2s-get", "specs": [{"name": "Tm", "module": "verif_c19_corpus", "js": "t()", "css": ".t{}", "hooks": True}],
     "ops": [["render", "document", [[0, 1, None]], "headbody"], ["tick", 299], ["render", "document", [[0, 1, None]], "headbody"], ["tick", 2], ["getlive"],
             ["render", "fragment", [[0, None, 1]], "placeholders"], ["tick", 301], ["getlive"], ["tick", 86400], ["getlive"],
             ["body", [[0, 2, 2]], "single"], ["tick", 299], ["deps", "fragment", [0], False, "headbody"], ["tick", 2], ["getlive"],
             ["deps", "document", [0], False, "middleware"], ["getlive"]]},
    # seed C19f (one helper for JS and CSS variables whose "already cached" test looks at the JS entry): JS and CSS variables with the SAME
    # input hash - in one render, and CSS variables equal to the JS variables of an EARLIER render
    {"name": "js-and-css-vars-same-input-hash", "specs": [{"name": "Th", "module": "verif_c19_corpus", "js": "th()", "css": ".th{}", "hooks": "shared"}],
     "ops": [["render", "fragment", [[0, 1, 1]], "headbody"], ["getlive"], ["render", "fragment", [[0, 2, 3]], "placeholders"], ["getlive"],
             ["render", "fragment", [[0, 3, 2]], "headbody"], ["getlive"], ["render", "document", [[0, None, 1], [0, 1, None]], "headbody"], ["getlive"],
             ["clear"], ["body", [[0, 2, None]], "single"], ["body", [[0, None, 2]], "single"], ["deps", "fragment", [0, 1], False, "headbody"], ["getlive"]]},
    # a class with CSS only / JS only
    {"name": "css-only-js-only", "specs": [{"name": "OnlyCss", "module": "verif_c19_corpus", "js": None, "css": ".o{}", "hooks": True},
                                           {"name": "OnlyJs", "module": "verif_c19_corpus", "js": "o()", "css": "  ", "hooks": True}],
     "ops": [["render", "fragment", [[0, 1, 1], [1, 1, 1]], "headbody"], ["getlive"], ["clear"], ["body", [[0, None, 2], [1, 2, None]], "template"],
             ["deps", "fragment", [0], False, "headbody"], ["getlive"], ["deps", "document", [0], False, "middleware"], ["getlive"]]},
]


def load_corpus():
    cases = list(CORPUS)
    d = os.path.join(C.VERIF, "corpus", "C19")
    if os.path.isdir(d):
        for f in sorted(os.listdir(d)):
            if f.endswith(".json"):
                obj = json.load(open(os.path.join(d, f)))
                obj = obj.get("case", obj)
                obj.setdefault("name", f[:-5])
                cases.append(obj)
    return cases


def norm_ops(pool, ops):
    out = []
    for o in ops:
        o = list(o)
        if o[0] == "render":
            o[2] = [tuple(x) for x in o[2]]
        if o[0] == "body":
            o[1] = [tuple(x) for x in o[1]]
        if o[0] == "evict" and isinstance(o[1], str) and o[1].startswith("@KEY"):
            m = re.match(r"@KEY(\d+)(.*)$", o[1], flags=re.S)
            o[1] = "__components:" + pool.classes[int(m.group(1))]._class_hash + m.group(2).replace("@W1", input_hash({"w": 1})).replace("@V1", input_hash({"v": 1}))
        if o[0] == "deps":
            o[2] = list(o[2])
        if o[0] == "get" and isinstance(o[2], str) and o[2].startswith("@HASH"):
            m = re.match(r"@HASH(\d+)(.*)$", o[2], flags=re.S)
            o[2] = PREFIX + pool.classes[int(m.group(1))]._class_hash + m.group(2)
        out.append(tuple(o))
    return out


def run_case(chk, pool, macro_ops, kind, terms, cases, rng):
    """Run one history on the implementation (macro-ops made concrete on the way); record oracle failures; queue the Coq case."""
    R = run_adaptive(pool, macro_ops, rng)
    ops, outs, keys, stats = R.ops, R.outs, cache_keys(), R.stats
    replay = {"kind": "history", "specs": pool.specs, "ops": [list(o) for o in ops]}
    for trig, what, i in R.fails:
        chk.fail(trig, what, dict(replay, failing_op=i, outs=[list(o) for o in outs]))
    nontriv = stats["same_class_rerendered_after_evict"] > 0 and stats["announced_after_evict"] > 0 and stats["ok200"] > 0
    agg = chk.extra.setdefault("oracle_observations", {})
    for k, v in stats.items():
        agg[k] = agg.get(k, 0) + v
    chk.count((pool.specs, ops), nontriv, kind=kind,
              sample={"classes": [(s["name"], s["js"], s["css"], s.get("base")) for s in pool.specs], "ops": [list(o) for o in ops][:12]} if nontriv and kind == "random" else None)
    terms.append(hist_term(pool, ops, outs, keys))
    cases.append((pool, ops, outs, keys))
    h = chk.extra.setdefault("op_histogram", {})
    for o, x in zip(ops, outs):
        if o[0] == "get":
            k = "request %s -> %s" % ("GET" if o[1] == "GET" else "non-GET", x[1])
        elif o[0] == "render":
            k = "render %s -> %s" % (o[1], x[0] if x[0] != "urls" else "%d urls" % min(3, len(x[1]) + len(x[2])))
        elif o[0] == "deps":
            k = "deps %s %s -> %s" % (o[1], o[4], x[0] if x[0] != "err" else x[1])
        else:
            k = o[0]
        h[k] = h.get(k, 0) + 1
    return R


def use_urlconf():
    """Route requests through harness/c19_urls.py (endpoint mounted exactly as in django_components.urls + a page view)."""
    from django.conf import settings
    from django.urls import clear_url_caches, set_urlconf
    settings.ROOT_URLCONF = "c19_urls"
    clear_url_caches()
    set_urlconf(None)


def run(tier, seed):
    warnings.simplefilter("ignore")
    import djsetup
    djsetup.setup()
    install_clock()
    import gen_constants
    import gen_c19  # noqa: F401  (registers the generator)
    try:
        gen_constants.generate(["C19"])
    except Exception:
        C.write_if_changed(os.path.join(C.COQ, "Gen", "C19.v"), gen_constants.HEADER + gen_c19.gen_C19())
    use_urlconf()
    chk = C.Check("C19", tier, seed)
    chk.prove()
    thorough = tier == "thorough"
    rng = chk.rng
    import django_components.cache as dc
    dc.component_media_cache = None   # fresh default LocMemCache
    from django.core.cache.backends.locmem import LocMemCache
    if not isinstance(media_cache(), LocMemCache):
        raise C.HarnessError("media cache is not the default LocMemCache")

    import time
    t_phase = [chk.t0]
    phases = chk.extra.setdefault("phase_seconds", {})

    def phase(name):
        phases[name] = round(time.time() - t_phase[0], 1)
        t_phase[0] = time.time()
    phase("prove")
    pools = []
    terms, cases = [], []
    # ---- 0. corpus (direct oracle first) ----
    for c in load_corpus():
        pool = Pool(c["specs"])
        pools.append(pool)
        run_case(chk, pool, norm_ops(pool, c["ops"]), "corpus", terms, cases, rng)
    # ---- 1a. exhaustive small histories ----
    small = Pool(SMALL_SPECS)
    pools.append(small)
    alpha = small_alphabet()
    for L in range(1, (4 if thorough else 3) + 1):
        for seq in itertools.product(alpha, repeat=L):
            ops = small_concretise(small, seq)
            if ops is None:
                continue
            run_case(chk, small, ops, "exh%d" % L, terms, cases, rng)
    # ---- 1b. random histories over random class tables ----
    npools = 12 if thorough else 8
    per_pool = 500 if thorough else 100
    for pi in range(npools):
        pool = Pool(random_specs(rng, rng.randint(3, 7)))
        pools.append(pool)
        for _ in range(per_pool):
            run_case(chk, pool, random_history(pool, rng, rng.randint(3, 10)), "random", terms, cases, rng)
    phase("histories-implementation")
    sdefs, terms = intern_strings(terms)
    defs = GHOST_DEF + "\n" + "\n".join(p.coq_defs() for p in pools) + "\n" + sdefs
    bad = C.coq_eval_cases("C19", "hist", IMPORTS, "hist_case", "check_hist", terms, shard=max(40, -(-len(terms) // 16)) if not thorough else 150, extra_defs=defs)
    phase("histories-coq")
    for i in bad[:20]:
        pool, ops, outs, keys = cases[i]
        chk.disagree("Serve model != implementation on a render/evict/request history",
                     {"kind": "history", "specs": pool.specs, "ops": [list(o) for o in ops], "impl_outs": [list(o) for o in outs], "impl_keys": keys})

    # ---- 2. URL routing: django.urls.resolve vs the route matcher ----
    from django.urls import Resolver404, resolve
    rterms, rcases = [], []
    alpha = ["a", ".", "/", ":", "js"]
    paths = []
    for L in range(0, (7 if thorough else 5) + 1):
        for t in itertools.product(alpha, repeat=L):
            paths.append(PREFIX + "".join(t))
    for p in pools[-1:]:
        paths += adversarial_paths(p, rng, known_input_hashes(), 3000 if thorough else 600)
    paths += ["", "/", "/components/", "/components/cache", "components/cache/a.js", "/components/cache/a.js/", "//components/cache/a.js",
              "/components/cache/\n.js", "/components/cache/a.b\n", "/components/cache/a b.c d.e f",
              "/components/cache/a.a.a.a", "/components/cache/a.b.c.js", "/components/cache/a..b.js", "/components/cache/a.js.js.js", "/components/cache/a.b.c.d.css",
              "/components/cache/.a.b.js", "/components/cache/a.b.js.", "/components/cache/a:b.c:d.js", "/components/cache/a.b/c.js"]
    for p in paths:
        try:
            m = resolve(p)
            kw = m.kwargs
            res = (kw.get("comp_cls_hash"), kw.get("script_type"), kw.get("input_hash")) if m.url_name == "components_cached_script" else "other"
        except Resolver404:
            res = None
        if res == "other":
            continue
        chk.count(("route", p), res is not None and res[2] is not None and p.count(".") > 2, kind="route")
        rterms.append("(%s, %s)" % (cstr(p), copt(res, lambda r: "(%s, %s, %s)" % (cstr(r[0]), cstr(r[1]), copt(r[2], cstr)))))
        rcases.append((p, res))
    bad = C.coq_eval_cases("C19", "route", IMPORTS, "route_case", "check_route", rterms, shard=3000 if thorough else max(100, -(-len(rterms) // 16)))
    phase("routes")
    for i in bad[:20]:
        chk.disagree("route matcher != django.urls.resolve", {"kind": "route", "path": rcases[i][0], "impl": rcases[i][1]})

    # ---- 3. strip / is_nonempty_str / isspace ----
    from django_components.util.misc import is_nonempty_str
    sterms, scases = [], []
    ws = ["\t", "\n", "\x0b", "\x0c", "\r", "\x1c", "\x1d", "\x1e", "\x1f", " ", "\x85", "\xa0", " ", " ", " ", " ",
          " ", " ", " ", "　"]
    nonws = ["a", "\x00", "\x08", "\x1b", "\x7f", "​", "᠎", "⁠", "﻿", "é", "z"]
    strs = ["".join(t) for L in range(0, 4) for t in itertools.product([" ", "\xa0", "a", "​"], repeat=L)]
    for _ in range(2000 if thorough else 500):
        strs.append("".join(rng.choice(ws if rng.random() < 0.6 else nonws) for _ in range(rng.randint(0, 8))))
    strs += [s for s in JS_CHOICES + CSS_CHOICES if s is not None]
    for s in strs:
        chk.count(("strip", s), s.strip() != s and bool(s.strip()), kind="strip")
        sterms.append("(%s, %s, %s)" % (cstr(s), cstr(s.strip()), C.cbool(is_nonempty_str(s))))
        scases.append(s)
    bad = C.coq_eval_cases("C19", "strip", IMPORTS, "strip_case", "check_strip", sterms, shard=3000)
    for i in bad[:10]:
        chk.disagree("strip model != str.strip / is_nonempty_str", {"kind": "strip", "s": scases[i]})
    spaces = [c for c in range(70000) if chr(c).isspace()]
    bad = C.coq_eval_cases("C19", "spaces", IMPORTS, "list N", "check_spaces", [clist(["%d%%N" % c for c in spaces])])
    chk.count(("spaces",), True, kind="isspace-table")
    if bad:
        chk.disagree("py_isspace != str.isspace on code points < 70000", {"kind": "spaces", "impl": spaces})
    phase("strip-isspace")
    chk.extra["class_tables"] = {"tables": len(pools), "classes": sum(len(p.classes) for p in pools),
                                 "subclasses": sum(1 for p in pools for sp in p.specs if sp.get("base") is not None),
                                 "non_ascii_names": sum(1 for p in pools for sp in p.specs if not sp["name"].isascii())}
    for p in pools:
        p.close()
    dc.component_media_cache = None
    obs = chk.extra.get("oracle_observations", {})
    chk.extra["outside_statement_split_flow"] = {
        "what": "template render, THEN an eviction, THEN render_dependencies over the stale markers: the eviction happens during the (split) render, "
                "not before it - outside the statement by the lead's decision; observed and compared with the model, never an alarm "
                "(Props/C19.v Example stale_markers_in_fragment_mode_are_announced_unserved)",
        "fragment_urls_announced_for_an_evicted_entry": obs.get("split_stale_announced", 0),
        "of_these_fetched_and_answered_404": obs.get("split_stale_unserved", 0),
        "document_mode_refused_with_RuntimeError": obs.get("split_stale_document_error", 0)}
    chk.assumptions = [
        "media cache = the library's default one (COMPONENTS.cache unset); a user-configured expiring / size-bounded backend is outside the claim. That the "
        "default one is a LocMemCache whose entries never expire and that is never culled for size is NOT assumed but checked on the code under test: "
        "harness/gen_c19.py reads backend class, default_timeout, _max_entries, _cull_frequency of the cache object cache.py builds into coq/Gen/C19.v and "
        "Serve/Proofs.v anchors them (media_cache_class_anchor, media_cache_timeout_anchor: None, media_cache_unbounded_anchor: >= 2^62); the direct oracle "
        "runs every history under a faked clock (time advances of 2 s .. 1 day between renders, re-renders and requests) and a history storing 300+ scripts in one render",
        "wf_table, first half (hypothesis of every history theorem): component classes have DISTINCT hashes = distinct import paths (module + name); two "
        "classes with the same module and name share a hash and a cache entry and the second is served the first's code - without this hypothesis the main "
        "theorem is false (Props/C19.v Example emitted_url_served_without_distinct_hashes_refuted); the generator only builds classes with distinct import "
        "paths (same NAME in different modules is generated in every table); the 24-bit md5 prefix is assumed collision-free on them",
        "component classes stay alive between render and request: comp_hash_mapping holds classes weakly, a class that was garbage-collected after the render "
        "makes its announced URL answer 404; only the alive case is tested (the class tables keep strong references)",
        "wf_table, second half / wf_inst: class names are Python identifiers (no '.', '/', ':'), input hashes are md5 hex prefixes",
        "percent-encoding by reverse() and decoding by the WSGI layer are inverse (the model speaks about PATH_INFO); md5/json of the input data not modelled",
        "the split flow with an eviction in the middle (markers rendered, cache entry evicted, THEN render_dependencies) is outside the statement "
        "('evictions preceded that render'): reported under coverage.outside_statement_split_flow, compared with the model only; without an eviction of that "
        "entry in between, the URLs a split render announces are owed and checked by the direct oracle like those of an atomic render",
    ]
    return chk.finish(
        rule="histories: every sequence up to length %d over a 9-letter alphabet (document/fragment renders, template render, "
             "render_dependencies in both modes, clear, delete, probe requests; 299 s of faked time between any two of them and 2 s before the requests that follow a render) on a fixed 3-class table (js+css, js only, css only), plus %d seeded random histories "
             "(3-10 macro-ops plus faked-clock advances of 2/299/301/3600/86400 s, 3-7 generated classes per table, always two with the same name in different modules, js/css in {None, empty, blank, padded with ASCII/Unicode whitespace, non-ASCII, "
             "end-tag}, non-ASCII and duplicate class names, get_js_data/get_css_data hooks returning different or equal dicts = distinct or shared input hashes) with adaptive requests: every announced URL (raw, as emitted), other "
             "methods, and adversarial paths from valid/invalid hashes, kinds, input hashes incl. the key separator ':'; routing: all strings up to "
             "length %d over {a . / : js} after the endpoint prefix + adversarial paths; strip: 4-letter exhaustive to length 3 + random. "
             "Non-trivial history = an entry of a rendered class was evicted, the SAME class object was rendered again later and the render announced a URL, "
             "and a request answered 200. Distinct = distinct (table, ops)."
             % (4 if thorough else 3, npools * per_pool, 7 if thorough else 5),
        explanation="Theorems of Props/C19.v re-checked by coqc; the model is run by vm_compute inside Coq on every history and compared with the "
                    "implementation op by op (announced URL multisets, exception class, status / Content-Type / body) and on the final cache key set; "
                    "the direct oracle fetches every announced URL through django.test.Client and classifies every response; a URL stays owed "
                    "(200, own code, content type) until exactly ITS cache entry is deleted (other deletions do not release it), for atomic renders, "
                    "document-mode render_dependencies, and fragment-mode render_dependencies over instances whose entry was not evicted since they were rendered.",
        extra_trusted=["modelled, not verified: django.urls resolver/reverse (route matcher differentially tested against resolve() on every run), "
                       "LocMemCache, django.test.Client/WSGI path decoding, str.strip (differentially tested), hashlib.md5/json.dumps for input hashes",
                       "harness/gen_c19.py (routes, mount point, content types, key/URL format samples -> coq/Gen/C19.v)"])


def replay(path):
    warnings.simplefilter("ignore")
    import djsetup
    djsetup.setup()
    install_clock()
    use_urlconf()
    r = json.load(open(path))
    case = r.get("case", r)
    print(json.dumps({k: v for k, v in r.items() if k != "case"}, indent=1)[:2000])
    if case.get("kind") == "history" or "ops" in case:
        pool = Pool(case["specs"])
        ops = norm_ops(pool, case["ops"])
        import random
        R = run_adaptive(pool, ops, random.Random(0))
        ops, outs, fails, keys = R.ops, R.outs, R.fails, cache_keys()
        for i, (o, x) in enumerate(zip(ops, outs)):
            print("%2d %-90s -> %s" % (i, str(list(o))[:90], str(x)[:160]))
        print("final keys:", keys)
        for f in fails:
            print("ORACLE FAILURE:", f)
        pool.close()
        return 1 if fails else 0
    print(case)
    return 0
