"""Regenerate /verif/MANIFEST.json from harness/manifest/Cxx.json (one file per CLAIMED property:
{"text": level_claimed.text, "note": level_note, "technique": ..., "design": DESIGN.md ref}) and harness/manifest/na.json
({"Cxx": reason} for properties not claimed).   python3 harness/mkmanifest.py"""
import json
import os

D = "/verif/harness/manifest"


# the lead's allow-list: a property is claimed only once its check is green on the unchanged tree for seeds 0,1,2
CLAIMED = open(os.path.join(D, "claimed.txt")).read().split()


def main():
    props = [json.loads(l)["id"] for l in open("/verif/properties.jsonl")]
    na_reasons = json.load(open(os.path.join(D, "na.json"))) if os.path.exists(os.path.join(D, "na.json")) else {}
    checks, claimed = [], []
    for pid in props:
        p = os.path.join(D, pid + ".json")
        if not os.path.exists(p) or pid in na_reasons or pid not in CLAIMED:
            continue
        c = json.load(open(p))
        claimed.append(pid)
        checks.append({
            "property_id": pid,
            "quick_cmd": "./check %s --tier quick" % pid,
            "thorough_cmd": "./check %s --tier thorough" % pid,
            "evidence_file": "/verif/evidence/%s.json" % pid,
            "replay_cmd_template": "./check %s --replay {path}" % pid,
            "engine": "coq+correspondence",
            "level_claimed": {"category": "proof", "text": c["text"], "design_ref": c["design"]},
            "level_note": c["note"],
            "technique": c["technique"],
        })
    na = [{"property_id": p, "reason": na_reasons.get(p, "check not built yet (planned, see DESIGN.md section 9); not claimed until its check exists")}
          for p in props if p not in claimed]
    m = {
        "version": 1,
        "setup_cmd": "./setup.sh",
        "hooks": {"guard": "DJC_VERIF", "enable": "no source hooks: checks import /repo/src directly (PYTHONPATH=/repo/src:/repo) and patch id generation from the harness process",
                  "baseline_off_cmd": "cd /repo && /venv/bin/python -m pytest -ra -q -p no:cacheprovider --timeout=900 --continue-on-collection-errors",
                  "source_commits": [], "add_only": True},
        "engines": [{"name": "coq+correspondence", "path": "/verif/check", "serves_properties": claimed,
                     "kind_free_text": "Coq 8.16.1 theorems about hand-written Gallina models (coq/), re-checked on every run; models evaluated with vm_compute on generated cases and compared with the implementation (harness/)"}],
        "checks": checks,
        "not_applicable": na,
        "notes": "See DESIGN.md. known_findings.json lists recorded/fixed genuine defects. Evidence is rewritten by every run.",
    }
    json.dump(m, open("/verif/MANIFEST.json", "w"), indent=1)
    print("checks:", len(checks), claimed, "not_applicable:", len(na))


main()
