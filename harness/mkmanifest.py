"""Regenerate /verif/MANIFEST.json from the table below (python3 harness/mkmanifest.py)."""
import json

BASE_TB = ("Coq 8.16.1 kernel + vm_compute (no native_compute); no axioms declared; hand-written Gallina model tied to /repo by a "
           "differential correspondence run on every invocation (model evaluated inside Coq, no extraction); Python harness generators/printers; "
           "CPython/Django/re semantics modelled, not verified. ")

CHECKS = {
    "C01": dict(
        text="Theorems (Coq, all programs/states/fuel, both modes) about the reference renderer Core/Sem.v: an unfilled slot renders its own default content "
             "in its own instance (required => TemplateSyntaxError, and only then); a filled slot renders exactly the fill stored under its fill name in the "
             "CURRENT instance's fills, run in the fill owner's instance; the default alias is the slot's own default content; is_filled is true exactly for "
             "provided fills; an implicit body is exactly one `default` fill; page and loops are in-order compositions; results are independent of the fuel "
             "bound. The implementation is tied to that renderer on every run: generated programs (both context behaviours) are rendered through the tag, the "
             "dynamic component and Component.render and must equal the renderer's output (evaluated inside Coq).",
        note=BASE_TB + "The reference renderer is a specification-level (lexical closure) model, not a transliteration of the Context-stack mechanism; the "
             "instance-ownership claim is proved about the renderer and transferred to the code only by output equality on generated programs. Deferred "
             "rendering is abstracted (C14 covers the queue).",
        technique="Coq proof about a reference semantics (unfolding characterisations, fuel monotonicity by induction, composition lemmas) + differential correspondence on generated programs",
        design="§6 C01, §11"),
    "C18": dict(
        text="Theorems (Coq, all histories / all capacities, no bounds): size<=cap, distinct keys, cap<=0 stores nothing, error branch unreachable, "
             "cache answers only what a dictionary would (and the unbounded cache is that dictionary), eviction drops exactly the least-recently-used "
             "entry (ghost time stamps), cached_template returns a template compiled from the requested key for every history and is identity-stable "
             "while cached. Tied to the code by exhaustive (<=4/5 ops) + random differential runs of LRUCache and cached_template against the model.",
        note=BASE_TB + "The model keeps the entry list the linked list + dict represent; Template compilation is an opaque deterministic function of the key.",
        technique="Coq proof (induction over operation histories, refinement to a dictionary, ghost time stamps) + differential correspondence",
        design="§6 C18"),
}

NOT_APPLICABLE = {}


def main():
    props = [json.loads(l)["id"] for l in open("/verif/properties.jsonl")]
    checks = []
    for pid in props:
        if pid not in CHECKS:
            continue
        c = CHECKS[pid]
        checks.append({
            "property_id": pid,
            "quick_cmd": "./check %s --tier quick" % pid,
            "thorough_cmd": "./check %s --tier thorough" % pid,
            "evidence_file": "/verif/evidence/%s.json" % pid,
            "replay_cmd_template": "./check %s --replay {path}" % pid,
            "engine": "coq+correspondence",
            "level_claimed": {"category": "proof", "text": c["text"], "design_ref": c["design"]},
            "level_note": c["note"],
            "technique": c["technique"],
        })
    na = [{"property_id": p, "reason": NOT_APPLICABLE.get(p, "check not built yet in this round (planned, see DESIGN.md §9); not claimed until its check exists")}
          for p in props if p not in CHECKS]
    m = {
        "version": 1,
        "setup_cmd": "./setup.sh",
        "hooks": {"guard": "DJC_VERIF", "enable": "no source hooks: checks import /repo/src directly (PYTHONPATH=/repo/src:/repo) and patch id generation from the harness process",
                  "baseline_off_cmd": "cd /repo && /venv/bin/python -m pytest -ra -q -p no:cacheprovider --timeout=900 --continue-on-collection-errors",
                  "source_commits": [], "add_only": True},
        "engines": [{"name": "coq+correspondence", "path": "/verif/check", "serves_properties": sorted(CHECKS),
                     "kind_free_text": "Coq 8.16.1 theorems about hand-written Gallina models (coq/), re-checked on every run; models evaluated with vm_compute on generated cases and compared with the implementation (harness/)"}],
        "checks": checks,
        "not_applicable": na,
        "notes": "See DESIGN.md. known_findings.json lists recorded/fixed genuine defects. Evidence is rewritten by every run.",
    }
    json.dump(m, open("/verif/MANIFEST.json", "w"), indent=1)
    print("checks:", len(checks), "not_applicable:", len(na))


main()
