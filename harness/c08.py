"""C08 - render_dependencies only strips markers and inserts tags where documented.

Model: coq/DepsRender/Model.v (M: transliteration of the code's passes), coq/DepsRender/Spec.v (S: one-pass placement)
Theorems: coq/Props/C08.v
Correspondence: documents assembled from text / look-alike / end-tag / placeholder / real-marker pieces are run through
render_dependencies (str, SafeString, UTF-8 bytes; document and fragment) and through ComponentDependencyMiddleware
(content types, streaming), and through the Gallina model (vm_compute inside Coq).  The direct property oracle is an
independent Python statement of the property (`spec_render`), written with its own copies of the documented patterns.
The generated JS/CSS strings (what is inserted - property C04) are taken from the implementation's
_process_dep_declarations and cross-checked through the public API; C08 is about WHERE they go.
"""
import itertools
import json
import os
import re

import common as C
import c08_util
from common import cstr, clist, copt, cbool

IMPORTS = "From DJC Require Import Lib.Base DepsRender.Model."
CORPUS = os.path.join(C.VERIF, "corpus", "C08")
SHARD = 500   # cases per coqc process (16 processes run at once)

# ---------------------------------------------------------------------------------------------------------------
# The documented grammar, restated (NOT imported from the source): this is the specification side.
# ---------------------------------------------------------------------------------------------------------------
_WS = r"[ \t\n\r\f\v]"
SPEC_MARKER = re.compile(r"<!--%s+_RENDERED%s+([^ \t\n\r\f\v>]+?)%s+-->" % (_WS, _WS, _WS))
SPEC_PART = re.compile(r"([^ \t\n\r\f\v,>]+),([0-9A-Za-z_]+),([0-9a-f]*),([0-9a-f]*)")
# attributes of a placeholder that is the root element of components: id and css attributes, any order and number (be574c3)
_ID = r'(?: data-djc-(?:id|css)-[0-9A-Za-z_]{6}="")*'
SPEC_PH = re.compile(r'<link name="CSS_PLACEHOLDER"%s/?>|<script name="JS_PLACEHOLDER"%s></script>' % (_ID, _ID))
SPEC_END = re.compile(r"</(head|body)\s*>")          # str mode: Unicode whitespace, lower-case names only


def spec_render(doc, ty, known, deps):
    """The property, stated directly.  Returns ('ok', out, info) or ('err', ExceptionName, info)."""
    parts = []
    t = SPEC_MARKER.sub(lambda m: parts.append(m.group(1)) or "", doc)
    info = {"parts": parts, "n_end": 0, "kinds": set(), "inserted_has_endtag": False}
    hashes = []
    for p in parts:
        m = SPEC_PART.fullmatch(p)
        if not m:
            return ("err", "RuntimeError", info)
        hashes.append(m.group(1))
    for h in hashes:
        if h not in known:
            return ("err", "KeyError", info)
    js, css = deps(ty, parts)
    # placeholder tokens
    segs, pos = [], 0
    for m in SPEC_PH.finditer(t):
        segs.append(("T", t[pos:m.start()]))
        segs.append(("P", "css" if m.group().startswith("<link") else "js"))
        pos = m.end()
    segs.append(("T", t[pos:]))
    kinds = {s[1] for s in segs if s[0] == "P"}
    info["kinds"] = kinds
    info["n_end"] = len(SPEC_END.findall(t))
    if ty == "fragment":
        return ("ok", "".join(s[1] for s in segs if s[0] == "T") + js, info)
    repl = {"css": css, "js": js}
    # chunks of original text (placeholders whose replacement is empty simply vanish) and inserted blocks
    chunks = []
    for s in segs:
        if s[0] == "T":
            if chunks and chunks[-1][0] == "O":
                chunks[-1] = ("O", chunks[-1][1] + s[1])
            else:
                chunks.append(("O", s[1]))
        elif repl[s[1]]:
            chunks.append(("I", repl[s[1]]))
    # the class of the defect fixed in b234f8a (feature histogram only): one kind at its placeholder, end-tag text inside it
    info["inserted_has_endtag"] = len(kinds) == 1 and SPEC_END.search(repl[next(iter(kinds))]) is not None
    first_head = last_body = None
    for ci, (k, txt) in enumerate(chunks):
        if k != "O":
            continue
        for m in SPEC_END.finditer(txt):
            if m.group(1) == "head":
                if first_head is None:
                    first_head = (ci, m.start())
            else:
                last_body = (ci, m.start())
    out = []
    for ci, (k, txt) in enumerate(chunks):
        if k == "I":
            out.append(txt)
            continue
        cuts = []
        if "css" not in kinds and first_head is not None and first_head[0] == ci:
            cuts.append((first_head[1], 0, css))
        if "js" not in kinds and last_body is not None and last_body[0] == ci:
            cuts.append((last_body[1], 1, js))
        cuts.sort()
        p = 0
        for (off, _, ins) in cuts:
            out.append(txt[p:off])
            out.append(ins)
            p = off
        out.append(txt[p:])
    return ("ok", "".join(out), info)


# ---------------------------------------------------------------------------------------------------------------
# Implementation side
# ---------------------------------------------------------------------------------------------------------------
class World:
    """Real components, their real markers, and the JS/CSS the implementation generates for a marker list."""

    def __init__(self):
        from django_components import Component
        import django_components.dependencies as D
        self.D = D
        specs = [
            ("C08A", {"template": "<div>A</div>", "js": "console.log('A');", "css": ".a{color:red}"}),
            ("C08B", {"template": "<b>B</b>", "js": "console.log('B');"}),
            ("C08M", {"template": "<p>M</p>", "Media": type("Media", (), {"js": ["m.js"], "css": ["m.css"]})}),
            ("C08N", {"template": "<i>N</i>"}),
            ("C08V", {"template": "<em>V</em>", "js": "console.log('V');", "get_js_data": lambda self, *a, **k: {"v": 1}}),
            ("C08Кн", {"template": "<u>K</u>", "css": ".k{top:0}"}),
            # inserted tags that contain end-tag text (the class of the defect fixed in b234f8a)
            # and non-ASCII text (character counts != byte counts)
            ("C08X", {"template": "<s>X</s>", "js": "var h = '</head>\u00e9\U0001d11e';", "css": ".x:after{content:'\u00fc</body>'}"}),
        ]
        self.comps, self.marker, self.rendered = {}, {}, {}
        self.setup_problems = []      # (component name, what, rendered html): reported as property failures by run(), never a crash
        for name, attrs in specs:
            cls = type(name, (Component,), dict(attrs, __module__=__name__))
            self.comps[name] = cls
            html = str(cls.render(render_dependencies=False))
            self.rendered[name] = html
            # the marker the library wrote, located with the DOCUMENTED grammar (not with the source's pattern)
            m = SPEC_MARKER.search(html)
            m_src = D.COMPONENT_COMMENT_REGEX.search(html.encode())
            if m is None:
                self.setup_problems.append((name, "the rendered component carries no marker comment of the documented form", html))
                self.marker[name] = (m_src.group(0).decode() if m_src else "<!-- _RENDERED %s,a1b2c3,, -->" % cls._class_hash)
                continue
            self.marker[name] = m.group(0)
            if m_src is None or m_src.group(0).decode() != m.group(0):
                self.setup_problems.append((name, "COMPONENT_COMMENT_REGEX of the source does not recognise the marker comment the "
                                                  "library itself wrote for this component", html))
        self.deps_cache = {}

    def known(self, hashes):
        return sorted(h for h in set(hashes) if h in self.D.comp_hash_mapping)

    def deps(self, ty, parts):
        key = (ty, tuple(parts))
        if key not in self.deps_cache:
            blob = "".join("<!-- _RENDERED %s -->" % p for p in parts).encode()
            _, js, css = self.D._process_dep_declarations(blob, ty)
            self.deps_cache[key] = (js.decode(), css.decode())
        return self.deps_cache[key]


def run_impl(world, doc, ty, kind):
    """kind: 'str' | 'safe' | 'bytes'.  Returns ('ok', out_kind, text) | ('err', ExceptionName)."""
    from django.utils.safestring import SafeString, mark_safe
    D = world.D
    arg = doc.encode() if kind == "bytes" else (mark_safe(doc) if kind == "safe" else doc)
    try:
        out = D.render_dependencies(arg, type=ty)
    except Exception as e:  # noqa
        return ("err", type(e).__name__)
    if isinstance(out, bytes):
        # bytes that are no longer UTF-8 (a broken insertion cut a character): keep them visible, never crash
        return ("ok", "bytes", out.decode("utf-8", "backslashreplace"))
    if isinstance(out, SafeString):
        return ("ok", "safe", str(out))
    if isinstance(out, str):
        return ("ok", "str", out)
    return ("ok", type(out).__name__, str(out))


def run_mw(world, body, ctype, streaming):
    from django.http import HttpRequest, HttpResponse, StreamingHttpResponse
    from django_components.middleware import ComponentDependencyMiddleware
    if streaming:
        resp = StreamingHttpResponse(iter([body.encode()]))
    else:
        resp = HttpResponse(body.encode())
    if ctype is None:
        del resp["Content-Type"]
    else:
        resp["Content-Type"] = ctype
    mw = ComponentDependencyMiddleware(lambda req: resp)
    try:
        out = mw(HttpRequest())
    except Exception as e:  # noqa
        return ("err", type(e).__name__)
    if out is not resp:
        return ("err", "OtherResponseObject")
    data = b"".join(out.streaming_content) if streaming else out.content
    return ("ok", data.decode("utf-8", "backslashreplace"))


# ---------------------------------------------------------------------------------------------------------------
# Coq printing
# ---------------------------------------------------------------------------------------------------------------
KIND_T = {"str": "CStr", "safe": "CSafe", "bytes": "CBytes"}
ERR_T = {"RuntimeError": "EMalformed", "KeyError": "EKeyError"}


class Table:
    """Names for the (long) generated JS/CSS strings so that case literals stay small."""

    def __init__(self):
        self.names, self.defs, self.by_name = {}, [], {}

    def name(self, s):
        if s == "":
            return "[]"
        if s not in self.names:
            self.names[s] = "g%d" % len(self.names)
            self.defs.append("Definition %s : str := %s." % (self.names[s], cstr(s)))
            self.by_name[self.names[s]] = self.defs[-1]
        return self.names[s]

    def compress(self, out, strings):
        """Exact literal for `out`, written as a concatenation that refers to the named strings."""
        named = sorted({s for s in strings if s}, key=len, reverse=True)
        parts, i = [], 0
        while True:
            best = None
            for s in named:
                j = out.find(s, i)
                if j >= 0 and (best is None or j < best[0]):
                    best = (j, s)
            if best is None:
                break
            parts.append(cstr(out[i:best[0]]))
            parts.append(self.name(best[1]))
            i = best[0] + len(best[1])
        parts.append(cstr(out[i:]))
        return "(" + " ++ ".join(parts) + ")"


def res_term(tab, r, strings, with_kind=True):
    if r[0] == "err":
        if r[1] not in ERR_T:
            return None
        return "(RErr %s)" % ERR_T[r[1]]
    if with_kind:
        if r[1] not in KIND_T:
            return None
        return "(ROk (%s, %s))" % (KIND_T[r[1]], tab.compress(r[2], strings))
    return "(ROk %s)" % tab.compress(r[1], strings)


# ---------------------------------------------------------------------------------------------------------------
# Generators
# ---------------------------------------------------------------------------------------------------------------
CSS_PH = '<link name="CSS_PLACEHOLDER">'
JS_PH = '<script name="JS_PLACEHOLDER"></script>'


def piece_pool(world):
    mk = world.marker
    A, B = mk["C08A"], mk["C08B"]
    hA = world.comps["C08A"]._class_hash
    pool = {
        "text": ["a", "é", "\U0001d11e", " ", "\n", "<", "%", ">", "x>", "<p>", "{% x %}", "</", "-->", "<!--"],
        "end": ["</head>", "</body>", "</head >", "</body\n>", "</head\u00a0>", "</body\t\u2003>", "</head\x1f>", "</body\u3000 >"],
        "endlike": ["</HEAD>", "</Body>", "</ head>", "</headx>", "</head", "</body", "< /body>", "</head/>", "</head\u200b>",
                    "<head>", "</heads>"],
        "ph": [CSS_PH, JS_PH, '<link name="CSS_PLACEHOLDER"/>',
               '<link name="CSS_PLACEHOLDER" data-djc-css-a1b2c3="" data-djc-id-a1b2c3=""/>',
               '<link name="CSS_PLACEHOLDER" data-djc-id-a1b2c3="" data-djc-id-x_Y9z0="">',
               '<script name="JS_PLACEHOLDER" data-djc-id-a1b2c3=""></script>',
               '<script name="JS_PLACEHOLDER" data-djc-css-99914b="" data-djc-id-a1b2c3="" data-djc-id-b2c3d4=""></script>',
               # css attribute after / between / without id attributes, several css attributes (accepted since be574c3)
               '<link name="CSS_PLACEHOLDER" data-djc-id-a1b2c3="" data-djc-css-a1b2c3="">',
               '<link name="CSS_PLACEHOLDER" data-djc-id-a1b2c3="" data-djc-css-99914b="" data-djc-id-x_Y9z0=""/>',
               '<link name="CSS_PLACEHOLDER" data-djc-css-99914b="">',
               '<script name="JS_PLACEHOLDER" data-djc-id-a1b2c3="" data-djc-id-b2c3d4="" data-djc-css-99914b=""></script>',
               '<script name="JS_PLACEHOLDER" data-djc-id-a1b2c3="" data-djc-css-99914b="" data-djc-id-b2c3d4=""></script>',
               '<script name="JS_PLACEHOLDER" data-djc-css-99914b="" data-djc-css-0000aa=""></script>'],
        "phlike": ['<link name="CSS_PLACEHOLDER" >', '<link name="CSS_PLACEHOLDER" data-djc-id-a1b2c="">',
                   '<link name="CSS_PLACEHOLDER" data-djc-id-a1b2c3d="">', '<link name="css_placeholder">',
                   '<script name="JS_PLACEHOLDER">x</script>', '<script name="JS_PLACEHOLDER"/>',
                   '<link name="CSS_PLACEHOLDER" data-djc-id-a1b2c3="" data-djc-js-a1b2c3="">',
                   '<link name="CSS_PLACEHOLDER" data-djc-id-a1b2c3="" data-djc-css-a1b2c="">',
                   '<script name="JS_PLACEHOLDER" data-djc-css-99914b=""data-djc-id-a1b2c3=""></script>',
                   '<script name="JS_PLACEHOLDER" data-djc-cssid-99914b=""></script>',
                   '<link name="CSS_PLACEHOLDER" data-djc-id-é1b2c3="">', '<script name="JS_PLACEHOLDER"></script',
                   '<link name="CSS_PLACEHOLDER"//>'],
        "marker": [A, B, mk["C08M"], mk["C08N"], mk["C08Кн"], A.replace("<!-- ", "<!--\t\n "), B.replace(" -->", "\r\f\v-->"),
                   mk["C08V"]],
        "rendered": [world.rendered["C08A"], world.rendered["C08M"]],
        # look-alikes that do not match the marker grammar
        "markerlike": ["<!-- _RENDERED -->", "<!--_RENDERED a,b,, -->", "<!-- _RENDERED a>b,c,, -->", "<!-- _rendered a,b,, -->",
                       "<!-- _RENDERED a,b,,-->", "<!-- _RENDERED\u00a0a,b,, -->", "<!-- _RENDERED a,b,, --", "<!-- RENDERED a,b,, -->",
                       "<!-- _RENDERED a,b,, x -->"],
        # split tokens that only become a token once what stands between them is deleted
        "split": ["</he", "ad>", "</bo", "dy>", '<link name="CSS_', 'PLACEHOLDER">', "<!-- _REN", "DERED %s,ab,, -->" % hA],
    }
    return pool


def doc_info_kind(pieces_kinds):
    return "+".join(sorted(set(pieces_kinds))) or "empty"


def gen_docs(chk, world, thorough):
    """Yields (pieces, ty, kind, label)."""
    mk = world.marker
    core = ["é", "</head>", "</body >", CSS_PH, JS_PH, mk["C08A"], "</he", "ad>", "</HEAD>"]
    maxlen = 5 if thorough else 4
    n = 0
    for L in range(0, maxlen + 1):
        for seq in itertools.product(range(len(core)), repeat=L):
            pieces = [core[i] for i in seq]
            if L == 5 and n % 3:
                n += 1
                continue            # thorough: a third of the 59049 five-piece arrangements
            if L <= 3 or (thorough and L == 4):
                tys = ["document", "fragment"] if (L <= 2 or n % 4 == 0) else ["document"]
            else:
                tys = ["document"]
            for ty in tys:
                yield pieces, ty, ("str", "bytes", "safe")[(n // 3 if L == 5 else n) % 3], "exh%d" % L
            n += 1
    rng = chk.rng
    pool = piece_pool(world)
    cats = ["text", "end", "endlike", "ph", "phlike", "marker", "rendered", "markerlike", "split"]
    weights = [5, 5, 2, 3, 1.5, 4, 0.7, 1.5, 3]
    for _ in range(12000 if thorough else 2500):
        L = rng.randint(2, 12)
        pieces = []
        for _ in range(L):
            cat = rng.choices(cats, weights)[0]
            pieces.append(rng.choice(pool[cat]))
        ty = "document" if rng.random() < 0.8 else "fragment"
        yield pieces, ty, rng.choice(["str", "bytes", "safe"]), "random"
    # error outcomes: malformed marker data, unknown class hash
    hA = world.comps["C08A"]._class_hash
    bad = ["<!-- _RENDERED a;b -->", "<!-- _RENDERED %s,ab,XY, -->" % hA, "<!-- _RENDERED %s,ab,,,0 -->" % hA,
           "<!-- _RENDERED %s,a-b,, -->" % hA, "<!-- _RENDERED ,ab,, -->", "<!-- _RENDERED %s,,, -->" % hA,
           "<!-- _RENDERED %s,ab,, -->" % "Nope_123456", "<!-- _RENDERED %s,ab,,0A -->" % hA,
           "<!-- _RENDERED %s,éb,, -->" % hA, "<!-- _RENDERED %s,ab, -->" % hA]
    for _ in range(900 if thorough else 250):
        pieces = [rng.choice(pool[rng.choices(cats, weights)[0]]) for _ in range(rng.randint(0, 5))]
        for _ in range(rng.randint(1, 2)):
            pieces.insert(rng.randint(0, len(pieces)), rng.choice(bad))
        yield pieces, rng.choice(["document", "fragment"]), rng.choice(["str", "bytes", "safe"]), "error"


def gen_endtag_in_inserted(chk, world, thorough):
    """Documents of the class fixed in b234f8a: the generated JS holds the text </head>, the generated CSS the text </body>
    (component C08X).  Exhaustive: the marker followed by every arrangement of <= 4 (thorough: 5) pieces of a 7-piece alphabet
    (incl. the halves '</head' '>' that only look like an end tag in a copy whose inserted blocks are blanked by white space)."""
    X = world.marker["C08X"]
    alph = ["</head>", "</body >", CSS_PH, JS_PH, "\u00e9", "</head", ">"]
    n = 0
    for L in range(0, (5 if thorough else 4) + 1):
        for seq in itertools.product(alph, repeat=L):
            yield [X] + list(seq), "document", ("str", "bytes", "safe")[n % 3], "endtag-in-inserted-exh"
            n += 1
    rng = chk.rng
    pool = piece_pool(world)
    for _ in range(400 if thorough else 80):
        pieces = [X, rng.choice([JS_PH, CSS_PH])]
        for _ in range(rng.randint(0, 6)):
            pieces.insert(rng.randint(0, len(pieces)), rng.choice(pool[rng.choice(["text", "end", "end", "marker", "split", "ph"])]))
        yield pieces, "document", rng.choice(["str", "bytes", "safe"]), "endtag-in-inserted"


def ph_attr_variants(maxn):
    """Both placeholders with every sequence of <= maxn attributes over {id, css} (and '/' for the link)."""
    ida, cssa = ' data-djc-id-a1b2c3=""', ' data-djc-css-99914b=""'
    out = []
    for n in range(0, maxn + 1):
        for seq in itertools.product((ida, cssa), repeat=n):
            attrs = "".join(seq)
            out.append('<link name="CSS_PLACEHOLDER"%s>' % attrs)
            out.append('<link name="CSS_PLACEHOLDER"%s/>' % attrs)
            out.append('<script name="JS_PLACEHOLDER"%s></script>' % attrs)
    return out


def gen_ph_attrs(chk, world, thorough):
    """Placeholders that are root elements of components: css attributes before / after / between id attributes."""
    A = world.marker["C08A"]
    n = 0
    for ph in ph_attr_variants(4 if thorough else 3):
        for pieces in ([A, "<head>", ph, "</head><body>x</body >"], [A, "</body>", ph, "</head>"], [ph, A, ph]):
            for ty in ("document", "fragment") if n % 2 == 0 else ("document",):
                yield pieces, ty, ("str", "bytes", "safe")[n % 3], "placeholder-attributes"
            n += 1


CTYPES = ["text/html", "text/html; charset=utf-8", "text/htmlx", "text/htm", "TEXT/HTML", "application/json", "text/plain",
          "application/xhtml+xml", " text/html", "", None]


# ---------------------------------------------------------------------------------------------------------------
def load_corpus(world):
    out = []
    if os.path.isdir(CORPUS):
        for f in sorted(os.listdir(CORPUS)):
            if f.endswith(".json"):
                c = json.load(open(os.path.join(CORPUS, f)))
                out.append((f, c))
    return out


def expand(world, pieces):
    """Corpus pieces: '@NAME' stands for the real marker of component NAME."""
    return [world.marker[p[1:]] if p.startswith("@") and p[1:] in world.marker else p for p in pieces]


def one_case(chk, world, tab, pieces, ty, kind, label, collect):
    """Run implementation + direct oracle on one document; append the Coq case to `collect`."""
    doc = "".join(pieces)
    impl = run_impl(world, doc, ty, kind)
    src_parts = [m.group("data").decode() for m in world.D.COMPONENT_COMMENT_REGEX.finditer(doc.encode())]
    hashes = [p.split(",")[0] for p in src_parts]
    known = world.known(hashes)
    known_all = set(world.D.comp_hash_mapping.keys())
    spec = spec_render(doc, ty, known_all, world.deps)
    info = spec[2]
    nontrivial = bool(info["parts"]) and info["n_end"] > 0 and spec[0] == "ok"
    replay = {"kind": "render", "pieces": pieces, "type": ty, "input_kind": kind, "doc": doc}
    chk.count((doc, ty, kind), nontrivial, kind=label,
              sample={"doc": doc, "type": ty, "input": kind, "output": impl[-1][:400]} if (nontrivial and label == "random" and len(doc) < 260) else None)
    chk.extra_hist["placeholders:" + (",".join(sorted(info["kinds"])) or "none")] += 1
    chk.extra_hist["markers:%d" % min(len(info["parts"]), 3)] += 1
    chk.extra_hist["endtags:%d" % min(info["n_end"], 3)] += 1
    if info["inserted_has_endtag"]:
        chk.extra_hist["endtag-text-inside-inserted-block"] += 1
    # ---- direct oracle ----
    if spec[0] == "err":
        if impl != ("err", spec[1]):
            chk.fail("c08-error-outcome", "expected %s for this marker data, got %r" % (spec[1], impl[:2]), dict(replay, impl=impl, expected=spec[:2]))
    else:
        if impl[0] == "err":
            chk.fail("c08-raises", "render_dependencies raised %s on a document of the property's domain" % impl[1], dict(replay, impl=impl))
        else:
            if impl[1] != kind:
                chk.fail("c08-type", "input type %s came back as %s" % (kind, impl[1]), dict(replay, impl=impl))
            if impl[2] != spec[1]:
                chk.fail("c08-placement",
                         "output differs from: markers/placeholders removed, tags at every placeholder, else CSS before first "
                         "</head> / JS before last </body> of the document, every other symbol kept",
                         dict(replay, impl=impl[2], expected=spec[1]))
    # ---- Coq case ----
    if spec[0] == "ok":
        js, css = world.deps(ty, info["parts"])
    else:
        js, css = "", ""
    if src_parts != info["parts"] and spec[0] == "ok":
        # the source's marker pattern finds other markers than the documented grammar: let the model use the same deps
        try:
            js, css = world.deps(ty, src_parts)
        except Exception:  # noqa
            pass
    term_res = res_term(tab, impl, [js, css])
    if term_res is None:
        return  # an outcome the model has no constructor for: already reported by the oracle above
    term = "(%s, %s, %s, %s, %s, %s, %s, %s)" % (
        "Document" if ty == "document" else "Fragment", KIND_T[kind], cstr(doc), clist([cstr(h) for h in known]),
        tab.name(js), tab.name(css), clist([cstr(p) for p in src_parts]), term_res)
    collect.append((term, replay))


def run(tier, seed):
    import collections
    import djsetup
    import gen_constants
    djsetup.setup()
    gen_constants.generate(["C08"])
    chk = C.Check("C08", tier, seed)
    chk.extra_hist = collections.Counter()
    import time
    phases, _t = {}, [time.time()]

    def phase(name):
        phases[name] = round(time.time() - _t[0], 1)
        _t[0] = time.time()
    chk.prove()
    phase("prove")
    thorough = tier == "thorough"
    world = World()
    tab = Table()
    D = world.D

    # ---- 0a. every REAL rendered component: its marker is recognised, removed, and its tags are inserted ----
    for name, what, html in world.setup_problems:
        chk.fail("c08-marker-not-recognised", "%s (component class %s)" % (what, name),
                 {"kind": "render", "pieces": [html], "type": "document", "input_kind": "str", "doc": html, "component": name})
    for name in world.comps:
        html = CSS_PH + world.rendered[name] + JS_PH      # placeholders: the tags have a documented place to go
        for kind in ("str", "bytes"):
            got = run_impl(world, html, "document", kind)
            chk.count(("rendered", name, kind), False, kind="rendered-component")
            left = got[0] == "ok" and SPEC_MARKER.search(got[2]) is not None
            js_c, css_c = world.comps[name].js, world.comps[name].css
            missing = got[0] == "ok" and any(txt and txt not in got[2] for txt in (js_c, css_c))
            if got[0] != "ok" or left or missing:
                chk.fail("c08-marker-not-recognised",
                         "render_dependencies on the output of a real component (class %s): %s" % (
                             name, "raised %s" % got[1] if got[0] != "ok" else
                             ("the marker comment is still in the output" if left else "the component's inlined JS/CSS was not inserted")),
                         {"kind": "render", "pieces": [html], "type": "document", "input_kind": kind, "doc": html, "component": name,
                          "impl": got[-1] if got[0] == "ok" else got})

    # ---- 0. sanity of the generated tags taken from the implementation (C04 owns their content) ----
    for names in ([], ["C08A"], ["C08B", "C08A"], ["C08M", "C08Кн"], ["C08X"]):
        parts = [(SPEC_MARKER.fullmatch(world.marker[n]) or re.search(r"_RENDERED\s+(\S+)", world.marker[n])).group(1) for n in names]
        js, css = world.deps("document", parts)
        probe = "".join(world.marker[n] for n in names) + CSS_PH + "\x00" + JS_PH
        got = run_impl(world, probe, "document", "str")
        chk.count(("probe", tuple(names)), False, kind="probe")
        if got != ("ok", "str", css + "\x00" + js) or not js.startswith("<script") or not (css == "" or css.startswith("<style") or css.startswith("<link")):
            chk.fail("c08-probe", "placeholders alone are not replaced by exactly the generated tags",
                     {"kind": "render", "pieces": [probe], "type": "document", "input_kind": "str", "doc": probe, "impl": got, "js": js, "css": css})

    # ---- 1. corpus first (direct oracle) ----
    cases = []
    for fname, c in load_corpus(world):
        one_case(chk, world, tab, expand(world, c["pieces"]), c.get("type", "document"), c.get("input_kind", "str"), "corpus", cases)

    # ---- 2. generated documents ----
    for pieces, ty, kind, label in gen_docs(chk, world, thorough):
        one_case(chk, world, tab, pieces, ty, kind, label, cases)
    for pieces, ty, kind, label in gen_endtag_in_inserted(chk, world, thorough):
        one_case(chk, world, tab, pieces, ty, kind, label, cases)
    for pieces, ty, kind, label in gen_ph_attrs(chk, world, thorough):
        one_case(chk, world, tab, pieces, ty, kind, label, cases)
    phase("render-impl+oracle")
    bad = c08_util.coq_eval_cases("C08", "render", IMPORTS, "render_case", "check_render", [t for t, _ in cases], tab.by_name, shard=SHARD)
    for i in bad[:20]:
        chk.disagree("model render_any != render_dependencies", cases[i][1])

    phase("render-model")
    # ---- 3. middleware ----
    mw_cases = []
    rng = chk.rng
    pool = piece_pool(world)
    docs = [[world.marker["C08A"], "<head></head><body>x</body>"], ["x"], [], [world.marker["C08B"], CSS_PH, "</body>"],
            ["<!-- _RENDERED Nope_123456,ab,, -->"], ["é</body></head>", world.marker["C08A"]]]
    for _ in range(300 if thorough else 60):
        docs.append([rng.choice(pool[rng.choice(["text", "end", "ph", "marker", "split"])]) for _ in range(rng.randint(1, 7))])
    for di, pieces in enumerate(docs):
        body = "".join(pieces)
        for ci, ct in enumerate(CTYPES):
            for streaming in (False, True):
                if di >= 6 and (ci + di) % 4 and not thorough:
                    continue
                got = run_mw(world, body, ct, streaming)
                spec = spec_render(body, "document", set(D.comp_hash_mapping.keys()), world.deps)
                html = (not streaming) and ct is not None and ct.startswith("text/html")
                surely_not_html = streaming or ct is None or not ct.strip().lower().startswith("text/html")
                replay = {"kind": "middleware", "pieces": pieces, "content_type": ct, "streaming": streaming, "doc": body}
                chk.count(("mw", body, ct, streaming), html and bool(spec[2]["parts"]) and spec[2]["n_end"] > 0,
                          kind="middleware-html" if html else "middleware-passthrough")
                if surely_not_html and got != ("ok", body):
                    chk.fail("c08-middleware-passthrough", "non-HTML or streaming response was altered", dict(replay, impl=got))
                if html:
                    exp = ("ok", spec[1]) if spec[0] == "ok" else ("err", spec[1])
                    if got != exp:
                        chk.fail("c08-middleware-html", "text/html response differs from the documented placement", dict(replay, impl=got, expected=exp))
                src_parts = [m.group("data").decode() for m in D.COMPONENT_COMMENT_REGEX.finditer(body.encode())]
                try:
                    js, css = world.deps("document", src_parts)
                except Exception:  # noqa
                    js, css = "", ""
                tr = res_term(tab, got, [js, css], with_kind=False)
                if tr is None:
                    continue
                mw_cases.append(("(%s, %s, %s, %s, %s, %s, %s)" % (
                    cbool(streaming), copt(ct, cstr), cstr(body), clist([cstr(h) for h in world.known([p.split(",")[0] for p in src_parts])]),
                    tab.name(js), tab.name(css), tr), replay))
    bad = c08_util.coq_eval_cases("C08", "mw", IMPORTS, "mw_case", "check_mw", [t for t, _ in mw_cases], tab.by_name, shard=SHARD)
    for i in bad[:20]:
        chk.disagree("model process_response != ComponentDependencyMiddleware", mw_cases[i][1])

    phase("middleware")
    # ---- 4. matcher-level differential: hand matchers vs Python re with the patterns of the current source ----
    sp_cases = []
    alph = {
        "marker": ["<!--", " ", "\t", "_RENDERED", "a,b,,", ">", "-->", "-", "\u00a0", "x"],
        "ph": ['<link name="CSS_PLACEHOLDER"', '<script name="JS_PLACEHOLDER"', ' data-djc-css-a1b2c3=""', ' data-djc-id-a1_2c3=""',
               ' data-djc-id-a1b2c=""', "/", ">", "></script>", " ", "é", ' data-djc-js-a1b2c3=""'],
        "end": ["</head", "</body", "</", "head", ">", " ", "\u00a0", "\u200b", "<", "/", "\n", "</HEAD", "x"],
    }
    strings = []
    for name, al in alph.items():
        for L in range(1, 5 if name != "end" else 4):
            for seq in itertools.product(al, repeat=L):
                strings.append("".join(seq))
    rng.shuffle(strings)
    strings = strings[: (20000 if thorough else 4000)]
    for _ in range(2000 if thorough else 400):
        strings.append("".join(rng.choice(pool[rng.choice(list(pool))]) for _ in range(rng.randint(1, 6))))
    # always: both placeholders with every sequence of <= 3 (thorough 4) attributes over {id, css, a 5-character id (no match)},
    # alone and embedded in text
    for n_at in range(0, (4 if thorough else 3) + 1):
        for seq in itertools.product((' data-djc-id-a1_2c3=""', ' data-djc-css-a1b2c3=""', ' data-djc-id-a1b2c=""'), repeat=n_at):
            for op, cl in (('<link name="CSS_PLACEHOLDER"', ">"), ('<link name="CSS_PLACEHOLDER"', "/>"), ('<script name="JS_PLACEHOLDER"', "></script>")):
                strings.append(op + "".join(seq) + cl)
                strings.append("é" + op + "".join(seq) + cl + op)

    def spans_b(rx, s):
        b = s.encode()
        return [(len(b[:m.start()].decode()), len(m.group(0).decode())) for m in rx.finditer(b)]
    for s in strings:
        mk = spans_b(D.COMPONENT_COMMENT_REGEX, s)
        ph = spans_b(D.PLACEHOLDER_REGEX, s)
        et = [(m.start(), m.end() - m.start()) for m in D.head_or_body_end_tag_re.finditer(s)]
        chk.count(("spans", s), False, kind="matcher-differential")
        # the documented grammar (oracle side) must select the same spans as the source patterns
        mk2 = [(m.start(), m.end() - m.start()) for m in SPEC_MARKER.finditer(s)]
        ph2 = [(m.start(), m.end() - m.start()) for m in SPEC_PH.finditer(s)]
        et2 = [(m.start(), m.end() - m.start()) for m in SPEC_END.finditer(s)]
        if (mk, ph, et) != (mk2, ph2, et2):
            chk.fail("c08-pattern", "a pattern of the source no longer selects the documented markers / placeholders / end tags",
                     {"kind": "spans", "doc": s, "source": [mk, ph, et], "documented": [mk2, ph2, et2]})
        pr = lambda l: clist(["(%d, %d)" % (a, b) for a, b in l])  # noqa
        sp_cases.append(("(%s, %s, %s, %s)" % (cstr(s), pr(mk), pr(ph), pr(et)), {"kind": "spans", "doc": s}))
    bad = C.coq_eval_cases("C08", "spans", IMPORTS, "spans_case", "check_spans", [t for t, _ in sp_cases], shard=SHARD)
    for i in bad[:20]:
        chk.disagree("hand matcher != Python re on the source pattern", sp_cases[i][1])

    phase("matcher-differential")
    # ---- 5. outside the recorded domain (diagnostic only, never an alarm): HTML bytes that are not UTF-8 ----
    try:
        from django.http import HttpRequest, HttpResponse
        from django_components.middleware import ComponentDependencyMiddleware
        resp = HttpResponse("<html><body>caf\xe9</body></html>", content_type="text/html; charset=iso-8859-1")
        try:
            got = ComponentDependencyMiddleware(lambda r: resp)(HttpRequest()).content
            obs = "returned %r" % got[:80]
        except Exception as e:  # noqa
            obs = "raised %s" % type(e).__name__
        chk.extra["outside_domain_observation"] = "text/html response in charset iso-8859-1 with a non-ASCII byte through the middleware: " + obs
    except Exception as e:  # noqa
        chk.extra["outside_domain_observation"] = "not measured: %r" % (e,)
    chk.extra["phase_wall_s"] = phases
    chk.extra["feature_histogram"] = dict(chk.extra_hist)
    chk.extra["interpretation"] = ("'a </head> end tag' is read as the documented pattern </head\\s*> (lower-case name, optional Unicode "
                                   "whitespace before '>'); </HEAD> is text for the code and for the specification")
    chk.assumptions = [
        "bytes input is valid UTF-8 (the code decodes it; other encodings raise UnicodeDecodeError in document mode)",
        "marker data names class hashes of live component classes whose JS/CSS is cached (unknown hash: KeyError, modelled and tested)",
        "the generated JS/CSS strings are taken from the implementation (_process_dep_declarations); their content is property C04",
        "matching on UTF-8 bytes and on code points selects the same spans for the two bytes-mode patterns (all literals ASCII)",
    ]
    return chk.finish(
        rule="documents = all arrangements of <= 4 (thorough: + a third of the 5-piece ones) pieces from a 9-piece alphabet (non-ASCII text, "
             "</head>, </body >, both placeholders, a real marker, the halves '</he' 'ad>', </HEAD>); the marker of a component whose JS holds "
             "'</head>' and whose CSS holds '</body>' (and non-ASCII text) followed by all arrangements of <= 4 pieces from a 7-piece alphabet "
             "(both end tags, both placeholders, text, the halves '</head' '>'); both placeholders with every sequence of <= 3 attributes "
             "over {data-djc-id, data-djc-css} in 3 page shapes; seeded random documents of 2..12 pieces from an 86-piece pool "
             "(text, 8 end-tag variants, 11 end-tag look-alikes, 13 placeholder variants incl. css attributes before / after / between id "
             "attributes, 13 placeholder look-alikes, real markers of 6 components "
             "with whitespace variants, rendered components, 9 marker look-alikes, split tokens) x {document, fragment} x {str, SafeString, "
             "UTF-8 bytes}; malformed / unknown-hash markers; middleware x 11 content types x streaming; matcher differential on strings "
             "<= 4 pieces over each pattern's alphabet (sample) + every placeholder with <= 3 attributes over {id, css, malformed id}. Non-trivial = at least one real marker and at least one end tag (and no error "
             "outcome). Distinct = distinct (document, type, input kind).",
        explanation="theorems of Props/C08.v re-checked by coqc (main theorem: model = one-pass specification for all documents); the Gallina "
                    "model is evaluated by vm_compute on EVERY generated case and compared with the observed result (output symbols, result "
                    "type, exception class, marker data harvested); an independent Python statement of the property (spec_render, own copies "
                    "of the documented patterns) is the direct oracle on every case.",
        extra_trusted=["modelled, not verified: Python re (each pattern has a hand matcher, anchored to the pattern string of the current source and "
                       "compared with re on every run; the matchers are proved sound and complete for the declarative marker / placeholder "
                       "grammar), str.encode/decode (symbols are code points), Django HttpResponse / mark_safe",
                       "generated JS/CSS strings are inputs of the model (function `deps`, arbitrary in the theorems)"])


def replay(path):
    import djsetup
    djsetup.setup()
    r = json.load(open(path))
    case = r.get("case", {})
    print(json.dumps(r, indent=1, ensure_ascii=False)[:4000])
    world = World()
    if case.get("kind") == "render":
        doc = "".join(expand(world, case["pieces"]))
        impl = run_impl(world, doc, case["type"], case["input_kind"])
        spec = spec_render(doc, case["type"], set(world.D.comp_hash_mapping.keys()), world.deps)
        print("implementation:", impl)
        print("property says: ", spec[:2])
        return 0 if (impl[0] == "ok" and spec[0] == "ok" and impl[2] == spec[1]) or (impl[0] == "err" and spec[:2] == impl) else 1
    if case.get("kind") == "middleware":
        print("implementation:", run_mw(world, case["doc"], case["content_type"], case["streaming"]))
    return 0
