"""Python transliteration of the reference semantics coq/Core/Sem.v (lexically scoped renderer).

NOT the oracle of the check: expected outputs always come from the Coq evaluation (vm_compute).  This port is used
 * while shrinking a failing program (a Coq call per candidate would be too slow), and
 * by `c03.py --replay` to print the reference output quickly;
every generated case of a run is additionally cross-checked `python port == implementation  <=>  Coq == implementation`
(a difference between the two reference evaluators is reported as a harness disagreement, never silently used).
"""

COUNTER = "\x00"


class RefErr(Exception):
    def __init__(self, kind):
        self.kind = kind


class OutOfFuel(Exception):
    pass


def slookup(k, l):
    for k2, v in l:
        if k2 == k:
            return v
    return None


class Inst:
    __slots__ = ("cname", "fills", "iso")

    def __init__(self, cname, fills, iso):
        self.cname, self.fills, self.iso = cname, fills, iso


class Clo:
    __slots__ = ("body", "btw", "cloc", "cout", "dvar", "defvar", "owner", "cprov")

    def __init__(self, body, btw, cloc, cout, dvar, defvar, owner, cprov):
        self.body, self.btw, self.cloc, self.cout = body, btw, cloc, cout
        self.dvar, self.defvar, self.owner, self.cprov = dvar, defvar, owner, cprov


class St:
    __slots__ = ("loc", "out", "cur", "prov")

    def __init__(self, loc, out, cur, prov):
        self.loc, self.out, self.cur, self.prov = loc, out, cur, prov

    def bind(self, x, v):
        return St([(x, v)] + self.loc, self.out, self.cur, self.prov)


def lookup(x, st):
    v = slookup(x, st.loc)
    return v if v is not None else slookup(x, st.out)


def is_word(c):
    return ("0" <= c <= "9") or ("A" <= c <= "Z") or ("a" <= c <= "z") or c == "_"


def escape_name(s):
    return "".join(c if is_word(c) else "_" for c in s)


def is_ident(s):
    return bool(s) and not ("0" <= s[0] <= "9") and all(is_word(c) for c in s)


# xvalues: ("v", value) | ("b", bool) | ("n", int)
def ev(e, st):
    k = e[0]
    if k == "str":
        return ("v", e[1])
    if k == "var":
        v = lookup(e[1], st)
        return ("v", v if v is not None else "")
    if k == "dot":
        v = lookup(e[1], st)
        if isinstance(v, dict):
            return ("v", v.get(e[2], ""))
        return ("v", "")
    if k == "filled":
        if st.cur is None:
            return ("v", "")
        return ("b", any(escape_name(n) == e[1] for n, _ in st.cur.fills))
    v = lookup(COUNTER, st)
    return ("v", v if isinstance(v, str) else "")


def print_x(x):
    t, v = x
    if t == "b":
        return "True" if v else "False"
    if t == "n":
        return str(v)
    if isinstance(v, str):
        return v
    if isinstance(v, list):
        return "<list>"
    return "{" + ", ".join("&#x27;%s&#x27;: %s" % (k, "&#x27;%s&#x27;" % f if isinstance(f, str) else "<nested>") for k, f in v.items()) + "}"


def truthy(x):
    t, v = x
    if t == "b":
        return v
    if t == "n":
        return v != 0
    return len(v) > 0


def to_value(x):
    t, v = x
    if t == "b":
        return "True" if v else "False"
    if t == "n":
        return str(v)
    return v


def eval_kwargs(kw, st):
    return [(k, to_value(ev(e, st))) for k, e in kw]


def rec_of(kws):
    """VRec of an evaluated kwargs list (first occurrence of a key wins on lookup, order kept for printing)"""
    d = {}
    for k, v in kws:
        if k not in d:
            d[k] = v
    return d


def all_space(s):
    return all(c in " \n\t\r\x0b\x0c" for c in s)


def loop_items(x):
    return x[1] if x[0] == "v" and isinstance(x[1], list) else []


def extract_list(tagprov, st, btw, ts):
    txt, fills = "", []
    for t in ts:
        a, f = extract(tagprov, st, btw, t)
        txt += a
        fills += f
    return txt, fills


def extract(tagprov, st, btw, t):
    k = t[0]
    if k == "text":
        return t[1], []
    if k == "out":
        return print_x(ev(t[1], st)), []
    if k == "if":
        return extract_list(tagprov, st, btw, t[2] if truthy(ev(t[1], st)) else t[3])
    if k == "for":
        txt, fills = "", []
        for i, v in enumerate(loop_items(ev(t[2], st)), 1):
            cv = str(i)
            a, f = extract_list(tagprov, st.bind(COUNTER, cv).bind(t[1], v), [(t[1], v), (COUNTER, cv)] + btw, t[3])
            txt += a
            fills += f
        return txt, fills
    if k == "with":
        v = to_value(ev(t[2], st))
        return extract_list(tagprov, st.bind(t[1], v), [(t[1], v)] + btw, t[3])
    if k in ("slot", "comp"):
        return "", []
    if k == "provide":
        if not is_ident(t[1]):
            raise RefErr("ETemplateSyntax")
        return extract_list(tagprov, st, btw, t[3])
    if k == "fill":
        nm = ev(t[1], st)
        if nm[0] != "v" or not isinstance(nm[1], str):
            raise RefErr("ETemplateSyntax")
        if t[2] is not None and t[3] is not None and t[2] == t[3]:
            raise RefErr("ERuntime")
        return "", [(nm[1], Clo(t[4], btw, st.loc, st.out, t[2], t[3], st.cur, tagprov))]
    raise ValueError(k)


def body_is_empty(ts):
    return all(t[0] == "text" and all_space(t[1]) for t in ts)


def resolve_fills(st, body):
    if not body:
        return []
    content, fills = extract_list(st.prov, st, [], body)
    if not fills:
        if body_is_empty(body):
            return []
        return [("default", Clo(body, [], st.loc, st.out, None, None, st.cur, st.prov))]
    if not all_space(content):
        raise RefErr("ETemplateSyntax")
    names = [n for n, _ in fills]
    if len(set(names)) != len(names):
        raise RefErr("ETemplateSyntax")
    return fills


def eval_data(ds, kw, pv):
    out = []
    for x, d in ds:
        if d[0] == "kw":
            v = slookup(d[1], kw)
            v = v if v is not None else ""
        elif d[0] == "str":
            v = d[1]
        else:
            fs = slookup(d[1], pv)
            if fs is not None:
                v = slookup(d[2], fs)
                if v is None:
                    raise RefErr("EAttribute")
            elif d[3] is not None:
                v = d[3]
            else:
                raise RefErr("EKey")
        out.insert(0, (x, v))       # rest ++ [(x, v)] : later keys win
    return out


class Ref:
    def __init__(self, prog, fuel=200):
        self.mode = prog["mode"]
        self.lib = prog["lib"]
        self.fuel0 = fuel

    def rl(self, fuel, st, ts):
        return "".join(self.render(fuel, st, t) for t in ts)

    def fill_state(self, iso, st, aliases, c):
        if iso:
            return St(aliases + c.btw + c.cloc, c.cout, c.owner, st.prov + c.cprov)
        return St(aliases + st.loc + c.btw, st.out, c.owner, st.prov)

    def render(self, fuel, st, t):
        if fuel == 0:
            raise OutOfFuel()
        f = fuel - 1
        k = t[0]
        if k == "text":
            return t[1]
        if k == "out":
            return print_x(ev(t[1], st))
        if k == "if":
            return self.rl(f, st, t[2] if truthy(ev(t[1], st)) else t[3])
        if k == "for":
            return "".join(self.rl(f, st.bind(COUNTER, str(i)).bind(t[1], v), t[3])
                           for i, v in enumerate(loop_items(ev(t[2], st)), 1))
        if k == "with":
            return self.rl(f, st.bind(t[1], to_value(ev(t[2], st))), t[3])
        if k == "provide":
            if not is_ident(t[1]):
                raise RefErr("ETemplateSyntax")
            return self.rl(f, St(st.loc, st.out, st.cur, [(t[1], eval_kwargs(t[2], st))] + st.prov), t[3])
        if k == "comp":
            kwv = eval_kwargs(t[2], st)
            cd = slookup(t[1], self.lib)
            if cd is None:
                raise RefErr("ENotRegistered")
            fills = resolve_fills(st, t[4])
            data = eval_data(cd["data"], kwv, st.prov)
            iso = t[3] or self.mode == "isolated"
            cst = St(data, [] if iso else st.loc + st.out, Inst(t[1], fills, iso), st.prov)
            return self.rl(f, cst, cd["tpl"])
        if k == "fill":
            raise RefErr("ETemplateSyntax")
        if k == "slot":
            _, name, is_default, is_required, data, body = t
            if st.cur is None:
                raise RefErr("ETemplateSyntax")
            fills, iso = st.cur.fills, st.cur.iso
            sdata = rec_of(eval_kwargs(data, st))
            has = lambda n: slookup(n, fills) is not None   # noqa
            if is_default and name != "default" and has(name) and has("default"):
                raise RefErr("ETemplateSyntax")
            fname = "default" if (is_default and has("default")) else name
            c = slookup(fname, fills)
            if c is None:
                if is_required:
                    raise RefErr("ETemplateSyntax")
                return self.rl(f, st, body)
            aliases = []
            if c.defvar is not None:
                aliases.append((c.defvar, self.rl(f, st, body)))
            if c.dvar is not None:
                aliases.append((c.dvar, sdata))
            return self.rl(f, self.fill_state(iso, st, aliases, c), c.body)
        raise ValueError(k)


def render_prog(prog, fuel=200):
    try:
        r = Ref(prog, fuel)
        return ("ok", r.rl(fuel, St(list(prog["ctx"]), [], None, []), prog["page"]))
    except RefErr as e:
        return ("err", e.kind)
    except OutOfFuel:
        return ("err", "OutOfFuel")
    except RecursionError:
        return ("err", "OutOfFuel")
