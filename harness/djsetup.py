"""Django configuration shared by the implementation-side runners (always /repo's working tree)."""
import os
import sys
from pathlib import Path

REPO = os.environ.get("VERIF_REPO", "/repo")
for p in (REPO, REPO + "/src"):
    if p in sys.path:
        sys.path.remove(p)
sys.path.insert(0, REPO)
sys.path.insert(0, REPO + "/src")

import django  # noqa: E402
from django.conf import settings  # noqa: E402


def setup(components=None, extra=None):
    if settings.configured:
        return
    settings.configure(
        BASE_DIR=Path(REPO) / "tests",
        INSTALLED_APPS=("django_components",),
        TEMPLATES=[{
            "BACKEND": "django.template.backends.django.DjangoTemplates",
            "DIRS": [str(Path(__file__).parent / "tpl")],
            "OPTIONS": {"builtins": ["django_components.templatetags.component_tags"]},
        }],
        COMPONENTS={"autodiscover": False, "template_cache_size": 128, **(components or {})},
        MIDDLEWARE=["django_components.middleware.ComponentDependencyMiddleware"],
        DATABASES={}, SECRET_KEY="x", ROOT_URLCONF="django_components.urls",
        **(extra or {}))
    django.setup()
    import django_components
    assert os.path.realpath(django_components.__file__).startswith(os.path.realpath(REPO)), django_components.__file__


class components_settings:
    """Context manager: temporarily replace settings.COMPONENTS (read lazily by app_settings)."""

    def __init__(self, **kw):
        self.kw = kw

    def __enter__(self):
        self.old = settings.COMPONENTS
        settings.COMPONENTS = {**self.old, **self.kw}

    def __exit__(self, *a):
        settings.COMPONENTS = self.old


_counter = [0]


def patch_ids():
    """Deterministic render ids: c00001, c00002, ... (util.misc.generate is looked up at call time)."""
    import django_components.util.misc as misc

    def gen(*a, **k):
        _counter[0] += 1
        return "%06x" % (0xa00000 + _counter[0])
    misc.generate = gen


def reset_ids():
    _counter[0] = 0
