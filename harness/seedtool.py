#!/usr/bin/env python3
"""Evaluate a seeded change (written by an independent sub-agent) against our checks.

  seedtool.py import  <worktree> <seed-id> <Cxx>     copy patch.diff / demo / notes from an agent's worktree into seeded/<seed-id>/
  seedtool.py confirm <seed-id>                      scratch copy of /repo: demo passes on original, fails with the patch, suite 514/514
  seedtool.py check   <seed-id> [--tier quick] [--props C01,C03]   run the owning check(s) against a scratch copy with the patch applied
All scratch copies live under /tmp/seedrun/<seed-id> and are removed afterwards. /repo itself is never modified.
"""
import json
import os
import shutil
import subprocess
import sys
import time

VERIF = "/verif"
SEEDED = os.path.join(VERIF, "seeded")


def sh(cmd, cwd=None, env=None, timeout=3600):
    p = subprocess.run(cmd, shell=True, cwd=cwd, env=env, stdout=subprocess.PIPE, stderr=subprocess.STDOUT, text=True, timeout=timeout)
    return p.returncode, p.stdout


def meta_path(sid):
    return os.path.join(SEEDED, sid, "meta.json")


def load_meta(sid):
    return json.load(open(meta_path(sid)))


def save_meta(sid, m):
    json.dump(m, open(meta_path(sid), "w"), indent=1)


def scratch(sid, with_patch):
    d = "/tmp/seedrun/%s" % sid
    shutil.rmtree(d, ignore_errors=True)
    os.makedirs(d)
    rc, out = sh("git -C /repo archive HEAD | tar -x -C %s" % d)
    assert rc == 0, out
    if with_patch:
        rc, out = sh("git init -q . && git apply --whitespace=nowarn %s" % os.path.join(SEEDED, sid, "patch.diff"), cwd=d)
        if rc != 0:
            # try 3-way style fuzz with patch(1)
            rc, out = sh("patch -p1 --fuzz=3 < %s" % os.path.join(SEEDED, sid, "patch.diff"), cwd=d)
        assert rc == 0, "patch does not apply to current /repo HEAD:\n" + out
    return d


def cmd_import(wt, sid, prop):
    d = os.path.join(SEEDED, sid)
    os.makedirs(d, exist_ok=True)
    rc, diff = sh("git -C %s diff -- src" % wt)
    assert rc == 0 and diff.strip(), "no source diff in " + wt
    open(os.path.join(d, "patch.diff"), "w").write(diff)
    for f in ("demo_break.py", "SEED_NOTES.md"):
        if os.path.exists(os.path.join(wt, f)):
            shutil.copy(os.path.join(wt, f), os.path.join(d, f))
    base = sh("git -C %s rev-parse HEAD" % wt)[1].strip()
    m = {"seed_id": sid, "property": prop, "written_by": "independent sub-agent given only the property text and a scratch worktree",
         "base_commit": base, "files_changed": sh("git -C %s diff --stat -- src | tail -1" % wt)[1].strip(),
         "needs_to_manifest": "see SEED_NOTES.md", "confirmed": None, "checks": {}}
    if os.path.exists(meta_path(sid)):
        old = load_meta(sid)
        old.update({k: v for k, v in m.items() if k in ("base_commit", "files_changed")})
        m = old
    save_meta(sid, m)
    print("imported", sid, m["files_changed"])


def run_demo(d):
    env = dict(os.environ, PYTHONPATH="%s/src:%s" % (d, d), PYTHONDONTWRITEBYTECODE="1", PYTHONHASHSEED="0")
    return sh("timeout 600 /venv/bin/python demo_break.py", cwd=d, env=env)


def cmd_confirm(sid):
    m = load_meta(sid)
    demo = os.path.join(SEEDED, sid, "demo_break.py")
    res = {}
    d = scratch(sid, False)
    shutil.copy(demo, d)
    rc0, out0 = run_demo(d)
    res["demo_on_original"] = {"rc": rc0, "tail": out0[-400:]}
    d = scratch(sid, True)
    shutil.copy(demo, d)
    rc1, out1 = run_demo(d)
    res["demo_with_change"] = {"rc": rc1, "tail": out1[-400:]}
    rc, out = sh("bash %s/notes/spikes/runtests_dir.sh %s" % (VERIF, d))
    res["suite_with_change"] = out.strip()[-600:]
    ok = rc0 == 0 and rc1 != 0 and "baseline tests passing now 514" in out and "NO LONGER PASSING" not in out
    res["ok"] = ok
    m["confirmed"] = res
    m["confirmed_at_repo_head"] = sh("git -C /repo rev-parse --short HEAD")[1].strip()
    save_meta(sid, m)
    shutil.rmtree("/tmp/seedrun/%s" % sid, ignore_errors=True)
    print(json.dumps(res, indent=1))
    return 0 if ok else 1


def cmd_check(sid, tier, props):
    m = load_meta(sid)
    props = props or [m["property"]]
    d = scratch(sid, True)
    try:
        for p in props:
            t0 = time.time()
            env = dict(os.environ, VERIF_REPO=d)
            rc, out = sh("./check %s --tier %s" % (p, tier), cwd=VERIF, env=env, timeout=7200)
            lines = [l for l in out.split("\n") if l.startswith(("VIOLATION", "KNOWN-FINDING", "HARNESS-ERROR")) or l.startswith(p + " tier=")]
            detail = None
            for l in lines:
                if l.startswith("VIOLATION") and "replay=" in l:
                    rp = l.split("replay=")[1].split()[0]
                    try:
                        r = json.load(open(rp))
                        detail = {k: (r[k] if k != "case" else json.dumps(r[k])[:600]) for k in ("kind", "trigger", "what", "theorem_or_file", "case") if k in r}
                    except Exception as e:  # noqa
                        detail = {"replay_unreadable": str(e)}
                    break
            if p in m["checks"]:
                m.setdefault("history", []).append({"property": p, **{k: m["checks"][p].get(k) for k in ("caught", "tier", "verif_head", "repo_head", "wall_s", "lines")}})
            m["checks"][p] = {"tier": tier, "rc": rc, "caught": rc == 1 and any(l.startswith("VIOLATION") for l in lines),
                              "lines": lines[:8], "first_violation": detail, "wall_s": round(time.time() - t0),
                              "repo_head": sh("git -C /repo rev-parse --short HEAD")[1].strip(),
                              "verif_head": sh("git -C /verif rev-parse --short HEAD")[1].strip()}
            print(p, "rc=%d" % rc, "\n  ".join(lines[:8]))
            if rc not in (0, 1):
                print(out[-3000:])
        save_meta(sid, m)
    finally:
        shutil.rmtree("/tmp/seedrun/%s" % sid, ignore_errors=True)


if __name__ == "__main__":
    a = sys.argv[1:]
    if a[0] == "import":
        cmd_import(a[1], a[2], a[3])
    elif a[0] == "confirm":
        sys.exit(cmd_confirm(a[1]))
    elif a[0] == "check":
        tier, props = "quick", None
        if "--tier" in a:
            tier = a[a.index("--tier") + 1]
        if "--props" in a:
            props = a[a.index("--props") + 1].split(",")
        cmd_check(a[1], tier, props)
