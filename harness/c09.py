"""C09 - the template lexer partitions the source exactly, with right positions and lines.

Model: coq/Lexer/Model.v   Theorems: coq/Props/C09.v
Correspondence: (1) parse_template and stock DebugLexer on all short strings over the delimiter alphabets
(exhaustive) and on seeded structured sources, under tag_re with and without re.DOTALL;
(2) DebugLexer with a preset verbatim state (what parse_template's restart relies on);
(3) _detailed_tag_parser called directly; (4) the compile path: Template(source) goes through the patched
compile_nodelist, the line of an `Invalid block tag` error and template_debug['line'] are the token's line.
(5) monkeypatch_template_cls on hierarchies of Template subclasses (c09_util.py, Lexer/PatchModel.v).
Direct property oracle (independent of the model): partition / contents / lineno predicates on the tokens,
equality with stock when no block tag has a quote, and equality with a one-pass quote-aware reference lexer.
"""
import glob
import itertools
import json
import os
import re
import subprocess
import sys

import common as C

IMPORTS = "From Coq Require Import String.\nFrom DJC Require Import Lib.Base Lexer.Model Lexer.Codec."
QUOTES = "'\""
_state = {}


# ---------------------------------------------------------------------------------------------
# implementation side
# ---------------------------------------------------------------------------------------------
def _mods():
    from django.template import base
    from django_components.util import template_parser as tp
    return base, tp


def set_dotall(d):
    """tag_re is process-global; apps.ready() recompiles it with re.DOTALL when COMPONENTS.multiline_tags."""
    base, _ = _mods()
    if "pattern" not in _state:
        _state["pattern"] = base.tag_re.pattern
        _state["ambient_flags"] = base.tag_re.flags
    base.tag_re = re.compile(_state["pattern"], re.DOTALL if d else 0)


def tok_tuple(t):
    return (t.token_type.value, t.contents, t.position[0], t.position[1], t.lineno)


ERR_STR = re.compile(r"^Unexpected end of text - unterminated (.) string$", re.S)
ERR_TAG = "Unexpected end of text - unterminated {% tag"


def classify_exc(e):
    from django.template.exceptions import TemplateSyntaxError
    if isinstance(e, TemplateSyntaxError):
        msg = str(e)
        m = ERR_STR.match(msg)
        if m:
            return ("errstr", ord(m.group(1)))
        if msg == ERR_TAG:
            return ("errtag",)
    return ("exc", type(e).__name__, str(e)[:200])


def run_impl(s):
    """(observed parse_template outcome, stock DebugLexer tokens) under the current tag_re."""
    base, tp = _mods()
    try:
        obs = ("toks", [tok_tuple(t) for t in tp.parse_template(s)])
    except Exception as e:  # noqa
        obs = classify_exc(e)
    stock = [tok_tuple(t) for t in base.DebugLexer(s).tokenize()]
    return obs, stock


class _Captured(Exception):
    """raised from the wrapped Parser.__init__ once the token list is recorded: nothing is parsed, no tag is compiled"""


_engines = {}


def run_impl_compile(s, debug):
    """The token stream the patched Template compiles FROM: Template(s, engine=Engine(debug=debug)) with
    django.template.base.Parser.__init__ wrapped (from here, no source hook) to record the tokens it is handed.
    -> ('toks', [...]) | classified exception of Template(...) when no Parser was constructed."""
    base, _ = _mods()
    from django.template import Engine, Template
    if debug not in _engines:
        _engines[debug] = Engine(debug=debug)
    cap = []
    orig = base.Parser.__init__

    def init(self, tokens, *a, **k):
        cap.append([tok_tuple(t) for t in tokens])
        e = _Captured()
        e.token = base.Token(base.TokenType.TEXT, "", (0, 0), 1)   # the debug branch of compile_nodelist reads e.token
        raise e
    base.Parser.__init__ = init
    try:
        Template(s, engine=_engines[debug])
        out = ("exc", "NoParser", "Template() returned without constructing a Parser")
    except _Captured:
        out = ("toks", cap[0])
    except Exception as e:  # noqa
        out = ("toks", cap[0]) if cap else classify_exc(e)
    finally:
        base.Parser.__init__ = orig
    return out


class CompileRoute:
    """Sampling of the compile route inside eval_source: every `every`-th source of a family goes through
    Template(...) under both engine.debug settings; every `coq_every`-th of those is also sent to the model."""
    def __init__(self, every, coq_every=0):
        self.every, self.coq_every, self.n, self.terms = every, coq_every, 0, []

    def pick(self):
        self.n += 1
        return self.every and self.n % self.every == 0

    def pick_coq(self):
        return self.coq_every and (self.n // self.every) % self.coq_every == 0


def run_impl_lexv(s, verbatim):
    base, _ = _mods()
    lx = base.DebugLexer(s)
    lx.verbatim = verbatim if verbatim is not None else False
    return [tok_tuple(t) for t in lx.tokenize()]


def run_impl_det(text, lineno, start):
    _, tp = _mods()
    try:
        return ("toks", [tok_tuple(tp._detailed_tag_parser(text, lineno, start))])
    except Exception as e:  # noqa
        return classify_exc(e)


# ---------------------------------------------------------------------------------------------
# direct property oracle
# ---------------------------------------------------------------------------------------------
OPEN = {1: "{{", 2: "{%", 3: "{#"}
CLOSE = {1: "}}", 2: "%}", 3: "#}"}


def local_oracle(s, toks):
    """partition / contents / lineno predicates of the property on a token list; returns (trigger, what) or None."""
    pos = 0
    for (ty, contents, a, b, ln) in toks:
        if a != pos or not (a < b <= len(s)):
            return ("c09-partition", "token spans are not contiguous: token %r starts at %d, previous ended at %d" % (contents, a, pos))
        pos = b
        span = s[a:b]
        if ty == 0:
            if contents != span:
                return ("c09-contents", "TEXT token contents differ from its span %r" % span)
        else:
            if not (b - a >= 4 and span.startswith(OPEN[ty]) and span.endswith(CLOSE[ty]) and contents == span[2:-2].strip()):
                return ("c09-contents", "token contents %r are not the span %r without delimiters and surrounding whitespace" % (contents, span))
        if ln != 1 + s.count("\n", 0, a):
            return ("c09-lineno-offset", "token %r at %d has lineno %d, expected %d" % (contents, a, ln, 1 + s.count("\n", 0, a)))
    if pos != len(s):
        return ("c09-partition", "tokens cover [0,%d) of %d characters" % (pos, len(s)))
    return None


def spec_scan(s, i):
    """Quote-aware search for the closing %} from index i (just after `{%`).
    -> ('closed', end, lone) | ('errstr', q, lone) | ('errtag', lone); lone = a % outside strings that is
    followed by a character other than } or a quote was seen (the input class `c09-lone-percent`)."""
    n = len(s)
    lone = False
    while i < n:
        c = s[i]
        if c in QUOTES:
            j = i + 1
            while j < n and s[j] != c:
                j += 2 if s[j] == "\\" else 1
            if j >= n:
                return ("errstr", ord(c), lone)
            i = j + 1
        elif c == "%":
            if s[i + 1:i + 2] == "}":
                return ("closed", i + 2, lone)
            if i + 1 < n and s[i + 1] not in QUOTES:
                lone = True
            i += 1
        else:
            i += 1
    return ("errtag", lone)


def spec_parse(s):
    """What the property demands: stock Django's token stream, except that a block tag containing a quote
    character ends at the first %} outside its quoted strings.  One pass, current tag_re.
    -> (outcome, info) with info = {'lone': bool, 'quoted': n quoted tags, 'kept': n tags that kept a quoted %},
    'multiline': bool, 'qverbatim': bool}"""
    base, _ = _mods()
    tag_re = base.tag_re
    toks, pos, n, verbatim = [], 0, len(s), False
    info = {"lone": False, "quoted": 0, "kept": 0, "multiline": False, "qverbatim": False}

    def line(p):
        return 1 + s.count("\n", 0, p)
    while pos < n:
        m = tag_re.search(s, pos)
        start = m.start() if m else n
        if start > pos:
            toks.append((0, s[pos:start], pos, start, line(pos)))
        if m is None:
            break
        raw, end = m.group(0), m.end()
        content = raw[2:-2].strip()
        if raw[:2] == "{%":
            if verbatim and content != verbatim:
                toks.append((0, raw, start, end, line(start)))
            else:
                if "'" in content or '"' in content:
                    info["quoted"] += 1
                    r = spec_scan(s, start + 2)
                    info["lone"] = info["lone"] or r[-1]
                    if r[0] != "closed":
                        return r[:-1], info
                    if r[1] != end:
                        info["kept"] += 1
                    end = r[1]
                    content = s[start + 2:end - 2].strip()
                    if "\n" in s[start:end]:
                        info["multiline"] = True
                    if content[:9] in ("verbatim", "verbatim ") or verbatim:
                        info["qverbatim"] = True
                if verbatim:
                    verbatim = False
                elif content[:9] in ("verbatim", "verbatim "):
                    verbatim = "end%s" % content
                toks.append((2, content, start, end, line(start)))
        elif verbatim:
            toks.append((0, raw, start, end, line(start)))
        else:
            toks.append((1 if raw[:2] == "{{" else 3, content, start, end, line(start)))
        pos = end
    return ("toks", toks), info


def oracle(s, obs, stock):
    """-> (failure or None, info).  failure = (trigger, what)"""
    spec, info = spec_parse(s)
    if obs[0] == "exc":
        return ("c09-unexpected-exception", "parse_template raised %s: %s" % (obs[1], obs[2])), info
    if obs[0] == "toks":
        f = local_oracle(s, obs[1])
        if f:
            return f, info
    if not any(t[0] == 2 and ("'" in t[1] or '"' in t[1]) for t in stock):
        if obs != ("toks", stock):
            return ("c09-stock-eq", "no block tag contains a quote, yet the stream differs from stock Django's"), info
    if obs != spec:
        if info["lone"]:
            return ("c09-lone-percent", "a %% outside strings (not followed by } or a quote) in a quoted tag made the scan skip "
                    "the closing %%}: got %r, expected %r" % (_short(obs), _short(spec))), info
        if info["qverbatim"]:
            return ("c09-quoted-verbatim", "quoted verbatim tag: got %r, expected %r" % (_short(obs), _short(spec))), info
        return ("c09-differs-from-stock", "stream differs from stock by more than keeping a quoted %%}: got %r, expected %r"
                % (_short(obs), _short(spec))), info
    return None, info


def _short(o):
    r = repr(o)
    return r if len(r) < 400 else r[:400] + "..."


# ---------------------------------------------------------------------------------------------
# Coq terms
# ---------------------------------------------------------------------------------------------
def enc_num(n):
    return "%d," % n


def enc_str(s):
    out = []
    for ch in s:
        o = ord(ch)
        out.append(ch if (32 <= o < 127 and ch not in '\\"|') else "\\%d;" % o)
    return "".join(out) + "|"


def enc_toks(ts):
    return enc_num(len(ts)) + "".join(enc_num(t[0]) + enc_str(t[1]) + enc_num(t[2]) + enc_num(t[3]) + enc_num(t[4]) for t in ts)


def enc_obs(o):
    if o[0] == "toks":
        return "T" + enc_toks(o[1])
    if o[0] == "errstr":
        return "S" + enc_num(o[1])
    if o[0] == "errtag":
        return "G"
    return "X"   # unexpected exception: the decoder rejects it, never equal to a model outcome


def coq_string(e):
    return '"%s"%%string' % e


def lex_case_term(d, s, obs, stock):
    """one case as a Coq string literal, decoded by Lexer/Codec.v (see the format there)"""
    return coq_string(enc_num(1 if d else 0) + enc_str(s) + enc_obs(obs) + enc_toks(stock))


def lexv_case_term(d, v, s, toks):
    return coq_string(enc_num(1 if d else 0) + enc_num(0 if v is None else 1) + enc_str(v or "") + enc_str(s) + enc_toks(toks))


def det_case_term(text, ln, st, o):
    return coq_string(enc_str(text) + enc_num(ln) + enc_num(st) + enc_obs(o))


# ---------------------------------------------------------------------------------------------
# generators
# ---------------------------------------------------------------------------------------------
CORPUS = [
    # witnesses of the three defects fixed in /repo (2466753 lineno offset, 37d25d7 quoted verbatim, fbbed58 lone percent)
    ("fixed-lineno-second-quoted-tag", "a\n{% x 'q' %}\nb\n{% y 'r' %}\nc\n{% z %}\n{{ v }}"),
    ("fixed-lineno-multiline-quoted-tag", "{%\n x 'q'\n %}\n{% z %}"),
    ("fixed-quoted-verbatim", "{% verbatim 'x' %}{% if %}{% endverbatim 'x' %}"),
    ("fixed-quoted-verbatim-2", "{% verbatim \"x\" %}{{ a }}{# b #}{% c 'd' %}{% endverbatim \"x\" %}{% e 'f' %}\n{{ g }}"),
    # fixed by fbbed58: lone % (outside strings, not followed by } or a quote) in a quoted tag
    ("lone-percent-raise", "{% a \"c\" %b %}"),
    ("lone-percent-swallow", "{% a \"c\" %b %}x{% d \"e\" %}y"),
    ("lone-percent-double", "{% a \"c\" %%}"),
    ("lone-percent-harmless", "{% a %b \"c\" %}"),
    # shapes of tests/test_template_parser.py and of the docs
    ("doc", "\n{% component 'my_comp' key=val key2='val2 two' %}\n{% endcomponent %}\n\n{{ my_var }}\n\n{# I am comment #}\n"),
    ("nested-tag-in-string", "{% component 'x' desc=\"{% lorem 3 w %}\" / %}z"),
    ("escaped-quote", "{% a 'it\\'s %} here' %}\n{% b \"q\\\"%}\" %}{{ v }}"),
    ("unterminated-string", "x{% a 'b %}"),
    ("unterminated-tag", "x{% a 'b%}' "),
    ("unterminated-var", "Hello {{ name"),
    ("multiline", "{% component \"icon\"\n  icon='outline'\n  size=16\n%}{% endcomponent %}\n{{ x }}"),
    ("verbatim-plain", "{% verbatim %}{% a 'b' %}{{ c }}{% endverbatim %}{% d 'e' %}"),
    ("verbatim-named", "{% verbatim blk %}{% endverbatim %}{% a 'b' %}{% endverbatim blk %}{{ c }}"),
    ("verbatim-quoted-close-inside", "{% verbatim \"a%}b\" %}x{% endverbatim \"a%}b\" %}y"),
    ("backslash-newline", "{% a 'b\\\nc%}' %}\n{{ d }}"),
    ("nbsp-strip", "{% a 'b'　%}{{ x }}"),
    # carriage returns: CRLF line ends, lone CR (ordinary character, not a line end), also through Template(...) (seed C09d)
    ("crlf-text-tags", "a\r\n{% x %}\r\n{{ v }}\r\n{# c #}\r\nb"),
    ("crlf-quoted", "a\r\n{% x 'q' %}\r\nb\r\n{% y\r\n 'r%}'\r\n%}\r\n{{ v }}"),
    ("lone-cr", "a\r{% x 'q\r' %}\r{{ v }}\r\r\n{% y %}"),
]


def load_corpus_files():
    out = []
    for p in sorted(glob.glob(os.path.join(C.VERIF, "corpus", "C09", "*.json"))):
        try:
            j = json.load(open(p))
            out.append((os.path.basename(p)[:-5], j["source"]))
        except Exception as e:  # noqa
            raise C.HarnessError("bad corpus file %s: %s" % (p, e))
    return out


A1 = "{%}\"'\\\na "      # the 9-symbol alphabet of DESIGN section 6
A2 = "{}#%\nv\""         # comments / variables / a quote
A3 = "{%}\"\r\na"        # carriage returns: CRLF and lone CR (an ordinary character for spans; only \n counts as a line)


def gen_exhaustive(alphabet, maxlen):
    for L in range(0, maxlen + 1):
        for tup in itertools.product(alphabet, repeat=L):
            yield "".join(tup)


def rnd_ws(rng):
    # mostly ASCII blanks; now and then one of the other code points str.strip() removes (form feed, FS, NBSP, EM SPACE, ...)
    return rng.choice(["", " ", " ", " ", "  ", "\n", " \n ", "\t", "\u00a0 ", " ", " ", "\x0c", "\x1c ", " \u2003", "\u3000", "\x85", "\r\n", " \r\n ", "\r"])


def rnd_word(rng):
    return rng.choice(["a", "b", "if", "x=1", "component", "key=val", "%", "%x", "5%", "}", "{", "}}", "{{", "#", "\\", "é", "verbatim", "endverbatim"])


def rnd_string(rng):
    q = rng.choice(QUOTES)
    parts = []
    for _ in range(rng.randint(0, 4)):
        parts.append(rng.choice(["a", " ", "%}", "}}", "{%", "{{ x }}", "\n", "\r\n", "\r", "\\" + q, "\\\\", "\\", "\\\n", "%", "#}",
                                 "'" if q == '"' else '"', "b c", "{% lorem 3 w %}"]))
    return q + "".join(parts) + q


def rnd_tag(rng, multiline_bias=0.2):
    """a block tag with 0..n quoted strings"""
    parts = [rnd_ws(rng), rng.choice(["a", "component", "if", "x", "fill", "verbatim", "endverbatim", "verbatim v", "endverbatim v",
                                        "a", "component", "verbatimx", "verbatim\tv", "verbatim\n", "endverbatimx"])]
    for _ in range(rng.choice([0, 0, 1, 1, 1, 2, 2, 3, 4])):
        parts.append(rng.choice([" ", " ", "  ", "\n", "\n  ", "\r\n  "]) if rng.random() < multiline_bias + 0.5 else " ")
        r = rng.random()
        if r < 0.55:
            parts.append(rng.choice(["", "k=", "k:attr="]) + rnd_string(rng))
        else:
            parts.append(rnd_word(rng))
    parts.append(rnd_ws(rng))
    return "{%" + "".join(parts) + "%}"


def rnd_piece(rng):
    r = rng.random()
    if r < 0.22:
        return rng.choice(["text", "a\nb", "\n", " ", "x y\n\nz", "<p>", "{", "}", "%}", "{ %", "'", '"', "it's", "\\",
                           "a\r\nb", "\r\n", "\r", "x\r\n\r\ny"])
    if r < 0.32:
        return "{{" + rnd_ws(rng) + rng.choice(["v", "a.b", "x|f:'y'", "\"}}\"", "n\nl"]) + rnd_ws(rng) + "}}"
    if r < 0.40:
        return "{#" + rnd_ws(rng) + rng.choice(["c", "note 'q'", "a\nb", "{% t %}"]) + rnd_ws(rng) + "#}"
    if r < 0.80:
        return rnd_tag(rng)
    if r < 0.88:   # verbatim block, possibly named / quoted name
        name = rng.choice(["", "", " v", " 'q'", " \"a%}b\"", " 'x y'"])
        inner = "".join(rnd_piece(rng) for _ in range(rng.randint(0, 3)))
        close = rng.choice([name, name, name, "", " w"])
        return "{% verbatim" + name + " %}" + inner + "{% endverbatim" + close + " %}"
    if r < 0.96:   # unterminated constructs
        return rng.choice(["{% a 'b", "{% a \"b %}", "{{ x", "{# c", "{% a", "{% a 'b' %", "{% a 'b\\' %}", "{%", "{% 'a'%"])
    return rng.choice(["{%%}", "{{}}", "{##}", "{%'%}'%}", "{% ' %}{% ' %}", "{%\"\"%}"])


def gen_structured(rng, n):
    for _ in range(n):
        k = rng.choice([1, 2, 2, 3, 3, 4, 5, 6, 8])
        yield "".join(rnd_piece(rng) for _ in range(k))


def gen_random_strings(rng, n, alphabet, lo, hi):
    for _ in range(n):
        yield "".join(rng.choice(alphabet) for _ in range(rng.randint(lo, hi)))


# ---------------------------------------------------------------------------------------------
# the compile path (django_monkeypatch.py): Template(source) lexes through parse_template
# ---------------------------------------------------------------------------------------------
VALID_PIECES = [
    "text", "a\nb\n", "\n", "{{ v }}", "{# c #}", "{% now 'Y' %}", "{% firstof 'a%}b' %}", "{% firstof \"x\" 'y' %}",
    "{% with a='1' %}{{ a }}{% endwith %}", "{% if v == 'q' %}y{% endif %}", "{% firstof\n 'a'\n 'b' %}",
    "{%\nfirstof 'l1\nl2' %}", "{% verbatim %}{% nosuch 'x' %}{% endverbatim %}", "{% verbatim 'n' %}{% bad %}\n{% endverbatim 'n' %}",
    "{% firstof v %}", "{% comment %}{% bad 'q' %}\n{% endcomment %}",
    "a\r\nb\r\n", "{% firstof\r\n 'a%}'\r\n %}", "x\r",
]


def compile_check(chk, n):
    """Template(src + `{% c09_no_such_tag %}`) under a debug engine: the error message carries token.lineno and
    template_debug carries the line derived from token.position - both must be the line of the bad tag."""
    from django.template import Engine, Template
    from django.template.exceptions import TemplateSyntaxError
    eng = Engine(debug=True)
    rng = chk.rng
    if not getattr(Template, "_djc_patched", False):
        chk.fail("c09-not-patched", "django.template.Template is not patched by django_components.apps.ready()", {"kind": "compile"})
        return
    for i in range(n):
        pieces = [rng.choice(VALID_PIECES) for _ in range(rng.randint(1, 7))]
        bad = rng.choice(["{% c09_no_such_tag %}", "{% c09_no_such_tag 'q' %}", "{% c09_no_such_tag \"a%}\" 'b'\n%}"])
        src = "".join(pieces) + bad + rng.choice(["", "\ntail", "{{ t }}"])
        pos = len("".join(pieces))
        want = 1 + src.count("\n", 0, pos)
        nq = sum(1 for p in pieces if "'" in p or '"' in p)
        got_msg = got_dbg = None
        try:
            Template(src, engine=eng)
            what = "compiled although it contains an unknown tag"
        except TemplateSyntaxError as e:
            m = re.search(r"Invalid block tag on line (\d+): 'c09_no_such_tag'", str(e))
            got_msg = int(m.group(1)) if m else None
            dbg = getattr(e, "template_debug", None) or {}
            got_dbg = dbg.get("line")
            what = "error line: message says %r, template_debug says %r, the tag is on line %d" % (got_msg, got_dbg, want)
        except Exception as e:  # noqa
            what = "raised %s: %s" % (type(e).__name__, str(e)[:200])
        chk.count(("compile", src), nq >= 2 or any("\n" in p and ("'" in p) for p in pieces), kind="compile-error-line")
        # Django's get_exception_info reports line 0 for a token that spans several lines: compare template_debug only for one-line tags
        if got_msg != want or (got_dbg != want and "\n" not in bad):
            # no `Invalid block tag on line N` message at all: the source did not reach the parser as the expected token stream
            chk.fail("c09-lineno-offset" if got_msg is not None else "c09-compile-path", "compile path: " + what,
                     {"kind": "compile", "source": src, "expected_line": want, "message_line": got_msg, "template_debug_line": got_dbg})
    # the patched compile keeps a quoted %} : renders it
    try:
        out = Template("{% firstof 'a%}b' %}", engine=eng).render(__import__("django").template.Context({}))
    except Exception as e:  # noqa
        out = "%s: %s" % (type(e).__name__, e)
    chk.count(("compile", "firstof"), False, kind="compile-render")
    if out != "a%}b":
        chk.fail("c09-not-patched", "Template(\"{% firstof 'a%}b' %}\").render() gave " + repr(out), {"kind": "compile", "source": "{% firstof 'a%}b' %}"})


def ready_check(chk):
    """apps.py: tag_re carries re.DOTALL exactly when COMPONENTS.multiline_tags (this process: default True;
    a subprocess with multiline_tags=False observes ready() leaving the stock pattern alone)."""
    from django_components.app_settings import app_settings
    amb = bool(_state["ambient_flags"] & re.DOTALL)
    chk.count(("ready", "ambient"), False, kind="ready")
    if amb != bool(app_settings.MULTILINE_TAGS):
        chk.fail("c09-multiline-flag", "after apps.ready(): tag_re DOTALL=%r but COMPONENTS.multiline_tags=%r" % (amb, app_settings.MULTILINE_TAGS),
                 {"kind": "ready", "multiline_tags": bool(app_settings.MULTILINE_TAGS)})
    code = ("import djsetup,re,json; djsetup.setup(components={'multiline_tags': False});"
            "from django.template import base; from django_components.util.template_parser import parse_template;"
            "s='{% a\\n \"b\" %}{% c \"d\" %}';"
            "print(json.dumps([bool(base.tag_re.flags & re.DOTALL), base.tag_re.pattern,"
            " [(t.token_type.value,t.contents,t.position[0],t.position[1],t.lineno) for t in parse_template(s)]]))")
    rc, out = C.sh([sys.executable, "-c", code], timeout=120)
    chk.count(("ready", "subprocess"), False, kind="ready")
    try:
        flag, pat, toks = json.loads(out.strip().split("\n")[-1])
    except Exception:  # noqa
        raise C.HarnessError("ready_check subprocess failed (rc=%s):\n%s" % (rc, out[-2000:]))
    want = [[0, '{% a\n "b" %}', 0, 12, 1], [2, 'c "d"', 12, 23, 2]]
    if flag or pat != _state["pattern"] or toks != want:
        chk.fail("c09-multiline-flag", "multiline_tags=False: tag_re DOTALL=%r pattern=%r tokens=%r" % (flag, pat, toks),
                 {"kind": "ready", "multiline_tags": False})


# ---------------------------------------------------------------------------------------------
# hashed comparison (mirrors Lexer/Codec.v: hmix, hash_list, flat_pres, flat_toks, lex_hash)
# ---------------------------------------------------------------------------------------------
HMASK = (1 << 40) - 1


def hash_list(xs, h=7):
    for x in xs:
        h = ((h << 5) + h + x + 1) & HMASK
    return h


def flat_toks(ts):
    out = [len(ts)]
    for (ty, c, a, b, ln) in ts:
        out.append(ty)
        out.append(len(c))
        out.extend(map(ord, c))
        out.append(a)
        out.append(b)
        out.append(ln)
    return out


def flat_obs(o):
    if o[0] == "toks":
        return [1] + flat_toks(o[1])
    if o[0] == "errstr":
        return [2, o[1]]
    if o[0] == "errtag":
        return [3]
    return [99]   # unexpected exception: equal to no model outcome


def lex_hash1(obs, stock):
    return hash_list(flat_obs(obs) + flat_toks(stock))


def eval_source(chk, s, kind, note=None, sample_ok=False, cr=None):
    """Run the implementation on s (both tag_re flags when s has a newline), apply the direct oracle, count,
    and return the hash the Coq model must reproduce (Codec.lex_hash).
    cr (CompileRoute): when it picks s, the stream handed to Parser by Template(s) (engine.debug on and off) gets the
    same oracles against Template.source, must equal parse_template(s), and (sampled) is sent to the model as well."""
    hs = []
    compile_it = cr is not None and cr.pick()
    chs = {True: [], False: []}
    for d in ((True, False) if "\n" in s else (True,)):
        set_dotall(d)
        obs, stock = run_impl(s)
        trivial = obs[0] == "toks" and obs[1] == stock and len(stock) <= 1 and (not stock or stock[0][0] == 0)
        if trivial:
            # a single TEXT token (or the empty source): nothing of the mechanism is exercised
            f, info, nontriv = local_oracle(s, stock), None, False
            if stock and stock[0][1] != s:
                f = f or ("c09-contents", "text-only source mis-lexed")
        else:
            f, info = oracle(s, obs, stock)
            nontriv = info["quoted"] >= 2 or info["multiline"]
            if note:
                note(obs, info)
        chk.count((d, s), nontriv, kind=kind,
                  sample={"dotall": d, "source": s, "parse_template": obs if obs[0] != "toks" else [list(t) for t in obs[1]]}
                  if (sample_ok and nontriv and len(s) < 120) else None)
        if f:
            chk.fail(f[0], f[1], {"kind": "lex", "dotall": d, "source": s, "parse_template": obs, "stock": stock})
        hs.append(lex_hash1(obs, stock))
        if compile_it:
            for debug in (True, False):
                cobs = run_impl_compile(s, debug)
                chk.count(("compile-route", debug, d, s), nontriv, kind=kind.split("-len")[0] + "-compile-route")
                if cobs[0] == "toks":
                    cf = local_oracle(s, cobs[1])
                    if cf is None and (trivial and cobs[1] != stock):
                        cf = ("c09-stock-eq", "text-only source: stream differs from stock Django's")
                else:
                    cf = None
                if cf is None and not trivial:
                    cf, _ = oracle(s, cobs, stock)
                if cf is None and cobs != obs:
                    cf = ("c09-compile-path", "differs from parse_template(Template.source): %s vs %s" % (_short(cobs), _short(obs)))
                if cf:
                    chk.fail("c09-compile-path", "token stream handed to Parser by Template(source) (engine.debug=%r): [%s] %s" % (debug, cf[0], cf[1]),
                             {"kind": "compile-route", "dotall": d, "debug": debug, "source": s, "stream": cobs, "parse_template": obs, "stock": stock})
                chs[debug].append(lex_hash1(cobs, stock))
    if compile_it and cr.pick_coq():
        for debug in (True, False):
            c = chs[debug]
            cr.terms.append((s, c[0] if len(c) == 1 else hash_list([c[1]], c[0]), debug))
    return hs[0] if len(hs) == 1 else hash_list([hs[1]], hs[0])


def parse_list_N(out):
    m = re.search(r"=\s*(\[.*?\])\s*(?:%N)?\s*:\s*list N", out, flags=re.S)
    if not m:
        raise C.HarnessError("cannot parse coqc output:\n" + out[-2000:])
    return [int(x) for x in re.findall(r"\d+", m.group(1).replace("%N", ""))]


def coq_block_hashes(jobs):
    """jobs: list of (alphabet, L, k, offset, count): the model's hash for each of `count` prefixes (of length L-k, in
    itertools.product order from `offset`) over all suffixes of length k.  Evaluated by vm_compute inside Coq, in parallel."""
    import concurrent.futures
    d = os.path.join(C.WORK, "C09")
    os.makedirs(d, exist_ok=True)
    paths = []
    for i, (alphabet, L, k, off, cnt) in enumerate(jobs):
        path = os.path.join(d, "exh_p%d_%d.v" % (os.getpid(), i))   # pid-tagged: two concurrent C09 runs must not overwrite each other
        with open(path, "w") as f:
            f.write(IMPORTS + "\n")
            f.write("Definition A : list N := [%s]%%N.\n" % "; ".join(str(ord(c)) for c in alphabet))
            f.write("Eval vm_compute in (block_hashes A (firstn %d (skipn %d (all_strings A %d))) %d).\n" % (cnt, off, L - k, k))
        paths.append(path)
    res = [None] * len(jobs)
    with concurrent.futures.ThreadPoolExecutor(max_workers=C.NCPU) as ex:
        futs = {ex.submit(C._coqc_file, p, 1500): i for i, p in enumerate(paths)}
        for fu in concurrent.futures.as_completed(futs):
            i = futs[fu]
            rc, out = fu.result()
            if rc != 0:
                raise C.HarnessError("coqc failed on %s (rc=%d):\n%s" % (paths[i], rc, out[-3000:]))
            res[i] = parse_list_N(out)
    for p in paths:
        base = p[:-2]
        for ext in (".v", ".vo", ".vok", ".vos", ".glob"):
            try:
                os.remove(base + ext)
            except FileNotFoundError:
                pass
        try:
            os.remove(os.path.join(d, "." + os.path.basename(base) + ".aux"))
        except FileNotFoundError:
            pass
    return res


def exhaustive_family(chk, alphabet, maxlen, tagname, note, cr=None):
    """Every string over `alphabet` up to maxlen: implementation + direct oracle in Python, model inside Coq;
    compared through one hash per block of len(alphabet)^k strings; differing blocks are re-run case by case."""
    jobs, impl_hashes, blocks = [], [], []
    na = len(alphabet)
    for L in range(0, maxlen + 1):
        k = min(2, L)
        nprefix = na ** (L - k)
        per_job = max(1, 40000 // (na ** k))
        sufs = ["".join(t) for t in itertools.product(alphabet, repeat=k)]
        allp = itertools.product(alphabet, repeat=L - k)
        for off in range(0, nprefix, per_job):
            cnt = min(per_job, nprefix - off)
            jobs.append((alphabet, L, k, off, cnt))
            hs = []
            for _ in range(cnt):
                pre = "".join(next(allp))
                hs.append(hash_list([eval_source(chk, pre + suf, "%s-len%d" % (tagname, L), note, cr=cr) for suf in sufs]))
                blocks.append((pre, sufs))
            impl_hashes.append(hs)
    model_hashes = coq_block_hashes(jobs)
    bi = 0
    suspects = []
    for hs, ms in zip(impl_hashes, model_hashes):
        if len(ms) != len(hs):
            raise C.HarnessError("block hash count mismatch")
        for a, b in zip(hs, ms):
            if a != b:
                pre, sufs = blocks[bi]
                suspects.extend(pre + suf for suf in sufs)
            bi += 1
    return suspects


def pinpoint(chk, sources, what):
    """Re-run sources whose hash differed with full outcomes (Codec.dec_lex) and record the diverging ones."""
    terms, cases = [], []
    for s in sources[:3000]:
        for d in ((True, False) if "\n" in s else (True,)):
            set_dotall(d)
            obs, stock = run_impl(s)
            terms.append(lex_case_term(d, s, obs, stock))
            cases.append((d, s, obs, stock))
    if not terms:
        return
    bad = C.coq_eval_cases("C09", "pin", IMPORTS, "string", "dec_lex", terms, shard=300)
    if not bad:
        chk.disagree(what + " (hash differed, full comparison agreed - harness hashing bug?)", {"kind": "lex", "source": sources[0]})
    bad.sort(key=lambda i: len(cases[i][1]))
    for i in bad[:20]:
        d, s, obs, stock = cases[i]
        chk.disagree(what, {"kind": "lex", "dotall": d, "source": s, "parse_template": obs, "stock": stock})


# ---------------------------------------------------------------------------------------------
# the manual patching entry point: monkeypatch_template_cls on hierarchies of Template classes (Lexer/PatchModel.v)
# ---------------------------------------------------------------------------------------------
IMPORTS_PATCH = "From DJC Require Import Lib.Base Lexer.Model Lexer.PatchModel."
PATCH_PROBES = ['x{% firstof "a %} b" %}y', "<p>\n{% a 'q%}' k=\"r\" %}\n{% b \"it's %}\" %}{{ v }}"]


def gen_histories_exhaustive(maxlen):
    """all event lists of length <= maxlen over the classes that exist at each point (class 0 = Template)"""
    def rec(prefix, n, left):
        yield list(prefix)
        if not left:
            return
        for p in range(n):
            for own in (1, 0):
                yield from rec(prefix + [["new", p, own]], n + 1, left - 1)
        for c in range(n):
            yield from rec(prefix + [["patch", c]], n, left - 1)
    return sorted(rec([], 1, maxlen), key=len)     # shortest first: the first failing history is a minimal one


def gen_history_random(rng, lo, hi, allow_patch0=True):
    h, n = [], 1
    for _ in range(rng.randint(lo, hi)):
        if n == 1 or rng.random() < 0.55:
            h.append(["new", rng.randrange(n), 1 if rng.random() < 0.6 else 0])
            n += 1
        else:
            c = rng.randrange(n)
            if c == 0 and not allow_patch0:
                c = n - 1
            h.append(["patch", c])
    return h


def _norm_stream(o):
    return (o[0], [tuple(x) for x in o[1]]) if o[0] == "toks" else tuple(o)


def _strip_pos(toks):
    return [(ty, c, ln) for (ty, c, a, b, ln) in toks]


def judge_world(chk, history, model_events, obs, probes, refs, where):
    """obs: per class {'flag', 'streams': [probe][debug on, off]} (c09_util.observe).  Direct oracle for every class that
    was handed to monkeypatch_template_cls (class 0: by django.setup()); returns the observed (route, flag) per class."""
    patched_ids = {e[1] for e in model_events if e[0] == "patch"}
    observed = []
    for ci, o in enumerate(obs):
        routes = set()
        for pi, s in enumerate(probes):
            pt, stock = refs[pi]
            for di, debug in enumerate((True, False)):
                st = _norm_stream(o["streams"][pi][di])
                if st == pt:
                    r = 1
                elif st[0] == "toks" and (st[1] == stock if debug else _strip_pos(st[1]) == _strip_pos(stock)):
                    r = 0
                else:
                    r = None
                routes.add(r)
                if ci in patched_ids:
                    f = None
                    if st[0] != "toks":
                        f = ("c09-unexpected-exception", "raised %s" % (st,))
                    else:
                        f = local_oracle(s, st[1])
                        if f is None:
                            f, _ = oracle(s, st, stock)
                    if f is None and st != pt:
                        f = ("c09-compile-path", "differs from parse_template(source)")
                    if f:
                        chk.fail("c09-patched-class-route",
                                 "%s: class %d was handed to monkeypatch_template_cls, yet the token stream it compiles from (engine.debug=%r) "
                                 "fails [%s] %s; got %s, parse_template gives %s" % (where, ci, debug, f[0], f[1], _short(st), _short(pt)),
                                 {"kind": "patch-history", "history": history, "class": ci, "source": s, "debug": debug, "where": where})
        if ci in patched_ids and not o["flag"]:
            chk.fail("c09-patched-class-route", "%s: is_template_cls_patched is False for class %d after monkeypatch_template_cls" % (where, ci),
                     {"kind": "patch-history", "history": history, "class": ci, "where": where})
        route = routes.pop() if len(routes) == 1 else None
        if route is None:
            chk.disagree("%s: class %d compiles neither from parse_template's stream nor from stock Django's on every probe" % (where, ci),
                         {"kind": "patch-history", "history": history, "class": ci, "where": where})
            route = 9
        observed.append((route, o["flag"]))
    return observed


def patch_term(model_events, observed):
    evs = "; ".join("ENew %d %s" % (e[1], "true" if e[2] else "false") if e[0] == "new" else "EPatch %d" % e[1] for e in model_events)
    return "([%s], [%s])" % (evs, "; ".join("(%d%%N, %s)" % (r, "true" if f else "false") for r, f in observed))


def patch_nontrivial(model_events):
    """the mechanism: a class with its own compile_nodelist is patched while an ancestor already carries the flag"""
    parent, own, flagged = {0: None}, {0: True}, set()
    hit = False
    for e in model_events:
        if e[0] == "new":
            parent[len(parent)] = e[1]
            own[len(own)] = bool(e[2])
        else:
            c, a = e[1], parent[e[1]]
            while a is not None and a not in flagged:
                a = parent[a]
            hit = hit or (own[c] and a is not None)
            flagged.add(c)
    return hit


def patch_check(chk, thorough):
    """Histories of class creation / monkeypatch_template_cls: in this process (django already set up) exhaustively and at
    random, and in fresh interpreters with django.setup() in the middle of the history / never."""
    import c09_util as U
    from django.template import Template
    rng = chk.rng
    set_dotall(bool(_state["ambient_flags"] & re.DOTALL))
    # probes: sources on which parse_template and stock differ (a quoted %} is kept), so the lexer in use is identifiable
    pool = list(PATCH_PROBES)
    for s in gen_structured(rng, 400):
        if len(pool) >= 14:
            break
        obs, stock = run_impl(s)
        if obs[0] == "toks" and obs[1] != stock and len(s) < 160:
            pool.append(s)
    refs_all = {}
    for s in pool:
        obs, stock = run_impl(s)
        if obs[0] != "toks" or obs[1] == stock:
            raise C.HarnessError("patch_check probe does not separate the two lexers: %r" % s)
        refs_all[s] = (obs, stock)
    terms, cases = [], []

    def one(history, idx):
        probes = PATCH_PROBES[:1] + [pool[1 + idx % (len(pool) - 1)]]
        classes = [Template]
        U.apply_events(history, classes)
        obs = U.observe(classes, probes)
        model_events = [["patch", 0]] + history          # this process: django.setup() has run
        observed = judge_world(chk, history, model_events, obs, probes, [refs_all[s] for s in probes], "in-process (after django.setup())")
        chk.count(("patch-history", tuple(map(tuple, history))), patch_nontrivial(model_events), kind="patch-history")
        terms.append(patch_term(model_events, observed))
        cases.append((history, "in-process"))
    idx = 0
    for h in gen_histories_exhaustive(5 if thorough else 4):
        one(h, idx)
        idx += 1
    for _ in range(1500 if thorough else 300):
        one(gen_history_random(rng, 5, 9), idx)
        idx += 1
    # fresh interpreters: (a) django.setup() somewhere inside every history, (b) never
    jobs = []
    with_setup, without = [], []
    for h in itertools.islice(gen_histories_exhaustive(3), 0, None):
        if not any(e == ["patch", 0] for e in h):
            without.append(h)
            for k in range(len(h) + 1):
                with_setup.append(h[:k] + [["setup"]] + h[k:])
    for _ in range(200 if thorough else 40):
        h = gen_history_random(rng, 3, 7, allow_patch0=False)
        k = rng.randint(0, len(h))
        with_setup.append(h[:k] + [["setup"]] + h[k:])
        without.append(gen_history_random(rng, 3, 7, allow_patch0=False))
    sub_probes = PATCH_PROBES
    for name, hs in (("django.setup() inside the history", with_setup), ("django.setup() never called", without)):
        rc, out = C.sh([sys.executable, os.path.join(C.VERIF, "harness", "c09_util.py"), json.dumps({"histories": hs, "probes": sub_probes})],
                       timeout=600)
        try:
            res = json.loads(out.strip().split("\n")[-1])
        except Exception:  # noqa
            raise C.HarnessError("patch_check subprocess failed (rc=%s):\n%s" % (rc, out[-2000:]))
        refs = []
        for r in res["reference"]:
            pt, stock = _norm_stream(r["parse_template"]), [tuple(x) for x in r["stock"]]
            if pt[0] != "toks" or pt[1] == stock:
                raise C.HarnessError("patch_check probe does not separate the two lexers in the subprocess")
            refs.append((pt, stock))
        for h, obs in zip(hs, res["worlds"]):
            model_events = [["patch", 0] if e[0] == "setup" else e for e in h]
            observed = judge_world(chk, h, model_events, obs, sub_probes, refs, "fresh interpreter, " + name)
            chk.count(("patch-history-sub", tuple(map(tuple, h))), patch_nontrivial(model_events), kind="patch-history-subprocess")
            terms.append(patch_term(model_events, observed))
            cases.append((h, "fresh interpreter, " + name))
    bad = C.coq_eval_cases("C09", "patch", IMPORTS_PATCH, "list event * list (N * bool)", "check_patch", terms, shard=1000)
    for i in bad[:20]:
        h, where = cases[i]
        chk.disagree("PatchModel (compile route / is_template_cls_patched per class) != implementation, " + where,
                     {"kind": "patch-history", "history": h, "where": where})


def build_codec():
    """Lexer/Codec.v (transport decoding / hashing of the cases) is not in the closure of Props/C09.v: build it after the proofs,
    so that an edit of Lexer/Model.v cannot leave a stale Codec.vo behind."""
    with C._Lock(os.path.join(C.WORK, "coq.lock")):
        rc, out = C.sh("timeout 900 make -j%d Lexer/Codec.vo" % C.NCPU, cwd=C.COQ)
    if rc != 0:
        raise C.HarnessError("cannot build coq/Lexer/Codec.vo:\n" + out[-3000:])


def run(tier, seed):
    import djsetup
    djsetup.setup()
    import gen_constants
    gen_constants.generate(["C09"])
    chk = C.Check("C09", tier, seed)
    chk.prove()
    build_codec()
    thorough = tier == "thorough"
    rng = chk.rng
    set_dotall(True)
    hist = {"kept_quoted_close": 0, "errors": 0, "quoted_tags>=2": 0, "multiline_quoted": 0, "quoted_verbatim": 0, "lone_percent": 0}

    def note(obs, info):
        hist["kept_quoted_close"] += info["kept"] > 0
        hist["errors"] += obs[0] != "toks"
        hist["quoted_tags>=2"] += info["quoted"] >= 2
        hist["multiline_quoted"] += info["multiline"]
        hist["quoted_verbatim"] += info["qverbatim"]
        hist["lone_percent"] += info["lone"]
    try:
        # ---- 0. corpus first, then structured / random sources: literal source + hashed outcome ----
        srcs = []
        if not getattr(__import__("django").template.Template, "_djc_patched", False):
            chk.fail("c09-not-patched", "django.template.Template is not patched by django_components.apps.ready()", {"kind": "compile"})
        cr_all, cr_struct = CompileRoute(1, 1), CompileRoute(1, 4)
        for name, s in CORPUS + load_corpus_files():
            srcs.append((s, eval_source(chk, s, "corpus", note, cr=cr_all)))
        nstruct = 40000 if thorough else 7000
        for s in gen_structured(rng, nstruct):
            srcs.append((s, eval_source(chk, s, "structured", note, sample_ok=True, cr=cr_struct)))
        for s in gen_random_strings(rng, 20000 if thorough else 3000, A1 + "{%}\"'", 8, 24):
            srcs.append((s, eval_source(chk, s, "random-A1", note, cr=cr_struct)))
        for s in gen_random_strings(rng, 6000 if thorough else 1000, A3 + "{%}\r\n'", 6, 20):
            srcs.append((s, eval_source(chk, s, "random-A3", note, cr=cr_struct)))
        terms = ["(%s, %d%%N)" % (coq_string(enc_str(s)), h) for s, h in srcs]
        bad = C.coq_eval_cases("C09", "lexh", IMPORTS, "string * N", "dec_lex_hash", terms, shard=1000)
        pinpoint(chk, [srcs[i][0] for i in bad], "Lexer model != parse_template / DebugLexer")
        # the same comparison for the stream Template(source) hands to the Parser
        cterms = cr_all.terms + cr_struct.terms
        bad = C.coq_eval_cases("C09", "lexc", IMPORTS, "string * N", "dec_lex_hash",
                               ["(%s, %d%%N)" % (coq_string(enc_str(s)), h) for s, h, _ in cterms], shard=1000)
        for i in bad[:20]:
            s, _, debug = cterms[i]
            chk.disagree("Lexer model != token stream handed to Parser by Template(source) (engine.debug=%r)" % debug,
                         {"kind": "compile-route", "debug": debug, "source": s})
        # ---- 1. exhaustive short strings (enumerated on both sides) ----
        l1, l2, l3 = (7, 7, 6) if thorough else (6, 6, 5)
        suspects = []
        for alphabet, maxlen, tagname, cr in ((A1, l1, "exhA1", CompileRoute(16)), (A2, l2, "exhA2", CompileRoute(16)),
                                              (A3, l3, "exhA3", CompileRoute(1))):
            suspects += exhaustive_family(chk, alphabet, maxlen, tagname, note, cr)
        if suspects:
            suspects.sort(key=len)
            pinpoint(chk, suspects, "Lexer model != parse_template / DebugLexer (exhaustive family)")
        # ---- 2. DebugLexer with preset verbatim ----
        terms, cases = [], []
        for s in gen_structured(rng, 6000 if thorough else 1200):
            d = rng.random() < 0.5
            set_dotall(d)
            v = rng.choice([None, "endverbatim", "endverbatim v", "endverbatim 'q'", "endverbatim \"a%}b\"", "endverbatim 'x y'", "x"])
            toks = run_impl_lexv(s, v)
            chk.count(("lexv", d, v, s), v is not None and any(t[0] == 2 for t in toks), kind="lexer-preset-verbatim")
            f = local_oracle(s, toks)
            if f:
                chk.fail("c09-stock-lexer", "DebugLexer output is not a partition: " + f[1], {"kind": "lexv", "dotall": d, "verbatim": v, "source": s})
            terms.append(lexv_case_term(d, v, s, toks))
            cases.append((d, v, s, toks))
        bad = C.coq_eval_cases("C09", "lexv", IMPORTS, "string", "dec_lexv", terms, shard=300)
        for i in bad[:20]:
            d, v, s, toks = cases[i]
            chk.disagree("django_lex_v model != DebugLexer with preset verbatim", {"kind": "lexv", "dotall": d, "verbatim": v, "source": s, "tokens": toks})
        # ---- 3. _detailed_tag_parser directly ----
        terms, cases = [], []
        dets = ["{%" + s for s in gen_exhaustive("%}\"'\\\na", 5 if thorough else 4)]
        dets += ["{%" + s for s in gen_random_strings(rng, 8000 if thorough else 1500, "%}\"'\\\na %}\"'", 5, 20)]
        dets += [rnd_tag(rng) + rng.choice(["", "x", "%}", "'", "{% b 'c' %}"]) for _ in range(6000 if thorough else 1000)]
        for text in dets:
            ln, st = rng.randint(1, 9), rng.randint(0, 50)
            o = run_impl_det(text, ln, st)
            r = spec_scan(text, 2)
            chk.count(("det", text, ln, st), r[0] == "closed" and text[:r[1]].count("%}") > 1, kind="detailed-parser")
            if o[0] == "exc":
                chk.fail("c09-unexpected-exception", "_detailed_tag_parser raised %s: %s" % (o[1], o[2]), {"kind": "det", "text": text})
            else:
                want = ("toks", [(2, text[2:r[1] - 2].strip(), st, st + r[1], ln)]) if r[0] == "closed" else r[:-1]
                if o != want:
                    chk.fail("c09-lone-percent" if r[-1] else "c09-detailed-parser",
                             "_detailed_tag_parser(%r): got %r, the first %%} outside strings gives %r" % (text, _short(o), _short(want)),
                             {"kind": "det", "text": text, "lineno": ln, "start": st})
            terms.append(det_case_term(text, ln, st, o))
            cases.append((text, ln, st, o))
        bad = C.coq_eval_cases("C09", "det", IMPORTS, "string", "dec_det", terms, shard=1000)
        for i in bad[:20]:
            text, ln, st, o = cases[i]
            chk.disagree("detailed model != _detailed_tag_parser", {"kind": "det", "text": text, "lineno": ln, "start": st, "impl": o})
    finally:
        set_dotall(bool(_state["ambient_flags"] & re.DOTALL))
    # ---- 4. compile path + apps.ready ----
    compile_check(chk, 3000 if thorough else 600)
    ready_check(chk)
    # ---- 5. monkeypatch_template_cls on Template subclasses ----
    patch_check(chk, thorough)
    chk.extra["feature_histogram"] = hist
    chk.assumptions = [
        "Python re semantics of tag_re ({%.*?%}|{{.*?}}|{#.*?#}, with/without DOTALL) and of the take-until patterns ((?:\\\\.|[^q])* per quote, [^'\"%]*) "
        "are modelled by hand matchers anchored to the pattern strings, the take_until_any call sites and the stop-character tuples of the current "
        "source (Gen/C09.v) and compared with re on every generated input",
        "str.strip() removes exactly the code points with str.isspace() (set regenerated from the running CPython, anchored)",
        "observables: (token_type, contents, position, lineno) of parse_template and DebugLexer; TemplateSyntaxError message; "
        "Invalid-block-tag line and template_debug line on the compile path",
        "statement-silent corner, reported not alarmed: an unterminated quoted string / tag inside a quoted block tag raises TemplateSyntaxError "
        "(stock Django emits tokens); the reference lexer has the same outcome (count under feature_histogram.errors)",
        "exhaustive families and structured sources are compared through a 40-bit hash of the full outcome (collision = missed difference, "
        "probability ~1e-12 per case); differing cases are re-run with full outcomes",
    ]
    return chk.finish(
        rule="every string up to length %d over the 9-symbol alphabet {%%}\"'\\ \\n a space and up to %d over {}#%% \\n v \" - enumerated both in Python "
             "(implementation + direct oracle) and inside Coq (model), with tag_re with and without DOTALL when the string has a newline; %d structured "
             "sources (text, {{ }}, {# #}, tags with 0..4 quoted strings of both kinds with escapes / embedded %%} }} newlines, multi-line tags, verbatim "
             "blocks incl. quoted names, unterminated constructs) and random strings of length 8-24; DebugLexer with preset verbatim; "
             "_detailed_tag_parser directly; compile-path error lines; CR / CRLF sources (alphabet { %% } \" \\r \\n a up to %d, corpus, generators); the token "
             "stream Template(source) hands to django.template.base.Parser (captured by wrapping Parser.__init__, engine.debug on and off) for every "
             "corpus / structured / random / CR source and every 16th exhaustive one: same oracles against Template.source, equality with parse_template, "
             "model comparison on a sample; monkeypatch_template_cls on Template subclasses: all histories of <= %d class-creation (with / without an own "
             "compile_nodelist) / patch events + random longer ones after django.setup(), and in fresh interpreters with django.setup() at every position / "
             "never - lexer in use and is_template_cls_patched per class vs Lexer/PatchModel.v, full token oracles for explicitly patched classes. Non-trivial = at least two quoted block tags or a multi-line quoted tag "
             "(detailed parser: closes after skipping a quoted %%}). Distinct = distinct (flag, source)."
             % (l1, l2, nstruct, l3, 5 if thorough else 4),
        explanation="theorems of Props/C09.v re-checked by coqc (partition, contents, lineno, first unquoted close, stock equality, equality with the "
                    "one-pass reference lexer spec_lex, first difference, termination - all sources); the Gallina model (django_lex, detailed, parse_template) is evaluated by vm_compute "
                    "inside Coq on the generated cases and compared with the observed tokens / errors of parse_template, DebugLexer and "
                    "_detailed_tag_parser; an independent one-pass quote-aware reference lexer and the partition / contents / lineno predicates "
                    "act as the direct property oracle.",
        extra_trusted=["modelled, not verified: Python re (tag_re, take-until patterns), str.strip/str.count, Django Token/DebugLexer plumbing, "
                       "Parser error reporting (compile path is observed only)",
                       "Lexer/Codec.v (transport decoding and hashing of correspondence cases)"])


def replay(path):
    import djsetup
    djsetup.setup()
    r = json.load(open(path))
    case = r.get("case", {})
    print(json.dumps(r, indent=1)[:3000])
    if case.get("kind") == "lex":
        set_dotall(bool(case["dotall"]))
        obs, stock = run_impl(case["source"])
        spec, info = spec_parse(case["source"])
        print("parse_template:", obs)
        print("stock         :", stock)
        print("reference     :", spec, info)
        f, _ = oracle(case["source"], obs, stock)
        print("oracle        :", f)
        set_dotall(bool(_state["ambient_flags"] & re.DOTALL))
        return 1 if f else 0
    if case.get("kind") == "det":
        o = run_impl_det(case["text"], case.get("lineno", 1), case.get("start", 0))
        r = spec_scan(case["text"], 2)
        ln, st = case.get("lineno", 1), case.get("start", 0)
        want = ("toks", [(2, case["text"][2:r[1] - 2].strip(), st, st + r[1], ln)]) if r[0] == "closed" else r[:-1]
        print("impl:", o)
        print("spec:", want)
        return 0 if o == want else 1
    if case.get("kind") == "lexv":
        set_dotall(bool(case["dotall"]))
        toks = run_impl_lexv(case["source"], case.get("verbatim"))
        f = local_oracle(case["source"], toks)
        print("DebugLexer(verbatim=%r):" % case.get("verbatim"), toks)
        print("oracle:", f)
        set_dotall(bool(_state["ambient_flags"] & re.DOTALL))
        return 1 if f else 0
    if case.get("kind") == "patch-history":
        import c09_util as U
        h = case["history"]
        if any(e[0] == "setup" for e in h) or "fresh interpreter" in case.get("where", ""):
            rc_, out = C.sh([sys.executable, os.path.join(C.VERIF, "harness", "c09_util.py"), json.dumps({"histories": [h], "probes": PATCH_PROBES})], timeout=300)
            res = json.loads(out.strip().split("\n")[-1])
            obs, probes = res["worlds"][0], PATCH_PROBES
            refs = [(_norm_stream(r["parse_template"]), [tuple(x) for x in r["stock"]]) for r in res["reference"]]
            model_events = [["patch", 0] if e[0] == "setup" else e for e in h]
        else:
            from django.template import Template
            set_dotall(True)
            set_dotall(bool(_state["ambient_flags"] & re.DOTALL))
            classes = [Template]
            U.apply_events(h, classes)
            probes = list(dict.fromkeys(PATCH_PROBES + ([case["source"]] if "source" in case else [])))
            obs = U.observe(classes, probes)
            refs = [run_impl(s) for s in probes]
            model_events = [["patch", 0]] + h
        patched = sorted({e[1] for e in model_events if e[0] == "patch"})
        rc = 0
        for ci, o in enumerate(obs):
            for pi, s in enumerate(probes):
                for di, debug in enumerate((True, False)):
                    st = _norm_stream(o["streams"][pi][di])
                    same = st == _norm_stream(refs[pi][0])
                    print("class %d (patched explicitly: %s, is_template_cls_patched: %s) debug=%r source=%r\n   stream: %s\n   == parse_template(source): %s"
                          % (ci, ci in patched, o["flag"], debug, s, _short(st), same))
                    if ci in patched and not same:
                        rc = 1
        return rc
    if case.get("kind") == "compile-route":
        set_dotall(bool(case.get("dotall", True)))
        s = case["source"]
        obs, stock = run_impl(s)
        rc = 0
        for debug in ((case["debug"],) if "debug" in case else (True, False)):
            cobs = run_impl_compile(s, debug)
            f = local_oracle(s, cobs[1]) if cobs[0] == "toks" else None
            if f is None:
                f, _ = oracle(s, cobs, stock)
            print("Template(source) -> Parser tokens (engine.debug=%r):" % debug, cobs)
            print("oracle against Template.source:", f, "; equals parse_template(source):", cobs == obs)
            rc = rc or (1 if (f or cobs != obs) else 0)
        print("parse_template(source):", obs)
        print("stock                 :", stock)
        set_dotall(bool(_state["ambient_flags"] & re.DOTALL))
        return rc
    if case.get("kind") == "compile" and "source" in case:
        from django.template import Engine, Template
        src = case["source"]
        try:
            Template(src, engine=Engine(debug=True))
            print("compiled")
        except Exception as e:  # noqa
            print("raised %s: %s ; template_debug line %r ; expected line %r" % (
                type(e).__name__, e, (getattr(e, "template_debug", None) or {}).get("line"), case.get("expected_line")))
            m = re.search(r"Invalid block tag on line (\d+)", str(e))
            return 0 if (m and int(m.group(1)) == case.get("expected_line")) else 1
        return 1
    return 0
