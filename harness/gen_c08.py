"""Constants of /repo's dependencies.py that the C08 model (coq/DepsRender/Model.v) is written against.

Regenerated on every run into coq/Gen/C08.v.  The hand matchers of the model are anchored to these pattern
strings by `Example ..._anchor ... reflexivity`, so an edit of a pattern in the source breaks a proof obligation
of Props/C08.v.  The two whitespace classes are what Python's `re` uses for `\\s` in bytes mode (marker and
placeholder patterns) and in str mode (end-tag pattern); they are measured on the running interpreter.
"""
import re

import common as C
from gen_constants import generator


def _b(x):
    return x if isinstance(x, bytes) else x.encode()


@generator
def gen_C08():
    import django_components.dependencies as D
    out = []

    def d(name, val):
        out.append("Definition %s : str := %s." % (name, C.cstr(_b(val))))
    for rx, nm, want_bytes in ((D.COMPONENT_COMMENT_REGEX, "comment_regex", True),
                               (D.SCRIPT_NAME_REGEX, "script_name_regex", True),
                               (D.PLACEHOLDER_REGEX, "placeholder_regex", True),
                               (D.head_or_body_end_tag_re, "end_tag_regex", False)):
        if isinstance(rx.pattern, bytes) != want_bytes:
            raise RuntimeError("C08 generator: %s changed between bytes and str mode" % nm)
        d(nm, rx.pattern)
        out.append("Definition %s_flags : N := %d%%N." % (nm, rx.flags))
    d("css_placeholder_name", D.CSS_PLACEHOLDER_NAME_B)
    d("js_placeholder_name", D.JS_PLACEHOLDER_NAME_B)
    d("css_placeholder", D.CSS_DEPENDENCY_PLACEHOLDER)
    d("js_placeholder", D.JS_DEPENDENCY_PLACEHOLDER)
    d("deps_comment", D.COMPONENT_DEPS_COMMENT)
    bspace = [c for c in range(256) if re.match(rb"\s", bytes([c]))]
    bword = [c for c in range(256) if re.match(rb"\w", bytes([c]))]
    uspace = [c for c in range(0x110000) if re.match(r"\s", chr(c))]
    out.append("Definition bytes_space : list N := [%s]%%N." % ";".join(map(str, bspace)))
    out.append("Definition bytes_word : list N := [%s]%%N." % ";".join(map(str, bword)))
    out.append("Definition unicode_space : list N := [%s]%%N." % ";".join(map(str, uspace)))
    return "\n".join(out) + "\n"
